//! C09 correspondence + monitor harness: the real verified-registry and datacap actors (with real
#![allow(unused_imports)]
//! account, multisig, power and miner actors as parties) on the harness VM against
//! coq/Model/Verifreg.v.
#[path = "vrcommon/mod.rs"]
mod vrcommon;
use vrcommon::*;
use fil_actor_datacap::{Method as DcMethod, State as DcState};
use fil_actor_verifreg::{
    AddVerifiedClientParams, AddVerifierParams, Allocation, AllocationClaim, AllocationRequest,
    AllocationRequests, AllocationsResponse, Claim, ClaimAllocationsParams, ClaimAllocationsReturn,
    ClaimExtensionRequest, ClaimTerm, ExtendClaimTermsParams, ExtendClaimTermsReturn,
    GetClaimsParams, GetClaimsReturn, Method as VrMethod, RemoveDataCapParams,
    RemoveDataCapProposal, RemoveDataCapProposalID, RemoveDataCapRequest, RemoveDataCapReturn,
    RemoveExpiredAllocationsParams, RemoveExpiredAllocationsReturn, RemoveExpiredClaimsParams,
    RemoveExpiredClaimsReturn, RemoveVerifierParams, SectorAllocationClaims,
    State as VrState, SIGNATURE_DOMAIN_SEPARATION_REMOVE_DATA_CAP,
};
use fil_actors_runtime::runtime::policy_constants::{
    MAXIMUM_VERIFIED_ALLOCATION_EXPIRATION, MAXIMUM_VERIFIED_ALLOCATION_TERM,
    MINIMUM_VERIFIED_ALLOCATION_SIZE, MINIMUM_VERIFIED_ALLOCATION_TERM,
};
use fil_actors_runtime::test_utils::make_piece_cid;
use fil_actors_runtime::{
    Map2, DATACAP_TOKEN_ACTOR_ADDR, DEFAULT_HAMT_CONFIG, STORAGE_MARKET_ACTOR_ADDR,
    VERIFIED_REGISTRY_ACTOR_ADDR,
};
use frc46_token::token::state::decode_actor_id;
use frc46_token::token::types::{
    BurnFromParams, BurnFromReturn, BurnParams, BurnReturn, DecreaseAllowanceParams,
    IncreaseAllowanceParams, RevokeAllowanceParams, TransferFromParams, TransferFromReturn,
    TransferParams, TransferReturn,
};
use fvm_ipld_encoding::RawBytes;
use fvm_ipld_hamt::{BytesKey, Hamt, Sha256};
use fvm_shared::address::Address;
use fvm_shared::bigint::BigInt;
use fvm_shared::crypto::signature::Signature;
use fvm_shared::econ::TokenAmount;
use fvm_shared::piece::PaddedPieceSize;
use fvm_shared::sector::RegisteredPoStProof;
use integer_encoding::VarInt;
use num_traits::{Signed, Zero};
use serde::{Deserialize, Serialize};
use serde_json::json;
use std::collections::{BTreeMap, BTreeSet, HashMap};
use vharness::coqfmt::{self as cf, Case, CaseWriter, Stats};
use vharness::prng::Prng;
use vharness::util::*;
use vharness::vvm::{Vvm, TEST_VERIFREG_ROOT_ADDR};
use vm_api::trace::InvocationTrace;
use vm_api::util::get_state;
use vm_api::VM;

fn setup() -> World {
    let v = new_world();
    v.strict_sigs.replace(true);
    let accts = fil_actors_integration_tests::util::create_accounts(&v, 7, &TokenAmount::from_whole(10_000));
    let mut keys = HashMap::new();
    for a in &accts {
        keys.insert(a.id().unwrap(), get_state::<fil_actor_account::State>(&v, a).unwrap().address);
    }
    let mut miners = vec![];
    for i in 5..7 {
        let (m, _) = fil_actors_integration_tests::util::create_miner(
            &v,
            &accts[i],
            &accts[i],
            RegisteredPoStProof::StackedDRGWindow32GiBV1P1,
            &TokenAmount::from_whole(100),
        );
        miners.push(m.id().unwrap());
    }
    v.take_invocations();
    let cids = (0..NDATA).map(|i| make_piece_cid(format!("piece-{}", i).as_bytes())).collect();
    World {
        v,
        accts: accts.iter().map(|a| a.id().unwrap()).collect(),
        keys,
        miners,
        root: TEST_VERIFREG_ROOT_ADDR.id().unwrap(),
        cids,
    }
}

// ---------- monitor: the property's predicates on the implementation's own states ----------
#[derive(Clone, Copy, PartialEq, Debug)]
enum Fate { Open, Claimed, Refunded }

struct Mon {
    fate: HashMap<u64, Fate>,
    minted: BigInt,
    burnt: BigInt,
    created: u64,
    claimed: u64,
    refunded: u64,
    claims_removed: u64,
    extensions: u64,
    term_extensions: u64,
    hook_rollbacks: u64,
    expected_panics: u64,
}

fn sum_alloc_sizes(s: &Snap) -> BigInt {
    s.allocs.values().map(|a| BigInt::from(a.size.0)).sum()
}

fn monitor(w: &World, op: &VOp, pre: &Snap, post: &Snap, o: &Outcome, m: &mut Mon) -> Vec<(String, String)> {
    let mut bad: Vec<(String, String)> = vec![];
    let mut fail = |class: &str, what: String| bad.push((class.to_string(), what));
    // --- conservation ---
    let sum: BigInt = post.bals.values().cloned().sum();
    if sum != post.supply {
        fail("supply-not-sum-of-balances", format!("supply {} != sum of balances {}", post.supply, sum));
    }
    if post.bals.values().any(|b| !b.is_positive()) || post.supply.is_negative() {
        fail("non-positive-balance-entry", "a stored balance is <= 0 or the supply is negative".into());
    }
    m.minted += &o.minted;
    m.burnt += &o.burnt;
    if post.supply != &m.minted - &m.burnt {
        fail("supply-not-minted-minus-burnt", format!("supply {} != minted {} - burnt {}", post.supply, m.minted, m.burnt));
    }
    let reg_bal = post.bals.get(&VR).cloned().unwrap_or_default();
    if reg_bal != sum_alloc_sizes(post) * precision() {
        fail("registry-balance-not-unclaimed-allocations",
            format!("registry balance {} != sum of open allocation sizes {} * 10^18", reg_bal, sum_alloc_sizes(post)));
    }
    if o.code != 0 {
        if pre != post {
            fail("rejected-message-changed-state", format!("{} exit {} changed the state", kind(op), o.code));
        }
        if matches!(op, VOp::Transfer { .. } | VOp::TransferFrom { .. }) && ![16u32, 18, 19].contains(&o.code) {
            m.hook_rollbacks += 1;
        }
        return bad;
    }
    // --- verifier allowance ---
    if let VOp::AddClient { caller, addr, allowance } = op {
        let before = pre.verifiers.get(caller).cloned();
        let after = post.verifiers.get(caller).cloned();
        match (before, after) {
            (Some(b), Some(a)) => {
                if &b - &a != BigInt::from(*allowance) {
                    fail("verifier-allowance-not-exact", format!("cap {} -> {} for a grant of {}", b, a, allowance));
                }
                if a.is_negative() {
                    fail("verifier-allowance-negative", format!("cap {}", a));
                }
            }
            _ => fail("verifier-allowance-not-exact", "grant by a non-verifier accepted".into()),
        }
        let bb = pre.bals.get(addr).cloned().unwrap_or_default();
        let ba = post.bals.get(addr).cloned().unwrap_or_default();
        if ba - bb != BigInt::from(*allowance) * precision() {
            fail("client-grant-not-exact", "client balance did not grow by the grant".into());
        }
    } else if pre.verifiers != post.verifiers
        && !matches!(op, VOp::AddVerifier { .. } | VOp::RemoveVerifier { .. })
    {
        fail("verifier-table-changed", format!("{} changed the verifier table", kind(op)));
    }
    // --- fate automaton from the events ---
    let epoch = w.v.epoch();
    let mut claimed_now: Vec<u64> = vec![];
    let mut refunded_now: Vec<u64> = vec![];
    for (k, i) in &o.events {
        match k {
            2 => {
                if m.fate.insert(*i, Fate::Open).is_some() {
                    fail("allocation-id-created-twice", format!("allocation {} created twice", i));
                }
                m.created += 1;
            }
            3 => {
                match m.fate.get(i) {
                    Some(Fate::Open) => {}
                    other => fail("allocation-spent-twice", format!("allocation {} refunded while {:?}", i, other)),
                }
                m.fate.insert(*i, Fate::Refunded);
                refunded_now.push(*i);
                m.refunded += 1;
            }
            4 => {
                match m.fate.get(i) {
                    Some(Fate::Open) => {}
                    other => fail("allocation-spent-twice", format!("allocation {} claimed while {:?}", i, other)),
                }
                m.fate.insert(*i, Fate::Claimed);
                claimed_now.push(*i);
                m.claimed += 1;
            }
            5 => {
                if matches!(op, VOp::ExtendTerms { .. }) { m.term_extensions += 1 } else { m.extensions += 1 }
            }
            6 => m.claims_removed += 1,
            _ => {}
        }
    }
    let open_ids: BTreeSet<u64> = m.fate.iter().filter(|(_, f)| **f == Fate::Open).map(|(i, _)| *i).collect();
    let table_ids: Vec<u64> = post.allocs.keys().map(|(_, i)| *i).collect();
    let table_set: BTreeSet<u64> = table_ids.iter().cloned().collect();
    if table_set.len() != table_ids.len() {
        fail("allocation-id-not-unique", "two clients hold the same allocation id".into());
    }
    if open_ids != table_set {
        fail("allocation-table-not-open-set", format!("open per events {:?} != table {:?}", open_ids, table_set));
    }
    for ((c, _), a) in &post.allocs {
        if a.client != *c {
            fail("allocation-client-key-mismatch", "allocation stored under a foreign client".into());
        }
    }
    // --- claim conditions ---
    if let VOp::ClaimAllocs { caller, groups, .. } = op {
        let mut total = BigInt::zero();
        for i in &claimed_now {
            let pre_a = pre.allocs.iter().find(|((_, k), _)| k == i).map(|(_, a)| a.clone());
            // the declaration that was honoured: in the first successful sector group naming the id
            let decl = groups
                .iter()
                .enumerate()
                .filter(|(gi, _)| o.group_codes.get(*gi).cloned() == Some(0))
                .flat_map(|(_, g)| g.claims.iter().map(move |c| (g, c)))
                .find(|(_, c)| c.id == *i);
            match (pre_a, decl) {
                (Some(a), Some((g, c))) => {
                    total += BigInt::from(a.size.0);
                    let life = g.expiry - epoch;
                    if a.provider != *caller { fail("claimed-by-foreign-provider", format!("allocation {} of provider {} claimed by {}", i, a.provider, caller)); }
                    if a.client != c.client || data_index(w, &a.data) != c.data as i64 || a.size.0 != c.size {
                        fail("claim-mismatched-data", format!("allocation {} claimed with mismatching client/data/size", i));
                    }
                    if epoch > a.expiration { fail("claim-after-expiration", format!("allocation {} expired at {} claimed at {}", i, a.expiration, epoch)); }
                    if life < a.term_min || life > a.term_max { fail("claim-outside-term", format!("allocation {} term [{}, {}] claimed for lifetime {}", i, a.term_min, a.term_max, life)); }
                    match post.claims.get(&(*caller, *i)) {
                        Some(cl) if cl.client == a.client && cl.data == a.data && cl.size == a.size && cl.term_min == a.term_min
                            && cl.term_max == a.term_max && cl.term_start == epoch && cl.sector == g.sector && cl.provider == *caller => {}
                        other => fail("claim-record-wrong", format!("claim for allocation {} is {:?}", i, other)),
                    }
                }
                _ => fail("claim-of-unknown-allocation", format!("claim event for {} without allocation/declaration", i)),
            }
        }
        if &pre.supply - &post.supply != &total * precision() {
            fail("claim-burn-not-exact", format!("supply fell by {} for claimed size {}", &pre.supply - &post.supply, total));
        }
    } else if !claimed_now.is_empty() {
        fail("claim-outside-claim-allocations", format!("{} emitted claim events", kind(op)));
    }
    // --- refund conditions ---
    if let VOp::RemoveExpAllocs { client, .. } = op {
        let mut total = BigInt::zero();
        for i in &refunded_now {
            match pre.allocs.get(&(*client, *i)) {
                Some(a) => {
                    total += BigInt::from(a.size.0);
                    if epoch < a.expiration { fail("refund-before-expiration", format!("allocation {} expiring at {} refunded at {}", i, a.expiration, epoch)); }
                }
                None => fail("refund-to-foreign-client", format!("allocation {} is not client {}'s", i, client)),
            }
        }
        let bb = pre.bals.get(client).cloned().unwrap_or_default();
        let ba = post.bals.get(client).cloned().unwrap_or_default();
        if ba - bb != &total * precision() {
            fail("refund-not-exact", format!("client {} balance did not grow by the refunded size {}", client, total));
        }
        if pre.supply != post.supply { fail("refund-changed-supply", "refund changed the supply".into()); }
    } else if !refunded_now.is_empty() {
        fail("refund-outside-remove-expired", format!("{} emitted allocation-removed events", kind(op)));
    }
    // --- claims: removal only after expiry, term_max monotone ---
    for (k, c) in &pre.claims {
        match post.claims.get(k) {
            None => {
                if epoch < c.term_start + c.term_max { fail("claim-removed-before-expiry", format!("claim {:?} removed at {}", k, epoch)); }
            }
            Some(c2) => {
                if c2.term_max < c.term_max { fail("claim-term-max-decreased", format!("claim {:?}", k)); }
                if (c2.provider, c2.client, &c2.data, c2.size, c2.term_min, c2.term_start, c2.sector)
                    != (c.provider, c.client, &c.data, c.size, c.term_min, c.term_start, c.sector) {
                    fail("claim-fields-changed", format!("claim {:?}", k));
                }
            }
        }
    }
    bad
}

// ---------- generator ----------
struct Gen<'a> { r: &'a mut Prng, epoch: i64 }

const SIZES: [u64; 5] = [1 << 20, 1 << 21, 3 << 20, 1 << 22, 1 << 20];

impl<'a> Gen<'a> {
    fn party(&mut self, w: &World) -> u64 {
        match self.r.below(100) {
            0..=69 => *self.r.pick(&w.accts),
            70..=84 => *self.r.pick(&w.miners),
            85..=92 => w.root,
            _ => NOBODY,
        }
    }
    fn verifier(&mut self, w: &World, s: &Snap) -> u64 {
        let vs: Vec<u64> = s.verifiers.keys().cloned().collect();
        if !vs.is_empty() && self.r.chance(85) { *self.r.pick(&vs) } else { w.accts[self.r.below(3) as usize] }
    }
    fn client(&mut self, w: &World, s: &Snap) -> u64 {
        let cs: Vec<u64> = s.bals.keys().cloned().filter(|k| *k != VR).collect();
        if !cs.is_empty() && self.r.chance(85) { *self.r.pick(&cs) } else { w.accts[2 + self.r.below(3) as usize] }
    }
    fn advance(&mut self) {
        let d = match self.r.below(100) {
            0..=39 => 0,
            40..=74 => self.r.range(1, 20),
            75..=86 => self.r.range(100, 3000),
            87..=91 => self.r.range(40_000, 100_000),
            92..=95 => MAXIMUM_VERIFIED_ALLOCATION_EXPIRATION + self.r.range(-2, 2),
            96..=98 => MINIMUM_VERIFIED_ALLOCATION_TERM + self.r.range(-5, 200_000),
            _ => MAXIMUM_VERIFIED_ALLOCATION_TERM / 2,
        };
        self.epoch += d;
    }
    fn areq(&mut self, w: &World) -> AReq {
        let provider = if self.r.chance(92) { *self.r.pick(&w.miners) } else { self.party(w) };
        let size = match self.r.below(100) { 0..=92 => *self.r.pick(&SIZES), 93..=96 => (1 << 20) - 1, _ => 0 };
        let tmin = MINIMUM_VERIFIED_ALLOCATION_TERM + match self.r.below(100) { 0..=79 => self.r.range(0, 1000), 80..=94 => self.r.range(0, 2_000_000), _ => -1 };
        let tmax = match self.r.below(100) {
            0..=69 => tmin + self.r.range(0, 400_000),
            70..=84 => MAXIMUM_VERIFIED_ALLOCATION_TERM - self.r.range(0, 1),
            85..=92 => tmin,
            93..=96 => tmin - 1,
            _ => MAXIMUM_VERIFIED_ALLOCATION_TERM + 1,
        };
        let exp = self.epoch + match self.r.below(100) {
            0..=59 => self.r.range(0, 2000),
            60..=84 => self.r.range(0, MAXIMUM_VERIFIED_ALLOCATION_EXPIRATION),
            85..=89 => MAXIMUM_VERIFIED_ALLOCATION_EXPIRATION,
            90..=93 => MAXIMUM_VERIFIED_ALLOCATION_EXPIRATION + 1,
            94..=96 => 0,
            _ => -1,
        };
        AReq { provider, data: self.r.below(NDATA as u64) as u8, size, tmin, tmax, exp }
    }
    fn payload(&mut self, w: &World, s: &Snap) -> (Payload, i128) {
        if self.r.chance(3) {
            return (Payload::Malformed, (1i128 << 20) * 1_000_000_000_000_000_000);
        }
        let na = match self.r.below(100) { 0..=9 => 0, 10..=64 => 1, 65..=89 => 2, _ => 3 };
        let mut allocs = vec![];
        for _ in 0..na {
            // keep most batches fully valid
            let mut a = self.areq(w);
            if self.r.chance(70) {
                a.provider = *self.r.pick(&w.miners);
                a.size = *self.r.pick(&SIZES);
                a.tmin = MINIMUM_VERIFIED_ALLOCATION_TERM + self.r.range(0, 1000);
                a.tmax = a.tmin + self.r.range(0, 400_000);
                a.exp = self.epoch + if self.r.chance(25) { self.r.range(0, 3000) } else { self.r.range(3000, MAXIMUM_VERIFIED_ALLOCATION_EXPIRATION) };
            }
            allocs.push(a);
        }
        let mut exts = vec![];
        let mut total: i128 = allocs.iter().map(|a| a.size as i128).sum();
        let keys: Vec<(u64, u64)> = s.claims.keys().cloned().collect();
        if (!keys.is_empty() && self.r.chance(30)) || self.r.chance(2) {
            let ne = 1 + self.r.below(2);
            for _ in 0..ne {
                if keys.is_empty() || self.r.chance(5) {
                    exts.push(EReq { provider: *self.r.pick(&w.miners), claim: 1 + self.r.below(30), tmax: MAXIMUM_VERIFIED_ALLOCATION_TERM });
                    continue;
                }
                let k = *self.r.pick(&keys);
                let c = &s.claims[&k];
                let limit = self.epoch + MAXIMUM_VERIFIED_ALLOCATION_TERM - c.term_start;
                let tmax = match self.r.below(100) {
                    0..=59 => (c.term_max + self.r.range(1, 100_000)).min(limit),
                    60..=74 => limit,
                    75..=84 => limit + 1,
                    85..=92 => c.term_max,
                    _ => c.term_max - 1,
                };
                total += c.size.0 as i128;
                exts.push(EReq { provider: k.0, claim: k.1, tmax });
            }
        }
        let e18: i128 = 1_000_000_000_000_000_000;
        let amount = match self.r.below(100) {
            0..=84 => total * e18,
            85..=88 => (total + 1) * e18,
            89..=92 => (total - 1).max(0) * e18,
            93..=95 => total * e18 + 1,
            96..=97 => -e18,
            _ => (total + (1 << 40)) * e18,
        };
        (Payload::Reqs { allocs, exts }, amount)
    }
    fn groups(&mut self, w: &World, s: &Snap, caller: u64) -> Vec<SGroup> {
        let epoch = self.epoch;
        let mine: Vec<(u64, u64)> = s.allocs.iter().filter(|(_, a)| a.provider == caller).map(|(k, _)| *k).collect();
        let live: Vec<(u64, u64)> = mine.iter().filter(|k| s.allocs[*k].expiration >= epoch).cloned().collect();
        let all: Vec<(u64, u64)> = s.allocs.keys().cloned().collect();
        let ng = match self.r.below(100) { 0..=2 => 0, 3..=59 => 1, 60..=89 => 2, _ => 3 };
        let mut gs: Vec<SGroup> = vec![];
        let mut used: Vec<(u64, u64)> = vec![];
        for _ in 0..ng {
            let nc = match self.r.below(100) { 0..=3 => 0, 4..=64 => 1, 65..=92 => 2, _ => 3 };
            let mut claims = vec![];
            let (mut lo, mut hi) = (i64::MIN, i64::MAX);
            for _ in 0..nc {
                let pick: Option<(u64, u64)> = match self.r.below(100) {
                    0..=69 => {
                        let mut fresh: Vec<_> = live.iter().filter(|k| !used.contains(k)).cloned().collect();
                        if fresh.is_empty() { fresh = mine.iter().filter(|k| !used.contains(k)).cloned().collect(); }
                        if fresh.is_empty() { fresh = mine.clone(); }
                        if fresh.is_empty() { None } else { Some(*self.r.pick(&fresh)) }
                    }
                    70..=79 => { let fresh: Vec<_> = mine.iter().filter(|k| !used.contains(k)).cloned().collect(); if fresh.is_empty() { None } else { Some(*self.r.pick(&fresh)) } }
                    80..=86 => if used.is_empty() { None } else { Some(*self.r.pick(&used)) },
                    87..=95 => if all.is_empty() { None } else { Some(*self.r.pick(&all)) },
                    _ => None,
                };
                match pick {
                    Some(k) => {
                        let a = &s.allocs[&k];
                        used.push(k);
                        lo = lo.max(a.term_min);
                        hi = hi.min(a.term_max);
                        let mut c = AClaim { client: k.0, id: k.1, data: data_index(w, &a.data) as u8, size: a.size.0 };
                        match self.r.below(100) {
                            0..=92 => {}
                            93..=94 => c.data = (c.data + 1) % NDATA,
                            95..=96 => c.size += 1,
                            _ => c.client = *self.r.pick(&w.accts),
                        }
                        claims.push(c);
                    }
                    None => claims.push(AClaim { client: *self.r.pick(&w.accts), id: 1 + self.r.below(s.next_id + 2), data: 0, size: 1 << 20 }),
                }
            }
            if lo == i64::MIN { lo = MINIMUM_VERIFIED_ALLOCATION_TERM; hi = lo + 1000; }
            // sector lifetime (expiry - epoch, at a non-zero epoch) inside the common term range, or
            // on / one off its two boundaries term_min and term_max
            let life = match self.r.below(100) {
                0..=61 => if lo <= hi { self.r.range(lo, hi) } else { lo },
                62..=69 => lo,
                70..=79 => lo - 1,
                80..=83 => lo + 1,
                84..=89 => hi,
                90..=96 => hi + 1,
                _ => hi - 1,
            };
            gs.push(SGroup { sector: 1 + self.r.below(4), expiry: epoch + life, claims });
        }
        gs
    }
    fn ids_from(&mut self, have: &[u64], hi: u64) -> Vec<u64> {
        if self.r.chance(45) { return vec![]; }
        let n = 1 + self.r.below(3);
        let mut out = vec![];
        for _ in 0..n {
            if !have.is_empty() && self.r.chance(80) { out.push(*self.r.pick(have)); } else { out.push(1 + self.r.below(hi + 2)); }
        }
        if !out.is_empty() && self.r.chance(8) { let d = out[0]; out.push(d); }
        out
    }
    fn amount_near(&mut self, bal: &BigInt) -> i128 {
        let e18: i128 = 1_000_000_000_000_000_000;
        let units: i128 = (bal / precision()).try_into().unwrap_or(1 << 40);
        match self.r.below(100) {
            0..=59 => (self.r.below((units.min(1 << 22)) as u64 + 1) as i128) * e18,
            60..=69 => units * e18,
            70..=79 => (units + 1) * e18,
            80..=87 => (1i128 << 20) * e18 + 5,
            88..=92 => 0,
            _ => -e18,
        }
    }

    fn op(&mut self, w: &World, s: &Snap) -> VOp {
        self.advance();
        let epoch = self.epoch;
        let has_verifier = !s.verifiers.is_empty();
        let has_client = s.bals.keys().any(|k| *k != VR);
        let has_alloc = !s.allocs.is_empty();
        let has_claim = !s.claims.is_empty();
        // weights
        let mut wts: Vec<(u32, u8)> = vec![
            (if has_verifier { 4 } else { 40 }, 0),   // add verifier
            (if has_verifier { 2 } else { 1 }, 1),    // remove verifier
            (if !has_verifier { 2 } else if has_client { 8 } else { 40 }, 2), // add client
            (if has_client && s.verifiers.len() >= 2 { 4 } else { 1 }, 3),  // remove datacap
            (if has_client { 24 } else { 2 }, 4),      // transfer
            (if has_client { 7 } else { 1 }, 5),       // transfer_from
            (if has_alloc { 22 } else { 2 }, 6),       // claim
            (if has_alloc { 9 } else { 1 }, 7),        // remove expired allocs
            (if has_claim { 6 } else { 1 }, 8),        // remove expired claims
            (if has_claim { 6 } else { 1 }, 9),        // extend terms
            (if has_claim { 3 } else { 1 }, 10),       // get claims
            (if has_client { 3 } else { 1 }, 11),      // burn
            (if has_client { 3 } else { 1 }, 12),      // burn_from
            (if has_client { 3 } else { 1 }, 13),      // inc
            (if has_client { 2 } else { 1 }, 14),      // dec
            (if has_client { 2 } else { 1 }, 15),      // revoke
        ];
        let total: u32 = wts.iter().map(|x| x.0).sum();
        let mut pick = self.r.below(total as u64) as u32;
        let mut kind_ix = 0u8;
        for (wt, k) in wts.drain(..) {
            if pick < wt { kind_ix = k; break; }
            pick -= wt;
        }
        let root_or = |g: &mut Gen, w: &World| if g.r.chance(90) { w.root } else { g.party(w) };
        match kind_ix {
            0 => {
                let caller = root_or(self, w);
                let addr = match self.r.below(100) { 0..=74 => w.accts[self.r.below(3) as usize], 75..=79 => w.miners[1], _ => self.party(w) };
                let allowance = match self.r.below(100) { 0..=89 => (1i128 << 24) + self.r.below(1 << 26) as i128, 90..=94 => 1 << 20, _ => (1 << 20) - 1 };
                VOp::AddVerifier { caller, addr, allowance }
            }
            1 => { let caller = root_or(self, w); let addr = if self.r.chance(70) { self.verifier(w, s) } else { self.party(w) }; VOp::RemoveVerifier { caller, addr } }
            2 => {
                let caller = if self.r.chance(90) { self.verifier(w, s) } else { self.party(w) };
                let addr = match self.r.below(100) { 0..=79 => w.accts[2 + self.r.below(3) as usize], 80..=84 => w.miners[0], _ => self.party(w) };
                let cap: i128 = s.verifiers.get(&caller).and_then(|c| c.try_into().ok()).unwrap_or(1 << 24);
                let allowance = match self.r.below(100) {
                    0..=79 => ((1i128 << 22) + self.r.below(1 << 23) as i128).min(cap.max(1 << 20)),
                    80..=86 => cap,
                    87..=92 => cap + 1,
                    93..=96 => 1 << 20,
                    _ => (1 << 20) - 1,
                };
                VOp::AddClient { caller, addr, allowance }
            }
            3 => {
                let caller = root_or(self, w);
                let client = if self.r.chance(85) { self.client(w, s) } else { self.party(w) };
                let bal: i128 = (s.bals.get(&client).cloned().unwrap_or_default() / precision()).try_into().unwrap_or(0);
                let amount = match self.r.below(100) { 0..=49 => self.r.below(bal.max(1) as u64 + 1) as i128, 50..=74 => bal + self.r.below(1000) as i128, 75..=89 => bal, 90..=95 => 0, _ => -1 };
                let v1 = self.verifier(w, s);
                let mut v2 = self.verifier(w, s);
                if v2 == v1 && self.r.chance(90) { if let Some(o) = s.verifiers.keys().find(|k| **k != v1) { v2 = *o; } }
                let mut mk = |g: &mut Gen, vv: u64| {
                    let pid = s.proposals.get(&(vv, client)).cloned().unwrap_or(0);
                    let mut sp = SigSpec { signer: vv, pid, amount, client };
                    match g.r.below(100) {
                        0..=84 => {}
                        85..=89 => sp.pid = pid + 1,
                        90..=92 => sp.pid = pid.saturating_sub(1),
                        93..=95 => sp.signer = *g.r.pick(&w.accts),
                        96..=97 => sp.amount += 1,
                        _ => sp.client = *g.r.pick(&w.accts),
                    }
                    sp
                };
                let s1 = mk(self, v1);
                let s2 = mk(self, v2);
                VOp::RemoveDataCap { caller, client, amount, v1, s1, v2, s2 }
            }
            4 => {
                let caller = if self.r.chance(92) { self.client(w, s) } else { self.party(w) };
                let (p, amount) = self.payload(w, s);
                let to = if self.r.chance(94) { VR } else { self.party(w) };
                VOp::Transfer { epoch, caller, to, amount, p }
            }
            5 => {
                let from = if self.r.chance(92) { self.client(w, s) } else { self.party(w) };
                let ops: Vec<u64> = s.allows.keys().filter(|(o, _)| *o == from).map(|(_, p)| *p).collect();
                let caller = match self.r.below(100) { 0..=79 if !ops.is_empty() => *self.r.pick(&ops), 0..=89 => MARKET, 90..=94 => from, _ => self.party(w) };
                let (p, amount) = self.payload(w, s);
                let to = if self.r.chance(94) { VR } else { self.party(w) };
                VOp::TransferFrom { epoch, caller, from, to, amount, p }
            }
            6 => {
                // boundary: claim exactly at (or one epoch after) an open allocation's expiration
                let mut epoch = epoch;
                let exps: Vec<i64> = s.allocs.values().map(|a| a.expiration).filter(|x| *x >= epoch).collect();
                if !exps.is_empty() && self.r.chance(22) {
                    epoch = *self.r.pick(&exps) + if self.r.chance(75) { 0 } else { 1 };
                    self.epoch = epoch;
                }
                let mut provs: Vec<u64> = s.allocs.values().filter(|a| a.expiration >= epoch).map(|a| a.provider).collect();
                if provs.is_empty() { provs = s.allocs.values().map(|a| a.provider).collect(); }
                let caller = match self.r.below(100) { 0..=84 if !provs.is_empty() => *self.r.pick(&provs), 0..=94 => *self.r.pick(&w.miners), _ => self.party(w) };
                let groups = self.groups(w, s, caller);
                VOp::ClaimAllocs { epoch, caller, groups, aon: self.r.chance(30) }
            }
            7 => {
                let clients: Vec<u64> = s.allocs.keys().map(|k| k.0).collect();
                let client = if !clients.is_empty() && self.r.chance(85) { *self.r.pick(&clients) } else { self.party(w) };
                let have: Vec<u64> = s.allocs.keys().filter(|k| k.0 == client).map(|k| k.1).collect();
                // boundary: exactly at (or one epoch before) an allocation's expiration
                let mut epoch = epoch;
                let exps: Vec<i64> = s.allocs.iter().filter(|(k, _)| k.0 == client).map(|(_, a)| a.expiration).filter(|x| *x > epoch).collect();
                if !exps.is_empty() && self.r.chance(30) {
                    epoch = *self.r.pick(&exps) - if self.r.chance(70) { 0 } else { 1 };
                    self.epoch = epoch;
                }
                let ids = self.ids_from(&have, s.next_id);
                VOp::RemoveExpAllocs { epoch, caller: self.party_existing(w), client, ids }
            }
            8 => {
                let provs: Vec<u64> = s.claims.keys().map(|k| k.0).collect();
                let provider = if !provs.is_empty() && self.r.chance(85) { *self.r.pick(&provs) } else { self.party(w) };
                let have: Vec<u64> = s.claims.keys().filter(|k| k.0 == provider).map(|k| k.1).collect();
                // boundary: exactly at (or one epoch before) the end of a claim's term
                let mut epoch = epoch;
                let ends: Vec<i64> = s.claims.iter().filter(|(k, _)| k.0 == provider).map(|(_, c)| c.term_start + c.term_max).filter(|x| *x > epoch).collect();
                if !ends.is_empty() && self.r.chance(20) {
                    epoch = *self.r.pick(&ends) - if self.r.chance(70) { 0 } else { 1 };
                    self.epoch = epoch;
                }
                let ids = self.ids_from(&have, s.next_id);
                VOp::RemoveExpClaims { epoch, caller: self.party_existing(w), provider, ids }
            }
            9 => {
                let keys: Vec<(u64, u64)> = s.claims.keys().cloned().collect();
                let n = 1 + self.r.below(3);
                let mut terms = vec![];
                let mut caller = self.party_existing(w);
                for j in 0..n {
                    if keys.is_empty() || self.r.chance(8) { terms.push((*self.r.pick(&w.miners), 1 + self.r.below(20), MAXIMUM_VERIFIED_ALLOCATION_TERM)); continue; }
                    let k = if j > 0 && self.r.chance(25) { (terms[0].0, terms[0].1) } else { *self.r.pick(&keys) };
                    let tm = s.claims.get(&k).map(|c| c.term_max).unwrap_or(MINIMUM_VERIFIED_ALLOCATION_TERM);
                    if j == 0 && self.r.chance(88) { if let Some(c) = s.claims.get(&k) { caller = c.client; } }
                    let t = match self.r.below(100) {
                        0..=59 => (tm + self.r.range(1, 200_000)).min(MAXIMUM_VERIFIED_ALLOCATION_TERM),
                        60..=69 => tm,
                        70..=79 => MAXIMUM_VERIFIED_ALLOCATION_TERM,
                        80..=89 => tm - 1,
                        _ => MAXIMUM_VERIFIED_ALLOCATION_TERM + 1,
                    };
                    terms.push((k.0, k.1, t));
                }
                VOp::ExtendTerms { caller, terms }
            }
            10 => {
                let provs: Vec<u64> = s.claims.keys().map(|k| k.0).collect();
                let provider = if !provs.is_empty() && self.r.chance(85) { *self.r.pick(&provs) } else { self.party(w) };
                let have: Vec<u64> = s.claims.keys().filter(|k| k.0 == provider).map(|k| k.1).collect();
                let mut ids = self.ids_from(&have, s.next_id);
                if ids.is_empty() { ids = have.clone(); }
                VOp::GetClaims { caller: self.party_existing(w), provider, ids }
            }
            11 => {
                let caller = if self.r.chance(90) { self.client(w, s) } else { self.party_existing(w) };
                let amount = self.amount_near(&s.bals.get(&caller).cloned().unwrap_or_default());
                VOp::Burn { caller, amount }
            }
            12 => {
                let owner = if self.r.chance(90) { self.client(w, s) } else { self.party(w) };
                let ops: Vec<u64> = s.allows.keys().filter(|(o, _)| *o == owner).map(|(_, p)| *p).collect();
                let caller = match self.r.below(100) { 0..=79 if !ops.is_empty() => *self.r.pick(&ops), 0..=89 => MARKET, 90..=94 => owner, _ => self.party_existing(w) };
                let amount = self.amount_near(&s.bals.get(&owner).cloned().unwrap_or_default());
                VOp::BurnFrom { caller, owner, amount }
            }
            13 | 14 => {
                let caller = if self.r.chance(85) { self.client(w, s) } else { self.party_existing(w) };
                let operator = match self.r.below(100) { 0..=59 => w.accts[5], 60..=79 => MARKET, 80..=89 => caller, _ => self.party(w) };
                let e18: i128 = 1_000_000_000_000_000_000;
                let delta = match self.r.below(100) { 0..=69 => (1 + self.r.below(1 << 22)) as i128 * e18, 70..=84 => self.r.below(1 << 30) as i128, 85..=92 => 0, _ => -5 };
                if kind_ix == 13 { VOp::IncAllowance { caller, operator, delta } } else { VOp::DecAllowance { caller, operator, delta } }
            }
            _ => {
                let caller = if self.r.chance(85) { self.client(w, s) } else { self.party_existing(w) };
                let ops: Vec<u64> = s.allows.keys().filter(|(o, _)| *o == caller).map(|(_, p)| *p).collect();
                let operator = if !ops.is_empty() && self.r.chance(80) { *self.r.pick(&ops) } else { self.party(w) };
                VOp::RevokeAllowance { caller, operator }
            }
        }
    }
    /// a caller must be an existing actor (the VM cannot send from a non-actor)
    fn party_existing(&mut self, w: &World) -> u64 {
        loop {
            let p = self.party(w);
            if p != NOBODY { return p; }
        }
    }
}

fn caller_of(op: &VOp) -> u64 {
    match op {
        VOp::AddVerifier { caller, .. } | VOp::RemoveVerifier { caller, .. } | VOp::AddClient { caller, .. }
        | VOp::RemoveDataCap { caller, .. } | VOp::Transfer { caller, .. } | VOp::TransferFrom { caller, .. }
        | VOp::ClaimAllocs { caller, .. } | VOp::RemoveExpAllocs { caller, .. } | VOp::RemoveExpClaims { caller, .. }
        | VOp::ExtendTerms { caller, .. } | VOp::GetClaims { caller, .. } | VOp::Burn { caller, .. }
        | VOp::BurnFrom { caller, .. } | VOp::IncAllowance { caller, .. } | VOp::DecAllowance { caller, .. }
        | VOp::RevokeAllowance { caller, .. } => *caller,
    }
}
fn set_caller(op: &mut VOp, c: u64) {
    match op {
        VOp::AddVerifier { caller, .. } | VOp::RemoveVerifier { caller, .. } | VOp::AddClient { caller, .. }
        | VOp::RemoveDataCap { caller, .. } | VOp::Transfer { caller, .. } | VOp::TransferFrom { caller, .. }
        | VOp::ClaimAllocs { caller, .. } | VOp::RemoveExpAllocs { caller, .. } | VOp::RemoveExpClaims { caller, .. }
        | VOp::ExtendTerms { caller, .. } | VOp::GetClaims { caller, .. } | VOp::Burn { caller, .. }
        | VOp::BurnFrom { caller, .. } | VOp::IncAllowance { caller, .. } | VOp::DecAllowance { caller, .. }
        | VOp::RevokeAllowance { caller, .. } => *caller = c,
    }
}

/// duplicate ids among the entries that pass the expiry check make the implementation `unwrap()` a
/// `None`: a panic = abort with roll-back, modelled as exit 24 (DESIGN.md section 5, last bullet)
fn expected_panic(op: &VOp, pre: &Snap, epoch: i64) -> bool {
    let dup = |ok: Vec<u64>| { let mut s = BTreeSet::new(); ok.iter().any(|i| !s.insert(*i)) };
    match op {
        VOp::RemoveExpAllocs { client, ids, .. } => dup(ids.iter().filter(|i| pre.allocs.get(&(*client, **i)).map(|a| epoch >= a.expiration).unwrap_or(false)).cloned().collect()),
        VOp::RemoveExpClaims { provider, ids, .. } => dup(ids.iter().filter(|i| pre.claims.get(&(*provider, **i)).map(|c| epoch >= c.term_start + c.term_max).unwrap_or(false)).cloned().collect()),
        _ => false,
    }
}

fn api_view_check(w: &World, s: &Snap) -> Option<String> {
    // the exported read methods must agree with the state the observation was read from
    let r = exec::<()>(&w.v, &id(w.accts[6]), &DATACAP_TOKEN_ACTOR_ADDR, &TokenAmount::zero(), DcMethod::TotalSupplyExported as u64, None);
    let sup: TokenAmount = r.ret.unwrap().deserialize().unwrap();
    if sup.atto() != &s.supply {
        return Some(format!("TotalSupply {} != state supply {}", sup.atto(), s.supply));
    }
    let mut holders: Vec<u64> = s.bals.keys().cloned().collect();
    holders.push(VR);
    holders.extend(w.accts.iter());
    for h in holders {
        let r = exec(&w.v, &id(w.accts[6]), &DATACAP_TOKEN_ACTOR_ADDR, &TokenAmount::zero(), DcMethod::BalanceExported as u64, Some(id(h)));
        let b: TokenAmount = r.ret.unwrap().deserialize().unwrap();
        if b.atto() != &s.bals.get(&h).cloned().unwrap_or_default() {
            return Some(format!("Balance({}) {} != state", h, b.atto()));
        }
    }
    w.v.take_invocations();
    None
}

fn run_case(vc: &VCase, stats: &mut Stats, genr: Option<(&mut Prng, usize)>, totals: &mut BTreeMap<String, u64>) -> (Case, VCase, Vec<serde_json::Value>) {
    let w = setup();
    let mut snap = snapshot(&w);
    let init = format!(
        "init {{| root := {}; accts := {}; miners := {} |}}",
        w.root, cf::zlist(&w.accts), cf::zlist(&w.miners));
    let mut steps = vec![];
    let mut done: Vec<VOp> = vec![];
    let mut fails = vec![];
    let mut mon = Mon { fate: HashMap::new(), minted: BigInt::zero(), burnt: BigInt::zero(), created: 0, claimed: 0, refunded: 0,
        claims_removed: 0, extensions: 0, term_extensions: 0, hook_rollbacks: 0, expected_panics: 0 };
    let (mut acc, mut rej) = (false, false);
    let mut genr = genr;
    let n = match &genr { Some((_, n)) => *n, None => vc.ops.len() };
    let mut epoch = 100i64;
    for i in 0..n {
        let mut op = match &mut genr {
            Some((r, _)) => { let mut g = Gen { r, epoch }; let o = g.op(&w, &snap); epoch = g.epoch; o }
            None => vc.ops[i].clone(),
        };
        if caller_of(&op) == NOBODY { set_caller(&mut op, w.accts[6]); }
        let mut notes = vec![];
        let o = run_op(&w, &op, &mut notes);
        let post = snapshot(&w);
        stats.op(kind(&op), o.code);
        if std::env::var("VERIF_DEBUG").is_ok() {
            if let VOp::ClaimAllocs { epoch, caller, groups, .. } = &op {
                for (gi, gc) in o.group_codes.iter().enumerate() {
                    if *gc == 18 {
                        for c in &groups[gi].claims {
                            eprintln!("G18 epoch {} caller {} expiry {} life {} decl {:?} alloc {:?}", epoch, caller, groups[gi].expiry, groups[gi].expiry - epoch, c, snap.allocs.get(&(c.client, c.id)));
                        }
                    }
                }
            }
        }
        for gc in &o.group_codes {
            *totals.entry(format!("claim_group_code_{}", gc)).or_insert(0) += 1;
        }
        if o.code == 0 && post != snap { acc = true }
        if o.code != 0 { rej = true }
        let mut bad = monitor(&w, &op, &snap, &post, &o, &mut mon);
        for nmsg in notes { bad.push(("hook-partial-result".into(), nmsg)); }
        if i % 8 == 7 || i + 1 == n {
            if let Some(msg) = api_view_check(&w, &post) { bad.push(("api-view-mismatch".into(), msg)); }
        }
        // panics: only the modelled ones are tolerated
        let panics: Vec<String> = w.v.panics.borrow().clone();
        w.v.panics.borrow_mut().clear();
        if !panics.is_empty() {
            if expected_panic(&op, &snap, w.v.epoch()) && o.code == 24 { mon.expected_panics += 1; }
            else { for p in panics { stats.panics.push(format!("{}: {}", kind(&op), p)); } }
        }
        done.push(op.clone());
        for (class, what) in bad {
            fails.push(json!({"class": class, "step": i, "what": [what], "case": VCase { ops: done.clone() }}));
        }
        steps.push((coq_op(&op), obs(&w, &post, &o)));
        snap = post;
    }
    // second oracle: the repository's own state invariants (verifreg / datacap parts)
    let msgs = state_check_messages(&w.v);
    for msg in msgs {
        if msg.contains("has no power claim") { continue; } // miners created without power: unrelated
        if msg.contains("stored an allowance for self") {
            // IncreaseAllowance with operator = caller stores a self-allowance, which frc46_token's own
            // invariant checker rejects; harmless for C09 (transfer_from refuses operator = owner): counted
            *totals.entry("state_check_self_allowance_messages".to_string()).or_insert(0) += 1;
            continue;
        }
        if msg.contains("is also a datacap token holder") {
            // the repository's test tooling expects a verifier never to hold DataCap; the actors allow it on a
            // legitimate path (a client whose tokens all sit in allocations is made a verifier - its balance is
            // zero at that moment - and an allocation later expires and is refunded to it). Not a clause of C09:
            // counted, not a failure.
            *totals.entry("state_check_verifier_holds_datacap_messages".to_string()).or_insert(0) += 1;
            continue;
        }
        fails.push(json!({"class": "repo-state-invariant", "step": n, "what": [msg], "case": VCase { ops: done.clone() }}));
    }
    for (k, v) in [("allocations_created", mon.created), ("allocations_claimed", mon.claimed), ("allocations_refunded", mon.refunded),
        ("claims_removed", mon.claims_removed), ("claim_extensions_by_datacap", mon.extensions), ("claim_term_extensions", mon.term_extensions),
        ("transfers_rolled_back_by_hook", mon.hook_rollbacks), ("modelled_panics", mon.expected_panics)] {
        *totals.entry(k.to_string()).or_insert(0) += v;
    }
    (Case { init, steps, nontrivial: acc && rej }, VCase { ops: done }, fails)
}

fn main() {
    // constants the model takes from coq/Gen must be the compiled ones
    assert_eq!(MINIMUM_VERIFIED_ALLOCATION_SIZE, 1 << 20);
    assert_eq!(VERIFIED_REGISTRY_ACTOR_ADDR.id().unwrap(), VR);
    assert_eq!(DATACAP_TOKEN_ACTOR_ADDR.id().unwrap(), DC);
    assert_eq!(STORAGE_MARKET_ACTOR_ADDR.id().unwrap(), MARKET);
    let a = cf::parse_args();
    let mut stats = Stats::default();
    let mut totals = BTreeMap::new();
    let header = "From VF Require Import Model.Verifreg Base.Corr.\nFrom Coq Require Import ZArith List.\nImport ListNotations.\nOpen Scope Z_scope.\n";
    let mut cw = CaseWriter::new(&a.out, header, "check_case", a.shards);
    let finish = |cw: CaseWriter, mut stats: Stats, totals: BTreeMap<String, u64>| {
        for (k, v) in totals { stats.extra.insert(k, json!(v)); }
        cw.finish(&stats, "verifreg");
    };
    if let Some(p) = &a.replay {
        let v: serde_json::Value = serde_json::from_str(&std::fs::read_to_string(p).unwrap()).unwrap();
        let node = if v.get("case").is_some() { v["case"].clone() } else { v["violation"]["detail"]["case"].clone() };
        let vc: VCase = serde_json::from_value(node).unwrap();
        let (c, _, fails) = run_case(&vc, &mut stats, None, &mut totals);
        cw.push(c);
        for f in fails { stats.monitor_fail(f); }
        finish(cw, stats, totals);
        return;
    }
    let corpus = std::path::Path::new(env!("CARGO_MANIFEST_DIR")).join("../corpus/C09");
    if let Ok(rd) = std::fs::read_dir(&corpus) {
        let mut files: Vec<_> = rd.filter_map(|e| e.ok()).map(|e| e.path()).collect();
        files.sort();
        for f in files {
            if f.extension().map(|x| x == "json").unwrap_or(false) {
                let v: serde_json::Value = serde_json::from_str(&std::fs::read_to_string(&f).unwrap()).unwrap();
                let vc: VCase = serde_json::from_value(v["case"].clone()).unwrap();
                let (c, _, fails) = run_case(&vc, &mut stats, None, &mut totals);
                cw.push(c);
                for f in fails { stats.monitor_fail(f); }
            }
        }
    }
    let mut root = Prng::new(a.seed);
    for k in 0..a.cases {
        let mut r = root.fork(k as u64);
        let (c, _, fails) = run_case(&VCase { ops: vec![] }, &mut stats, Some((&mut r, a.len)), &mut totals);
        cw.push(c);
        for f in fails { stats.monitor_fail(f); }
    }
    finish(cw, stats, totals);
}
