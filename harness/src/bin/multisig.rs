//! C12 correspondence + monitor harness: REAL multisig actors (created through the real init actor,
//! signers of one another, with real account actors) on the harness VM against coq/Model/Multisig.v.
//!
//! Every history starts from a world of accounts only; wallets are created by `Create` operations
//! (the constructor is part of the compared behaviour), then driven by top-level messages from
//! accounts whose payloads are (nested) calls of multisig methods, plain sends and opaque calls.
//!
//! Monitor: evaluated on the implementation's own states.  For every top-level message the harness
//! re-executes it from the same checkpoint with the k-th nested send failed by the VM's fault plan;
//! because a multisig method does nothing after its send, the committed state of that run IS the
//! real state at the instant of the k-th send.  The quorum / once / lock predicates are evaluated on
//! these real intermediate states and on the invocation trace.
use fil_actor_multisig::{
    compute_proposal_hash, AddSignerParams, ApproveReturn, ChangeNumApprovalsThresholdParams,
    ConstructorParams, LockBalanceParams, PendingTxnMap, ProposeParams, ProposeReturn,
    RemoveSignerParams, State as MState, SwapSignerParams, Transaction, TxnID, TxnIDParams,
    PENDING_TXN_CONFIG, SIGNERS_MAX,
};
use fil_actors_runtime::test_utils::MULTISIG_ACTOR_CODE_ID;
use fil_actors_runtime::INIT_ACTOR_ADDR;
use fvm_ipld_encoding::ipld_block::IpldBlock;
use fvm_ipld_encoding::RawBytes;
use fvm_shared::address::Address;
use fvm_shared::bigint::BigInt;
use fvm_shared::econ::TokenAmount;
use fvm_shared::error::ExitCode;
use num_traits::{Signed, Zero};
use serde::{Deserialize, Serialize};
use std::collections::{BTreeMap, BTreeSet, HashMap, HashSet};
use vharness::coqfmt::{self as cf, Case, CaseWriter, Stats};
use vharness::prng::Prng;
use vharness::util::*;
use vharness::vvm::Vvm;
use vm_api::trace::InvocationTrace;
use vm_api::util::get_state;
use vm_api::VM;

const EXPORTED_METHOD: u64 = (1 << 24) + 7;
const BAD_METHOD: u64 = 99;
const NOBODY: u64 = 99_999; // an id address at which no actor exists
const CHECK_FUEL: usize = 64; // = Model.Multisig.CHECK_FUEL

// ---------- operations (mirror of the model's op / payload / hasharg / top) ----------
#[derive(Clone, Debug, Serialize, Deserialize, PartialEq)]
enum Pl {
    Send,
    Opaque(i64),
    Call(Box<MOp>),
}
#[derive(Clone, Debug, Serialize, Deserialize, PartialEq)]
enum Hs {
    None,
    Bad,
    Of { req: Option<u64>, to: u64, value: i128, p: Box<Pl> },
}
#[derive(Clone, Debug, Serialize, Deserialize, PartialEq)]
enum MOp {
    Propose { to: u64, value: i128, p: Pl },
    Approve { id: i64, h: Hs },
    Cancel { id: i64, h: Hs },
    /// `key` / `akey` / `bkey`: the address argument is given as the account's public-key address
    /// instead of its ID address (only meaningful when it names an existing account)
    AddSigner { a: u64, inc: bool, #[serde(default)] key: bool },
    RemoveSigner { a: u64, dec: bool, #[serde(default)] key: bool },
    SwapSigner { a: u64, b: u64, #[serde(default)] akey: bool, #[serde(default)] bkey: bool },
    ChangeThreshold { n: u64 },
    LockBalance { start: i64, dur: i64, amt: i128 },
}
#[derive(Clone, Debug, Serialize, Deserialize)]
enum Top {
    Msg { e: i64, from: u64, to: u64, value: i128, p: Pl },
    Create { e: i64, from: u64, sg: Vec<u64>, th: u64, dur: i64, start: i64, value: i128 },
}
#[derive(Clone, Debug, Serialize, Deserialize)]
struct MCase {
    n_accounts: u64,
    ops: Vec<Top>,
}

// ---------- Gallina printing ----------
fn n(x: u64) -> String {
    format!("{}%N", x)
}
fn ad(a: u64, k: bool) -> String {
    format!("(mk_addr {} {})", n(a), cf::b(k))
}
fn coq_pl(p: &Pl) -> String {
    match p {
        Pl::Send => "PSend".into(),
        Pl::Opaque(c) => format!("(POpaque {})", cf::z(c)),
        Pl::Call(o) => format!("(PCall {})", coq_op(o)),
    }
}
fn coq_hs(h: &Hs) -> String {
    match h {
        Hs::None => "HNone".into(),
        Hs::Bad => "HBad".into(),
        Hs::Of { req, to, value, p } => format!(
            "(HOf {} {} {} {})",
            cf::opt(req.map(n)),
            n(*to),
            cf::z(value),
            coq_pl(p)
        ),
    }
}
fn coq_op(o: &MOp) -> String {
    match o {
        MOp::Propose { to, value, p } => format!("(Propose {} {} {})", n(*to), cf::z(value), coq_pl(p)),
        MOp::Approve { id, h } => format!("(Approve {} {})", cf::z(id), coq_hs(h)),
        MOp::Cancel { id, h } => format!("(Cancel {} {})", cf::z(id), coq_hs(h)),
        MOp::AddSigner { a, inc, key } => format!("(AddSigner {} {})", ad(*a, *key), cf::b(*inc)),
        MOp::RemoveSigner { a, dec, key } => format!("(RemoveSigner {} {})", ad(*a, *key), cf::b(*dec)),
        MOp::SwapSigner { a, b, akey, bkey } => format!("(SwapSigner {} {})", ad(*a, *akey), ad(*b, *bkey)),
        MOp::ChangeThreshold { n } => format!("(ChangeThreshold {})", cf::z(n)),
        MOp::LockBalance { start, dur, amt } => {
            format!("(LockBalance {} {} {})", cf::z(start), cf::z(dur), cf::z(amt))
        }
    }
}
fn coq_top(t: &Top) -> String {
    match t {
        Top::Msg { e, from, to, value, p } => {
            format!("Msg {} {} {} {} {}", cf::z(e), n(*from), n(*to), cf::z(value), coq_pl(p))
        }
        Top::Create { e, from, sg, th, dur, start, value } => format!(
            "Create {} {} {} {} {} {} {}",
            cf::z(e),
            n(*from),
            cf::list(sg.iter().map(|x| n(*x))),
            cf::z(th),
            cf::z(dur),
            cf::z(start),
            cf::z(value)
        ),
    }
}

// ---------- integer encoding (mirror of enc_op / enc_payload / enc_hash) ----------
fn enc_pl(p: &Pl, out: &mut Vec<String>) {
    match p {
        Pl::Send => out.push("0".into()),
        Pl::Opaque(c) => {
            out.push("1".into());
            out.push(cf::z(c));
        }
        Pl::Call(o) => {
            out.push("2".into());
            enc_op(o, out);
        }
    }
}
fn enc_hs(h: &Hs, out: &mut Vec<String>) {
    match h {
        Hs::None => out.push("0".into()),
        Hs::Bad => out.push("1".into()),
        Hs::Of { req, to, value, p } => {
            out.push("2".into());
            match req {
                None => out.push("0".into()),
                Some(r) => {
                    out.push("1".into());
                    out.push(cf::z(r));
                }
            }
            out.push(cf::z(to));
            out.push(cf::z(value));
            enc_pl(p, out);
        }
    }
}
fn enc_op(o: &MOp, out: &mut Vec<String>) {
    let mut push = |xs: Vec<String>| out.extend(xs);
    match o {
        MOp::Propose { to, value, p } => {
            push(vec!["1".into(), cf::z(to), cf::z(value)]);
            enc_pl(p, out);
        }
        MOp::Approve { id, h } => {
            push(vec!["2".into(), cf::z(id)]);
            enc_hs(h, out);
        }
        MOp::Cancel { id, h } => {
            push(vec!["3".into(), cf::z(id)]);
            enc_hs(h, out);
        }
        MOp::AddSigner { a, inc, key } => push(vec!["4".into(), cf::z(a), cf::z(*key as u8), cf::z(*inc as u8)]),
        MOp::RemoveSigner { a, dec, key } => push(vec!["5".into(), cf::z(a), cf::z(*key as u8), cf::z(*dec as u8)]),
        MOp::SwapSigner { a, b, akey, bkey } => {
            push(vec!["6".into(), cf::z(a), cf::z(*akey as u8), cf::z(b), cf::z(*bkey as u8)])
        }
        MOp::ChangeThreshold { n } => push(vec!["7".into(), cf::z(n)]),
        MOp::LockBalance { start, dur, amt } => {
            push(vec!["8".into(), cf::z(start), cf::z(dur), cf::z(amt)])
        }
    }
}

// ---------- real-state snapshots ----------
#[derive(Clone, Debug, PartialEq)]
struct TxSnap {
    to: Address,
    value: BigInt,
    method: u64,
    params: Vec<u8>,
    approved: Vec<u64>,
}
#[derive(Clone, Debug, PartialEq)]
struct WSnap {
    balance: BigInt,
    signers: Vec<u64>,
    threshold: u64,
    next_id: i64,
    init_bal: BigInt,
    start: i64,
    dur: i64,
    pending: BTreeMap<i64, TxSnap>,
}
#[derive(Clone, Debug, PartialEq, Default)]
struct Snap {
    next_actor: u64,
    wallets: BTreeMap<u64, WSnap>,
    accounts: BTreeMap<u64, BigInt>,
}

fn aid(a: &Address) -> u64 {
    a.id().unwrap_or(u64::MAX)
}

struct World {
    v: Vvm,
    accounts: Vec<u64>,
    wallets: Vec<u64>,
    /// realised (method, params) -> integer encoding of the payload it realises
    table: HashMap<(u64, Vec<u8>), Vec<String>>,
    executed: HashSet<(u64, i64)>,
    max_depth: usize,
    inner_failed: u64,
    reentrant: u64,
    /// public-key address of every account (and the reverse map)
    keys: HashMap<u64, Address>,
    key_ids: HashMap<Address, u64>,
    /// the monitor's OWN record of who approved what, in the order the approvals were given
    /// (from the invocation traces; independent of the order the implementation stores)
    chron: HashMap<(u64, i64), Vec<u64>>,
    order_reported: HashSet<(u64, i64)>,
    purges_multi: u64,
    preapproved_exec: u64,
    preapproved_refused: u64,
    key_args: u64,
}

fn setup(n_accounts: u64) -> World {
    let v = new_world();
    let accts = fil_actors_integration_tests::util::create_accounts(&v, n_accounts, &TokenAmount::from_atto(1_000_000));
    let mut keys = HashMap::new();
    let mut key_ids = HashMap::new();
    for a in &accts {
        let k = get_state::<fil_actor_account::State>(&v, a).unwrap().address;
        keys.insert(aid(a), k);
        key_ids.insert(k, aid(a));
    }
    World {
        v,
        accounts: accts.iter().map(aid).collect(),
        wallets: vec![],
        table: HashMap::new(),
        executed: HashSet::new(),
        max_depth: 0,
        inner_failed: 0,
        reentrant: 0,
        keys,
        key_ids,
        chron: HashMap::new(),
        order_reported: HashSet::new(),
        purges_multi: 0,
        preapproved_exec: 0,
        preapproved_refused: 0,
        key_args: 0,
    }
}

fn snapshot(w: &World) -> Snap {
    let init: fil_actor_init::State = get_state(&w.v, &INIT_ACTOR_ADDR).unwrap();
    let mut s = Snap { next_actor: init.next_id, ..Default::default() };
    for a in &w.accounts {
        s.accounts.insert(*a, w.v.balance(&Address::new_id(*a)).atto().clone());
    }
    for id in &w.wallets {
        let addr = Address::new_id(*id);
        let st: MState = get_state(&w.v, &addr).unwrap();
        let ptx = PendingTxnMap::load(w.v.store.as_ref(), &st.pending_txs, PENDING_TXN_CONFIG, "pending").unwrap();
        let mut pending = BTreeMap::new();
        ptx.for_each(|k: TxnID, t: &Transaction| {
            pending.insert(
                k.0,
                TxSnap {
                    to: t.to,
                    value: t.value.atto().clone(),
                    method: t.method,
                    params: t.params.to_vec(),
                    approved: t.approved.iter().map(aid).collect(),
                },
            );
            Ok(())
        })
        .unwrap();
        s.wallets.insert(
            *id,
            WSnap {
                balance: w.v.balance(&addr).atto().clone(),
                signers: st.signers.iter().map(aid).collect(),
                threshold: st.num_approvals_threshold,
                next_id: st.next_tx_id.0,
                init_bal: st.initial_balance.atto().clone(),
                start: st.start_epoch,
                dur: st.unlock_duration,
                pending,
            },
        );
    }
    s
}

// ---------- realisation of payloads as (method, params) ----------
fn ser<T: Serialize>(t: &T) -> RawBytes {
    RawBytes::serialize(t).unwrap()
}
impl World {
    /// the address an argument is realised as: the account's key address when asked for (and it is an
    /// account), the ID address otherwise
    fn arg_addr(&self, a: u64, key: bool) -> Address {
        match self.keys.get(&a) {
            Some(k) if key => *k,
            _ => Address::new_id(a),
        }
    }
    /// the actor an address argument names
    fn arg_id(&self, a: &Address) -> u64 {
        a.id().ok().or_else(|| self.key_ids.get(a).cloned()).unwrap_or(u64::MAX)
    }
    fn realize(&mut self, p: &Pl) -> (u64, RawBytes) {
        let (m, b) = match p {
            Pl::Send => (0, RawBytes::default()),
            Pl::Opaque(0) => (EXPORTED_METHOD, RawBytes::default()),
            Pl::Opaque(21) => (3, RawBytes::new(vec![0xff])), // only meaningful towards a wallet
            Pl::Opaque(_) => (BAD_METHOD, RawBytes::default()),
            Pl::Call(o) => match &**o {
                MOp::Propose { to, value, p } => {
                    let (im, ib) = self.realize(p);
                    (2, ser(&ProposeParams { to: Address::new_id(*to), value: TokenAmount::from_atto(*value), method: im, params: ib }))
                }
                MOp::Approve { id, h } => (3, ser(&TxnIDParams { id: TxnID(*id), proposal_hash: self.realize_hash(h) })),
                MOp::Cancel { id, h } => (4, ser(&TxnIDParams { id: TxnID(*id), proposal_hash: self.realize_hash(h) })),
                MOp::AddSigner { a, inc, key } => (5, ser(&AddSignerParams { signer: self.arg_addr(*a, *key), increase: *inc })),
                MOp::RemoveSigner { a, dec, key } => (6, ser(&RemoveSignerParams { signer: self.arg_addr(*a, *key), decrease: *dec })),
                MOp::SwapSigner { a, b, akey, bkey } => {
                    (7, ser(&SwapSignerParams { from: self.arg_addr(*a, *akey), to: self.arg_addr(*b, *bkey) }))
                }
                MOp::ChangeThreshold { n } => (8, ser(&ChangeNumApprovalsThresholdParams { new_threshold: *n })),
                MOp::LockBalance { start, dur, amt } => (
                    9,
                    ser(&LockBalanceParams { start_epoch: *start, unlock_duration: *dur, amount: TokenAmount::from_atto(*amt) }),
                ),
            },
        };
        let mut e = vec![];
        enc_pl(p, &mut e);
        self.table.insert((m, b.to_vec()), e);
        (m, b)
    }
    /// the REAL hash the actor computes for this pre-image
    fn realize_hash(&mut self, h: &Hs) -> Vec<u8> {
        match h {
            Hs::None => vec![],
            Hs::Bad => vec![0xAB; 32],
            Hs::Of { req, to, value, p } => {
                let (m, b) = self.realize(p);
                let t = Transaction {
                    to: Address::new_id(*to),
                    value: TokenAmount::from_atto(*value),
                    method: m,
                    params: b,
                    approved: req.iter().map(|r| Address::new_id(*r)).collect(),
                };
                compute_proposal_hash(&t, self.v.primitives()).unwrap().to_vec()
            }
        }
    }
}

fn decode_ret(bytes: &[u8], out: &mut Vec<String>) {
    if bytes.is_empty() {
        out.push("0".into());
        return;
    }
    if let Ok(r) = fvm_ipld_encoding::from_slice::<ProposeReturn>(bytes) {
        out.extend(vec!["1".into(), cf::z(r.txn_id.0), cf::z(r.applied as u8), cf::z(r.code.value())]);
        decode_ret(r.ret.bytes(), out);
        return;
    }
    if let Ok(r) = fvm_ipld_encoding::from_slice::<ApproveReturn>(bytes) {
        out.extend(vec!["2".into(), cf::z(r.applied as u8), cf::z(r.code.value())]);
        decode_ret(r.ret.bytes(), out);
        return;
    }
    out.push("-1".into());
}

fn blk(b: RawBytes) -> Option<IpldBlock> {
    b.into()
}

/// executes the real message; returns (exit code, encoded return value, created wallet id)
fn run_top(w: &mut World, op: &Top) -> (u32, Vec<String>, Option<u64>) {
    match op {
        Top::Msg { e, from, to, value, p } => {
            w.v.set_epoch(*e);
            let (m, b) = w.realize(p);
            let r = w
                .v
                .execute_message(&Address::new_id(*from), &Address::new_id(*to), &TokenAmount::from_atto(*value), m, blk(b))
                .unwrap();
            let mut enc = vec![];
            match &r.ret {
                Some(b) if r.code.is_success() => decode_ret(&b.data, &mut enc),
                _ => enc.push("0".into()),
            }
            (r.code.value(), enc, None)
        }
        Top::Create { e, from, sg, th, dur, start, value } => {
            w.v.set_epoch(*e);
            let params = fil_actor_init::ExecParams {
                code_cid: *MULTISIG_ACTOR_CODE_ID,
                constructor_params: ser(&ConstructorParams {
                    signers: sg.iter().map(|x| Address::new_id(*x)).collect(),
                    num_approvals_threshold: *th,
                    unlock_duration: *dur,
                    start_epoch: *start,
                }),
            };
            let r = exec(&w.v, &Address::new_id(*from), &INIT_ACTOR_ADDR, &TokenAmount::from_atto(*value), fil_actor_init::Method::Exec as u64, Some(params));
            let mut created = None;
            if r.code.is_success() {
                let ret: fil_actor_init::ExecReturn = r.ret.unwrap().deserialize().unwrap();
                created = Some(aid(&ret.id_address));
            }
            (r.code.value(), vec!["0".into()], created)
        }
    }
}

// ---------- observation (mirror of Model.Multisig.obs) ----------
fn obs(w: &World, s: &Snap, code: u32, ret: &[String]) -> Vec<String> {
    let mut o = vec![cf::z(code)];
    o.extend_from_slice(ret);
    o.push(cf::z(s.next_actor));
    o.push(cf::z(s.wallets.len()));
    for (id, ws) in &s.wallets {
        o.push(cf::z(id));
        o.push(cf::z(&ws.balance));
        o.push(cf::z(ws.signers.len()));
        o.extend(ws.signers.iter().map(cf::z));
        o.push(cf::z(ws.threshold));
        o.push(cf::z(ws.next_id));
        o.push(cf::z(&ws.init_bal));
        o.push(cf::z(ws.start));
        o.push(cf::z(ws.dur));
        o.push(cf::z(ws.pending.len()));
        for (tid, t) in &ws.pending {
            o.push(cf::z(tid));
            o.push(cf::z(t.to.id().map(|x| x as i128).unwrap_or(-1)));
            o.push(cf::z(&t.value));
            match w.table.get(&(t.method, t.params.clone())) {
                Some(e) => o.extend(e.iter().cloned()),
                None => o.push("-1".into()),
            }
            o.push(cf::z(t.approved.len()));
            o.extend(t.approved.iter().map(cf::z));
        }
    }
    for (id, b) in &s.accounts {
        o.push(cf::z(id));
        o.push(cf::z(b));
    }
    o
}

// ---------- monitor ----------
fn ceil_div(a: &BigInt, d: &BigInt) -> BigInt {
    // d > 0
    let (q, r) = (a / d, a % d);
    if r.is_positive() { q + 1 } else { q }
}
fn locked(ws: &WSnap, epoch: i64) -> BigInt {
    let elapsed = epoch - ws.start;
    if elapsed >= ws.dur {
        return BigInt::zero();
    }
    if elapsed <= 0 {
        return ws.init_bal.clone();
    }
    ceil_div(&(&ws.init_bal * BigInt::from(ws.dur - elapsed)), &BigInt::from(ws.dur))
}

fn chain_of(tr: &InvocationTrace) -> (Vec<&InvocationTrace>, bool) {
    let mut v = vec![];
    let mut cur = tr;
    let mut ok = true;
    loop {
        v.push(cur);
        if cur.subinvocations.is_empty() {
            break;
        }
        if cur.subinvocations.len() > 1 {
            ok = false;
        }
        cur = &cur.subinvocations[0];
    }
    (v, ok)
}

fn params_of(t: &InvocationTrace) -> Vec<u8> {
    t.params.as_ref().map(|b| b.data.clone()).unwrap_or_default()
}

fn kind_of_method(m: u64) -> &'static str {
    match m {
        0 => "send",
        2 => "propose",
        3 => "approve",
        4 => "cancel",
        5 => "add_signer",
        6 => "remove_signer",
        7 => "swap_signer",
        8 => "change_threshold",
        9 => "lock_balance",
        _ => "other_method",
    }
}

struct Fail {
    class: &'static str,
    what: String,
}

/// state predicates of the property on one real snapshot
fn check_state(s: &Snap, bad: &mut Vec<Fail>) {
    for (id, ws) in &s.wallets {
        let distinct: BTreeSet<u64> = ws.signers.iter().cloned().collect();
        if ws.threshold < 1 || ws.threshold as usize > ws.signers.len() || ws.signers.len() > SIGNERS_MAX || distinct.len() != ws.signers.len() {
            bad.push(Fail { class: "bounds", what: format!("wallet {}: threshold {} signers {:?}", id, ws.threshold, ws.signers) });
        }
        for (tid, t) in &ws.pending {
            let d: BTreeSet<u64> = t.approved.iter().cloned().collect();
            if t.approved.is_empty() || d.len() != t.approved.len() || !t.approved.iter().all(|a| distinct.contains(a)) {
                bad.push(Fail { class: "stale-approval", what: format!("wallet {} txn {}: approvals {:?} signers {:?}", id, tid, t.approved, ws.signers) });
            }
            if *tid < 0 || *tid >= ws.next_id {
                bad.push(Fail { class: "txid", what: format!("wallet {} pending id {} next_tx_id {}", id, tid, ws.next_id) });
            }
        }
    }
}

/// `inst[j]` = real state at the instant of the j-th nested send (j-th element of chain[1..])
fn monitor(w: &mut World, epoch: i64, s0: &Snap, post: &Snap, inst: &[Snap], tr: &InvocationTrace, code: u32) -> Vec<Fail> {
    let mut bad = vec![];
    check_state(post, &mut bad);
    for s in inst {
        check_state(s, &mut bad);
    }
    let (chain, shape_ok) = chain_of(tr);
    if !shape_ok {
        bad.push(Fail { class: "trace-shape", what: "an invocation made more than one send".into() });
    }
    if code != 0 && (post.wallets != s0.wallets || post.accounts != s0.accounts) {
        bad.push(Fail { class: "failed-call-changed-state", what: format!("exit {}", code) });
    }
    if inst.len() + 1 != chain.len() {
        bad.push(Fail { class: "nondeterminism", what: format!("{} intermediate states for a chain of {}", inst.len(), chain.len()) });
        return bad;
    }
    // per frame
    for (d, fr) in chain.iter().enumerate() {
        let wid = aid(&fr.to);
        let pre_all = if d == 0 { s0 } else { &inst[d - 1] };
        let Some(pre) = pre_all.wallets.get(&wid) else { continue };
        let caller = fr.from;
        let pbytes = params_of(fr);
        if fr.method == 3 && fr.exit_code.value() == 19 {
            if let Ok(tp) = fvm_ipld_encoding::from_slice::<TxnIDParams>(&pbytes) {
                if pre.pending.get(&tp.id.0).map(|t| t.approved.len() as u64 >= pre.threshold).unwrap_or(false) {
                    w.preapproved_refused += 1;
                }
            }
        }
        if !fr.exit_code.is_success() {
            continue;
        }
        match fr.method {
            2 | 3 | 4 => {
                if !pre.signers.contains(&caller) {
                    bad.push(Fail { class: "non-signer", what: format!("{} accepted from {} who is not a signer of {}", kind_of_method(fr.method), caller, wid) });
                }
            }
            5..=9 => {
                if caller != wid {
                    bad.push(Fail { class: "config-by-other", what: format!("{} on {} accepted from {}", kind_of_method(fr.method), wid, caller) });
                }
            }
            _ => {}
        }
        if fr.method == 4 {
            if let Ok(tp) = fvm_ipld_encoding::from_slice::<TxnIDParams>(&pbytes) {
                match pre.pending.get(&tp.id.0) {
                    None => bad.push(Fail { class: "cancel", what: format!("cancel of non-pending txn {} accepted", tp.id.0) }),
                    Some(t) => {
                        if t.approved.first() != Some(&caller) {
                            bad.push(Fail { class: "cancel", what: format!("wallet {} txn {} cancelled by {} but approvals are {:?}", wid, tp.id.0, caller, t.approved) });
                        }
                        // the earliest REMAINING approver according to the monitor's own chronology
                        if let Some(ch) = w.chron.get(&(wid, tp.id.0)) {
                            let earliest = ch.iter().find(|a| t.approved.contains(a));
                            if earliest.is_some() && earliest != Some(&caller) {
                                bad.push(Fail {
                                    class: "cancel",
                                    what: format!("wallet {} txn {} cancelled by {} but its earliest remaining approver is {:?} (approvals were given in the order {:?})", wid, tp.id.0, caller, earliest, ch),
                                });
                            }
                        }
                    }
                }
            }
        }
        // the monitor's chronology of approvals (every successful frame is committed: a multisig method
        // never fails after its send)
        if code == 0 {
            match fr.method {
                2 => {
                    w.chron.insert((wid, pre.next_id), vec![caller]);
                }
                3 => {
                    if let Ok(tp) = fvm_ipld_encoding::from_slice::<TxnIDParams>(&pbytes) {
                        if let Some(t) = pre.pending.get(&tp.id.0) {
                            let e = w.chron.entry((wid, tp.id.0)).or_insert_with(|| t.approved.clone());
                            e.retain(|a| t.approved.contains(a));
                            if !e.contains(&caller) {
                                e.push(caller);
                            }
                            if d + 1 < chain.len() && t.approved.len() as u64 >= pre.threshold {
                                w.preapproved_exec += 1;
                            }
                        }
                    }
                }
                6 | 7 => {
                    let gone = if fr.method == 6 {
                        fvm_ipld_encoding::from_slice::<RemoveSignerParams>(&pbytes).ok().map(|p| p.signer)
                    } else {
                        fvm_ipld_encoding::from_slice::<SwapSignerParams>(&pbytes).ok().map(|p| p.from)
                    };
                    if let Some(g) = gone {
                        if g.id().is_err() {
                            w.key_args += 1;
                        }
                        let gid = w.arg_id(&g);
                        if pre.pending.values().any(|t| t.approved.len() >= 3 && t.approved.contains(&gid) && t.approved.last() != Some(&gid)) {
                            w.purges_multi += 1;
                        }
                    }
                }
                _ => {}
            }
        }
        // the send made by this frame, if any
        if d + 1 < chain.len() {
            let child = chain[d + 1];
            let at = &inst[d].wallets[&wid];
            if child.from != wid {
                bad.push(Fail { class: "trace-shape", what: "child invocation not from the frame's receiver".into() });
                continue;
            }
            let expected: Option<(i64, TxSnap, BTreeSet<u64>)> = match fr.method {
                2 => fvm_ipld_encoding::from_slice::<ProposeParams>(&pbytes).ok().map(|pp| {
                    (
                        pre.next_id,
                        TxSnap { to: pp.to, value: pp.value.atto().clone(), method: pp.method, params: pp.params.to_vec(), approved: vec![] },
                        BTreeSet::from([caller]),
                    )
                }),
                3 => fvm_ipld_encoding::from_slice::<TxnIDParams>(&pbytes).ok().and_then(|tp| {
                    pre.pending.get(&tp.id.0).map(|t| {
                        let mut a: BTreeSet<u64> = t.approved.iter().cloned().collect();
                        a.insert(caller);
                        (tp.id.0, t.clone(), a)
                    })
                }),
                _ => None,
            };
            let Some((id, t, approvers)) = expected else {
                bad.push(Fail { class: "quorum", what: format!("wallet {} sent a message from method {} without a pending transaction", wid, fr.method) });
                continue;
            };
            if child.to != t.to || child.value.atto() != &t.value || child.method != t.method || params_of(child) != t.params {
                bad.push(Fail { class: "sent-differs-from-approved", what: format!("wallet {} txn {}", wid, id) });
            }
            let good = approvers.iter().filter(|a| pre.signers.contains(a)).count() as u64;
            if pre.threshold < 1 || good < pre.threshold {
                bad.push(Fail {
                    class: "quorum",
                    what: format!("wallet {} txn {} sent with {} approvals of current signers (approvers {:?}, signers {:?}), threshold {}", wid, id, good, approvers, pre.signers, pre.threshold),
                });
            }
            if at.pending.contains_key(&id) {
                bad.push(Fail { class: "not-deleted-before-send", what: format!("wallet {} txn {} still pending while being sent", wid, id) });
            }
            if !w.executed.insert((wid, id)) {
                bad.push(Fail { class: "sent-twice", what: format!("wallet {} txn {} sent twice", wid, id) });
            }
            if t.value.is_positive() {
                let l = locked(at, epoch);
                if &at.balance - &t.value < l {
                    bad.push(Fail { class: "lock", what: format!("wallet {} txn {}: balance {} - value {} < locked {}", wid, id, at.balance, t.value, l) });
                }
            }
            if t.value.is_negative() {
                bad.push(Fail { class: "lock", what: "negative value sent".into() });
            }
            if !child.exit_code.is_success() {
                w.inner_failed += 1;
            }
            if chain[..=d].iter().filter(|f| aid(&f.to) == wid).count() > 1 {
                w.reentrant += 1;
            }
        }
    }
    // two-state predicates
    for (wid, a) in &s0.wallets {
        let Some(b) = post.wallets.get(wid) else {
            bad.push(Fail { class: "bounds", what: format!("wallet {} disappeared", wid) });
            continue;
        };
        if (a.signers.clone(), a.threshold, a.init_bal.clone(), a.start, a.dur) != (b.signers.clone(), b.threshold, b.init_bal.clone(), b.start, b.dur) {
            let via_self = chain.iter().any(|f| f.from == *wid && aid(&f.to) == *wid && (5..=9).contains(&f.method) && f.exit_code.is_success());
            if !via_self {
                bad.push(Fail { class: "config-change-without-self-call", what: format!("wallet {}", wid) });
            }
        }
        if b.next_id < a.next_id {
            bad.push(Fail { class: "txid", what: format!("wallet {} next_tx_id decreased", wid) });
        }
        for (tid, t) in &a.pending {
            if let Some(t2) = b.pending.get(tid) {
                if (t.to, &t.value, t.method, &t.params) != (t2.to, &t2.value, t2.method, &t2.params) {
                    bad.push(Fail { class: "txn-mutated", what: format!("wallet {} txn {}", wid, tid) });
                }
            }
        }
        for (tid, _) in &b.pending {
            if !a.pending.contains_key(tid) && *tid < a.next_id {
                bad.push(Fail { class: "resurrected", what: format!("wallet {} txn id {} re-appeared", wid, tid) });
            }
        }
    }
    for (wid, b) in &post.wallets {
        for tid in b.pending.keys() {
            if w.executed.contains(&(*wid, *tid)) {
                bad.push(Fail { class: "resurrected", what: format!("wallet {} executed txn {} pending again", wid, tid) });
            }
        }
    }
    // the stored order of the remaining approvals must be the order in which they were given
    w.chron.retain(|(wid, tid), _| post.wallets.get(wid).map(|b| b.pending.contains_key(tid)).unwrap_or(false));
    for ((wid, tid), ch) in w.chron.iter_mut() {
        let t = &post.wallets[wid].pending[tid];
        ch.retain(|a| t.approved.contains(a));
        // (the monitor keeps ITS order: a later cancel is judged against the order of approval, not
        // against whatever order the implementation stores)
        if *ch != t.approved && w.order_reported.insert((*wid, *tid)) {
            bad.push(Fail {
                class: "approval-order",
                what: format!("wallet {} txn {}: approvals stored as {:?} but given in the order {:?} (the first one may cancel)", wid, tid, t.approved, ch),
            });
        }
    }
    bad
}

// ---------- generator ----------
struct View<'a> {
    s: &'a Snap,
    epoch: i64,
}
impl View<'_> {
    fn actors(&self) -> Vec<u64> {
        self.s.accounts.keys().chain(self.s.wallets.keys()).cloned().collect()
    }
    fn accounts(&self) -> Vec<u64> {
        self.s.accounts.keys().cloned().collect()
    }
    fn wallets(&self) -> Vec<u64> {
        self.s.wallets.keys().cloned().collect()
    }
}

fn big_to_i128(b: &BigInt) -> i128 {
    b.try_into().unwrap_or(i128::MAX / 4)
}

fn gen_hash(r: &mut Prng, t: Option<&TxSnap>, view: &View, table: &HashMap<(u64, Vec<u8>), Pl>) -> Hs {
    let Some(t) = t else {
        return match r.below(3) { 0 => Hs::None, 1 => Hs::Bad, _ => Hs::Of { req: None, to: NOBODY, value: 0, p: Box::new(Pl::Send) } };
    };
    let real_p = table.get(&(t.method, t.params.clone())).cloned().unwrap_or(Pl::Send);
    let exact = Hs::Of { req: t.approved.first().cloned(), to: aid(&t.to), value: big_to_i128(&t.value), p: Box::new(real_p.clone()) };
    match r.below(100) {
        0..=44 => Hs::None,
        45..=84 => exact,
        85..=87 => Hs::Bad,
        88..=90 => Hs::Of { req: t.approved.get(1).cloned().or(Some(NOBODY)), to: aid(&t.to), value: big_to_i128(&t.value), p: Box::new(real_p) },
        91..=93 => Hs::Of { req: t.approved.first().cloned(), to: *r.pick(&view.actors()), value: big_to_i128(&t.value), p: Box::new(real_p) },
        94..=96 => Hs::Of { req: t.approved.first().cloned(), to: aid(&t.to), value: big_to_i128(&t.value) + 1, p: Box::new(real_p) },
        _ => Hs::Of { req: t.approved.first().cloned(), to: aid(&t.to), value: big_to_i128(&t.value), p: Box::new(if real_p == Pl::Send { Pl::Opaque(0) } else { Pl::Send }) },
    }
}

fn gen_config(r: &mut Prng, view: &View, x: u64) -> MOp {
    let ws = &view.s.wallets[&x];
    let actors = view.actors();
    let non: Vec<u64> = actors.iter().cloned().filter(|a| !ws.signers.contains(a)).collect();
    match r.below(100) {
        0..=27 => {
            let a = match r.below(100) {
                0..=79 if !non.is_empty() => *r.pick(&non),
                0..=91 => *r.pick(&ws.signers),
                _ => NOBODY,
            };
            MOp::AddSigner { a, inc: r.chance(40), key: view.s.accounts.contains_key(&a) && r.chance(30) }
        }
        28..=52 => {
            let a = match r.below(100) {
                0..=84 => *r.pick(&ws.signers),
                85..=94 if !non.is_empty() => *r.pick(&non),
                _ => NOBODY,
            };
            MOp::RemoveSigner { a, dec: r.chance(50), key: view.s.accounts.contains_key(&a) && r.chance(35) }
        }
        53..=72 => {
            let a = if r.chance(88) { *r.pick(&ws.signers) } else if !non.is_empty() { *r.pick(&non) } else { NOBODY };
            let b = match r.below(100) {
                0..=79 if !non.is_empty() => *r.pick(&non),
                0..=89 => *r.pick(&ws.signers),
                90..=94 => a,
                _ => NOBODY,
            };
            MOp::SwapSigner { a, b, akey: view.s.accounts.contains_key(&a) && r.chance(40), bkey: view.s.accounts.contains_key(&b) && r.chance(25) }
        }
        73..=87 => {
            let l = ws.signers.len() as u64;
            let nn = match r.below(100) { 0..=79 => 1 + r.below(l), 80..=87 => 0, 88..=95 => l + 1, _ => l };
            MOp::ChangeThreshold { n: nn }
        }
        _ => {
            let bal = big_to_i128(&ws.balance);
            let start = view.epoch + r.range(-30, 30);
            let dur = match r.below(100) { 0..=89 => *r.pick(&[1i64, 5, 20, 100, 400]), 90..=94 => 0, _ => -1 };
            let amt = match r.below(100) { 0..=84 => r.below((bal + bal / 4).max(1) as u64 + 1) as i128, 85..=94 => bal, _ => -1 };
            MOp::LockBalance { start, dur, amt }
        }
    }
}

/// a value for a transfer out of wallet x: mostly inside what is available, often at the boundary
fn gen_value(r: &mut Prng, view: &View, x: u64) -> i128 {
    let ws = &view.s.wallets[&x];
    let bal = big_to_i128(&ws.balance);
    let avail = bal - big_to_i128(&locked(ws, view.epoch));
    match r.below(100) {
        0..=44 => r.below((avail.max(0) / 3).max(1) as u64 + 1) as i128,
        45..=59 => avail.max(0),
        60..=69 => avail.max(0) + 1,
        70..=74 => (avail - 1).max(0),
        75..=79 => bal,
        80..=84 => bal + 1,
        85..=96 => 0,
        _ => -1,
    }
}

/// an operation on wallet x as it would be sent by `caller`
fn gen_mop(r: &mut Prng, view: &View, table: &HashMap<(u64, Vec<u8>), Pl>, x: u64, caller: u64, depth: u32) -> MOp {
    let ws = &view.s.wallets[&x];
    let ids: Vec<i64> = ws.pending.keys().cloned().collect();
    let k = r.below(100);
    if k < 34 || (ids.is_empty() && k < 85) {
        // Propose
        let wallets = view.wallets();
        match r.below(100) {
            0..=27 => MOp::Propose { to: *r.pick(&view.accounts()), value: gen_value(r, view, x), p: Pl::Send },
            28..=61 => MOp::Propose { to: x, value: if r.chance(92) { 0 } else { gen_value(r, view, x) }, p: Pl::Call(Box::new(gen_config(r, view, x))) },
            62..=84 if depth < 3 => {
                // a call of another wallet (or itself) where x is a signer, if there is one
                let mine: Vec<u64> = wallets.iter().cloned().filter(|y| view.s.wallets[y].signers.contains(&x)).collect();
                let y = if !mine.is_empty() && r.chance(85) { *r.pick(&mine) } else { *r.pick(&wallets) };
                let inner = gen_mop(r, view, table, y, x, depth + 1);
                MOp::Propose { to: y, value: if r.chance(85) { 0 } else { gen_value(r, view, x) }, p: Pl::Call(Box::new(inner)) }
            }
            62..=89 => MOp::Propose { to: *r.pick(&wallets), value: gen_value(r, view, x), p: Pl::Send },
            90..=94 => {
                let to = *r.pick(&view.actors());
                let c = if view.s.wallets.contains_key(&to) { *r.pick(&[0i64, 22, 21]) } else { *r.pick(&[0i64, 22]) };
                MOp::Propose { to, value: if r.chance(60) { 0 } else { gen_value(r, view, x) }, p: Pl::Opaque(c) }
            }
            95..=97 => MOp::Propose { to: NOBODY, value: gen_value(r, view, x), p: Pl::Send },
            _ => {
                // a multisig method sent to an account
                let to = *r.pick(&view.accounts());
                let inner = if r.chance(50) { MOp::Propose { to, value: 0, p: Pl::Send } } else { MOp::ChangeThreshold { n: 1 } };
                MOp::Propose { to, value: gen_value(r, view, x), p: Pl::Call(Box::new(inner)) }
            }
        }
    } else if k < 76 {
        // Approve
        let fresh: Vec<i64> = ids.iter().cloned().filter(|i| !ws.pending[i].approved.contains(&caller)).collect();
        let id = match r.below(100) {
            0..=74 if !fresh.is_empty() => *r.pick(&fresh),
            0..=91 if !ids.is_empty() => *r.pick(&ids),
            92..=95 => ws.next_id,
            _ => r.range(-1, ws.next_id + 1),
        };
        MOp::Approve { id, h: gen_hash(r, ws.pending.get(&id), view, table) }
    } else if k < 87 {
        let own: Vec<i64> = ids.iter().cloned().filter(|i| ws.pending[i].approved.first() == Some(&caller)).collect();
        let id = match r.below(100) {
            0..=64 if !own.is_empty() => *r.pick(&own),
            0..=91 if !ids.is_empty() => *r.pick(&ids),
            _ => r.range(-1, ws.next_id + 1),
        };
        MOp::Cancel { id, h: gen_hash(r, ws.pending.get(&id), view, table) }
    } else {
        gen_config(r, view, x)
    }
}

fn gen_create(r: &mut Prng, view: &View) -> Top {
    let accounts = view.accounts();
    let actors = view.actors();
    let from = *r.pick(&accounts);
    let mut sg: Vec<u64> = vec![];
    let want = 1 + r.below(4) as usize;
    let mut guard = 0;
    while sg.len() < want && guard < 50 {
        guard += 1;
        let a = if r.chance(70) { *r.pick(&accounts) } else { *r.pick(&actors) };
        if !sg.contains(&a) {
            sg.push(a);
        }
    }
    let mut th = match r.below(100) { 0..=29 => 1, 30..=74 => 1 + r.below(sg.len() as u64), _ => sg.len() as u64 };
    match r.below(100) {
        0..=2 => sg.clear(),
        3..=5 => { let d = sg[0]; sg.push(d); }
        6..=7 => sg.push(NOBODY),
        8 => sg.push(view.s.next_actor), // the wallet being created: it exists when its constructor runs
        9 => sg = (0..=SIGNERS_MAX as u64).map(|i| accounts[i as usize % accounts.len()]).collect(),
        10..=11 => th = 0,
        12..=14 => th = sg.len() as u64 + 1,
        _ => {}
    }
    let dur = match r.below(100) { 0..=49 => 0, 50..=93 => *r.pick(&[1i64, 10, 50, 200]), _ => -1 };
    let start = view.epoch + r.range(-20, 40);
    let from_bal = big_to_i128(&view.s.accounts[&from]);
    let value = match r.below(100) { 0..=9 => 0, 10..=95 => 1000 + r.below(50_000) as i128, _ => from_bal + 1 };
    Top::Create { e: view.epoch, from, sg, th, dur, start, value }
}

fn gen_top(r: &mut Prng, s: &Snap, table: &HashMap<(u64, Vec<u8>), Pl>, epoch: &mut i64) -> Top {
    *epoch += *r.pick(&[0i64, 0, 0, 1, 1, 2, 5, 17, 60]);
    let view = View { s, epoch: *epoch };
    let nw = s.wallets.len();
    if nw < 2 || (nw < 3 && r.chance(12)) || (nw < 4 && r.chance(2)) {
        return gen_create(r, &view);
    }
    let wallets = view.wallets();
    let accounts = view.accounts();
    let x = *r.pick(&wallets);
    let ws = &s.wallets[&x];
    let acct_signers: Vec<u64> = ws.signers.iter().cloned().filter(|a| s.accounts.contains_key(a)).collect();
    let from = if !acct_signers.is_empty() && r.chance(88) { *r.pick(&acct_signers) } else { *r.pick(&accounts) };
    let from_bal = big_to_i128(&s.accounts[&from]);
    match r.below(100) {
        0..=7 => Top::Msg { e: *epoch, from, to: x, value: if r.chance(95) { r.below(20_000) as i128 } else { from_bal + 1 }, p: Pl::Send },
        8 => {
            let to = *r.pick(&[NOBODY, accounts[0]]);
            let p = if r.chance(50) { Pl::Send } else { Pl::Opaque(22) };
            Top::Msg { e: *epoch, from, to, value: r.below(10) as i128, p }
        }
        9 => Top::Msg { e: *epoch, from, to: x, value: r.below(10) as i128, p: Pl::Opaque(*r.pick(&[0i64, 22, 21])) },
        _ => {
            let o = gen_mop(r, &view, table, x, from, 0);
            Top::Msg { e: *epoch, from, to: x, value: if r.chance(94) { 0 } else { r.below(500) as i128 }, p: Pl::Call(Box::new(o)) }
        }
    }
}

/// profile "big": one wallet with 4-6 signers and threshold 3-5 (often with a vesting lock) on which
/// payments sit pending and collect several approvals WHILE administrative self-proposals (removal /
/// swap of early approvers, threshold decreases) are driven to quorum; afterwards cancels by the
/// various approvers and approvals of transactions that already meet the lowered threshold.
fn gen_create_big(r: &mut Prng, view: &View) -> Top {
    let accounts = view.accounts();
    let from = *r.pick(&accounts);
    let want = (4 + r.below(3) as usize).min(accounts.len());
    let mut sg: Vec<u64> = vec![];
    while sg.len() < want {
        let a = if r.chance(90) || view.s.wallets.is_empty() { *r.pick(&accounts) } else { *r.pick(&view.wallets()) };
        if !sg.contains(&a) {
            sg.push(a);
        }
    }
    let th = (3 + r.below(3)).min(sg.len() as u64);
    let dur = if r.chance(60) { *r.pick(&[150i64, 400, 1000]) } else { 0 };
    let start = view.epoch + r.range(-5, 5);
    Top::Create { e: view.epoch, from, sg, th, dur, start, value: 5000 + r.below(40_000) as i128 }
}

fn is_admin(table: &HashMap<(u64, Vec<u8>), Pl>, x: u64, t: &TxSnap) -> bool {
    aid(&t.to) == x
        && matches!(table.get(&(t.method, t.params.clone())), Some(Pl::Call(o)) if !matches!(**o, MOp::Propose { .. } | MOp::Approve { .. } | MOp::Cancel { .. }))
}

fn gen_top_big(r: &mut Prng, s: &Snap, table: &HashMap<(u64, Vec<u8>), Pl>, epoch: &mut i64) -> Top {
    if s.wallets.is_empty() {
        let view = View { s, epoch: *epoch };
        return gen_create_big(r, &view);
    }
    if r.chance(10) {
        return gen_top(r, s, table, epoch);
    }
    *epoch += *r.pick(&[0i64, 0, 1, 1, 2, 4]);
    let view = View { s, epoch: *epoch };
    // the wallet with the most signers
    let x = *s.wallets.iter().max_by_key(|(_, w)| w.signers.len()).unwrap().0;
    let ws = &s.wallets[&x];
    let accounts = view.accounts();
    let acct_signers: Vec<u64> = ws.signers.iter().cloned().filter(|a| s.accounts.contains_key(a)).collect();
    if acct_signers.is_empty() {
        return gen_top(r, s, table, epoch);
    }
    let call = |from: u64, o: MOp| Top::Msg { e: view.epoch, from, to: x, value: 0, p: Pl::Call(Box::new(o)) };
    let th = ws.threshold as usize;
    let pays: Vec<i64> = ws.pending.iter().filter(|(_, t)| !is_admin(table, x, t)).map(|(i, _)| *i).collect();
    let admins: Vec<i64> = ws.pending.iter().filter(|(_, t)| is_admin(table, x, t)).map(|(i, _)| *i).collect();
    // 1. a payment that already meets the (lowered) threshold: any signer's Approve executes it
    let met: Vec<i64> = pays.iter().cloned().filter(|i| ws.pending[i].approved.len() >= th).collect();
    if !met.is_empty() && r.chance(65) {
        let id = *r.pick(&met);
        return call(*r.pick(&acct_signers), MOp::Approve { id, h: gen_hash(r, ws.pending.get(&id), &view, table) });
    }
    // 2. cancels by the various approvers of payments with several approvals
    let multi: Vec<i64> = pays.iter().cloned().filter(|i| ws.pending[i].approved.len() >= 2).collect();
    if !multi.is_empty() && r.chance(12) {
        let id = *r.pick(&multi);
        let ap = &ws.pending[&id].approved;
        let who = if r.chance(35) { ap[0] } else { *r.pick(ap) };
        if s.accounts.contains_key(&who) {
            return call(who, MOp::Cancel { id, h: if r.chance(70) { Hs::None } else { gen_hash(r, ws.pending.get(&id), &view, table) } });
        }
    }
    // 3. keep two payments pending (for locked wallets mostly above what is available)
    if pays.len() < 2 && r.chance(75) {
        let bal = big_to_i128(&ws.balance);
        let avail = (bal - big_to_i128(&locked(ws, view.epoch))).max(0);
        let value = if ws.dur > 0 && avail < bal && r.chance(65) { avail + 1 + r.below((bal - avail).max(1) as u64) as i128 } else { gen_value(r, &view, x) };
        return call(*r.pick(&acct_signers), MOp::Propose { to: *r.pick(&accounts), value, p: Pl::Send });
    }
    // 4. an administrative self-proposal aimed at the approvers of the pending payments
    if admins.is_empty() && r.chance(70) {
        let approvers: Vec<u64> = pays.iter().flat_map(|i| {
            let ap = &ws.pending[i].approved;
            ap[..ap.len().saturating_sub(1)].to_vec()
        }).collect();
        let early = if !approvers.is_empty() && r.chance(85) { *r.pick(&approvers) } else { *r.pick(&ws.signers) };
        let non: Vec<u64> = accounts.iter().cloned().filter(|a| !ws.signers.contains(a)).collect();
        let maxap = pays.iter().map(|i| ws.pending[i].approved.len()).max().unwrap_or(1).max(1) as u64;
        let o = match r.below(100) {
            0..=34 => MOp::RemoveSigner { a: early, dec: ws.signers.len() - 1 < th || r.chance(35), key: s.accounts.contains_key(&early) && r.chance(40) },
            35..=59 if !non.is_empty() => MOp::SwapSigner { a: early, b: *r.pick(&non), akey: s.accounts.contains_key(&early) && r.chance(50), bkey: r.chance(25) },
            35..=89 => MOp::ChangeThreshold { n: if r.chance(75) { 1 + r.below(maxap.min(ws.threshold.saturating_sub(1)).max(1)) } else { 1 + r.below(ws.signers.len() as u64) } },
            _ => gen_config(r, &view, x),
        };
        return call(*r.pick(&acct_signers), MOp::Propose { to: x, value: 0, p: Pl::Call(Box::new(o)) });
    }
    // 5. collect approvals: drive the admin proposal to quorum, let payments gather approvals below it
    let id = if !admins.is_empty() && (pays.is_empty() || r.chance(60)) {
        *r.pick(&admins)
    } else if !pays.is_empty() {
        let below: Vec<i64> = pays.iter().cloned().filter(|i| ws.pending[i].approved.len() + 1 < th).collect();
        if !below.is_empty() && r.chance(80) { *r.pick(&below) } else { *r.pick(&pays) }
    } else {
        ws.next_id
    };
    let fresh: Vec<u64> = acct_signers.iter().cloned().filter(|a| ws.pending.get(&id).map(|t| !t.approved.contains(a)).unwrap_or(true)).collect();
    let from = if !fresh.is_empty() && r.chance(90) { *r.pick(&fresh) } else { *r.pick(&acct_signers) };
    call(from, MOp::Approve { id, h: gen_hash(r, ws.pending.get(&id), &view, table) })
}

fn top_kind(t: &Top) -> &'static str {
    match t {
        Top::Create { .. } => "create",
        Top::Msg { p: Pl::Send, .. } => "deposit",
        Top::Msg { p: Pl::Opaque(_), .. } => "opaque",
        Top::Msg { p: Pl::Call(_), .. } => "call",
    }
}

fn run_case(mc: &MCase, stats: &mut Stats, genr: Option<(&mut Prng, usize, bool)>) -> (Case, MCase, Vec<serde_json::Value>) {
    let mut w = setup(mc.n_accounts);
    let mut snap = snapshot(&w);
    let init = format!(
        "init_world {} {}",
        cf::list(snap.accounts.iter().map(|(a, b)| format!("({}, {})", n(*a), cf::z(b)))),
        n(snap.next_actor)
    );
    let mut steps = vec![];
    let mut ops_done: Vec<Top> = vec![];
    let mut fails = vec![];
    let (mut acc, mut rej) = (false, false);
    let mut epoch = 0i64;
    let mut genr = genr;
    let total = match &genr { Some((_, l, _)) => *l, None => mc.ops.len() };
    let mut inv: HashMap<(u64, Vec<u8>), Pl> = HashMap::new();
    for i in 0..total {
        let op = match &mut genr {
            Some((r, _, false)) => gen_top(r, &snap, &inv, &mut epoch),
            Some((r, _, true)) => gen_top_big(r, &snap, &inv, &mut epoch),
            None => mc.ops[i].clone(),
        };
        let e = match &op { Top::Msg { e, .. } | Top::Create { e, .. } => *e };
        // remember the payloads of proposals so that later matching hashes can be built
        collect_payloads(&mut w, &mut inv, &op);
        let root0 = w.v.checkpoint();
        let s0 = snap.clone();
        // 1. plain run, to learn the shape of the call chain
        let (c1, _, _) = run_top(&mut w, &op);
        let tr1 = w.v.take_invocations();
        let depth = tr1.last().map(|t| chain_of(t).0.len()).unwrap_or(0);
        w.max_depth = w.max_depth.max(depth);
        // 2. the real state at the instant of every nested send
        let mut inst = vec![];
        if matches!(op, Top::Msg { .. }) {
            for k in 0..depth.saturating_sub(1) {
                w.v.rollback(root0);
                w.v.fail_plan.replace(Some((k as u64, ExitCode::new(77))));
                let _ = run_top(&mut w, &op);
                w.v.fail_plan.replace(None);
                let _ = w.v.take_invocations();
                inst.push(snapshot(&w));
            }
        }
        // 3. the run that counts
        w.v.rollback(root0);
        let (c, ret, created) = run_top(&mut w, &op);
        let trs = w.v.take_invocations();
        if let Some(id) = created {
            w.wallets.push(id);
        }
        let post = snapshot(&w);
        let mut bad = vec![];
        if c != c1 {
            bad.push(Fail { class: "nondeterminism", what: format!("exit {} then {}", c1, c) });
        }
        if let Some(tr) = trs.last() {
            if matches!(op, Top::Msg { .. }) {
                bad.extend(monitor(&mut w, e, &s0, &post, &inst, tr, c));
                // statistics per executed multisig method, at every depth
                for fr in chain_of(tr).0 {
                    if post.wallets.contains_key(&aid(&fr.to)) {
                        stats.op(kind_of_method(fr.method), fr.exit_code.value());
                    }
                }
            } else {
                check_state(&post, &mut bad);
                if c != 0 && (post.wallets != s0.wallets || post.accounts != s0.accounts) {
                    bad.push(Fail { class: "failed-call-changed-state", what: format!("create exit {}", c) });
                }
            }
        }
        stats.op(top_kind(&op), c);
        if c == 0 { acc = true } else { rej = true }
        ops_done.push(op.clone());
        for f in bad {
            fails.push(serde_json::json!({"class": f.class, "step": i, "what": [f.what], "case": MCase { n_accounts: mc.n_accounts, ops: ops_done.clone() }}));
        }
        for p in w.v.panics.borrow().iter() {
            stats.panics.push(p.clone());
        }
        w.v.panics.borrow_mut().clear();
        steps.push((coq_top(&op), obs(&w, &post, c, &ret)));
        snap = post;
    }
    let bump = |stats: &mut Stats, k: &str, v: u64, max: bool| {
        let cur = stats.extra.get(k).and_then(|x| x.as_u64()).unwrap_or(0);
        stats.extra.insert(k.to_string(), serde_json::json!(if max { cur.max(v) } else { cur + v }));
    };
    bump(stats, "max_call_depth", w.max_depth as u64, true);
    bump(stats, "inner_send_failed", w.inner_failed, false);
    bump(stats, "reentrant_sends", w.reentrant, false);
    bump(stats, "wallet_sends", w.executed.len() as u64, false);
    bump(stats, "check_fuel", CHECK_FUEL as u64, true);
    bump(stats, "purges_of_non_last_approver_of_3plus", w.purges_multi, false);
    bump(stats, "preapproved_executions", w.preapproved_exec, false);
    bump(stats, "preapproved_lock_refusals", w.preapproved_refused, false);
    bump(stats, "signer_removed_by_key_address", w.key_args, false);
    (Case { init, steps, nontrivial: acc && rej }, MCase { n_accounts: mc.n_accounts, ops: ops_done }, fails)
}

fn collect_pl(w: &mut World, inv: &mut HashMap<(u64, Vec<u8>), Pl>, p: &Pl) {
    let (m, b) = w.realize(p);
    inv.insert((m, b.to_vec()), p.clone());
    if let Pl::Call(o) = p {
        match &**o {
            MOp::Propose { p, .. } => collect_pl(w, inv, p),
            MOp::Approve { h: Hs::Of { p, .. }, .. } | MOp::Cancel { h: Hs::Of { p, .. }, .. } => collect_pl(w, inv, p),
            _ => {}
        }
    }
}
fn collect_payloads(w: &mut World, inv: &mut HashMap<(u64, Vec<u8>), Pl>, op: &Top) {
    if let Top::Msg { p, .. } = op {
        collect_pl(w, inv, p);
    }
}

/// the SIGNERS_MAX boundary: a wallet with 255 signers accepts one more signer and refuses the next
fn boundary_case() -> MCase {
    let na = 260u64;
    // account ids are assigned consecutively from the first one; the first wallet gets the next id
    let w = setup(1);
    let first = w.accounts[0];
    let ids: Vec<u64> = (0..na).map(|i| first + i).collect();
    let wal = first + na;
    let call = |from: u64, o: MOp| Top::Msg { e: 1, from, to: wal, value: 0, p: Pl::Call(Box::new(o)) };
    let selfp = |o: MOp| MOp::Propose { to: wal, value: 0, p: Pl::Call(Box::new(o)) };
    MCase {
        n_accounts: na,
        ops: vec![
            Top::Create { e: 0, from: ids[0], sg: ids[..257].to_vec(), th: 1, dur: 0, start: 0, value: 0 },
            Top::Create { e: 0, from: ids[0], sg: ids[..255].to_vec(), th: 1, dur: 0, start: 0, value: 100 },
            call(ids[0], selfp(MOp::AddSigner { a: ids[255], inc: false, key: false })),
            call(ids[0], selfp(MOp::AddSigner { a: ids[256], inc: false, key: true })),
            call(ids[0], selfp(MOp::ChangeThreshold { n: 257 })),
            call(ids[0], selfp(MOp::RemoveSigner { a: ids[3], dec: false, key: true })),
            call(ids[0], selfp(MOp::AddSigner { a: ids[256], inc: true, key: false })),
            call(ids[0], MOp::Propose { to: ids[259], value: 10, p: Pl::Send }),
            call(ids[1], MOp::Approve { id: 5, h: Hs::None }),
            call(ids[1], selfp(MOp::ChangeThreshold { n: 256 })),
            call(ids[0], MOp::Approve { id: 6, h: Hs::None }),
            call(ids[2], MOp::Approve { id: 6, h: Hs::None }),
        ],
    }
}

fn main() {
    let a = cf::parse_args();
    let mut stats = Stats::default();
    let header = "From VF Require Import Model.Multisig Base.Corr.\nFrom Coq Require Import ZArith NArith List.\nImport ListNotations.\nOpen Scope Z_scope.\n";
    let mut cw = CaseWriter::new(&a.out, header, "check_case", a.shards);
    if let Some(p) = &a.replay {
        let v: serde_json::Value = serde_json::from_str(&std::fs::read_to_string(p).unwrap()).unwrap();
        // a corpus / monitor-failure file ({"case": ..}) or a replay file written by ./check
        let cj = if !v["case"].is_null() { v["case"].clone() } else { v["violation"]["detail"]["case"].clone() };
        let mc: MCase = serde_json::from_value(cj).expect("no replayable case in this file");
        let (c, _, fails) = run_case(&mc, &mut stats, None);
        cw.push(c);
        for f in fails { stats.monitor_fail(f); }
        cw.finish(&stats, "multisig");
        return;
    }
    // corpus first, then the scripted boundary case
    let corpus = std::path::Path::new(env!("CARGO_MANIFEST_DIR")).join("../corpus/C12");
    if let Ok(rd) = std::fs::read_dir(&corpus) {
        let mut files: Vec<_> = rd.filter_map(|e| e.ok()).map(|e| e.path()).collect();
        files.sort();
        for f in files {
            if f.extension().map(|x| x == "json").unwrap_or(false) {
                let v: serde_json::Value = serde_json::from_str(&std::fs::read_to_string(&f).unwrap()).unwrap();
                let mc: MCase = serde_json::from_value(v["case"].clone()).unwrap();
                let (c, _, fails) = run_case(&mc, &mut stats, None);
                cw.push(c);
                for f in fails { stats.monitor_fail(f); }
            }
        }
    }
    {
        let (c, _, fails) = run_case(&boundary_case(), &mut stats, None);
        cw.push(c);
        for f in fails { stats.monitor_fail(f); }
    }
    let mut root = Prng::new(a.seed);
    for k in 0..a.cases {
        let mut r = root.fork(k as u64);
        // every third history uses the "big wallet" profile (7 accounts, longer)
        let big = k % 3 == 2;
        let mc = MCase { n_accounts: if big { 7 } else { 4 }, ops: vec![] };
        let (c, _, fails) = run_case(&mc, &mut stats, Some((&mut r, if big { a.len + 15 } else { a.len }, big)));
        cw.push(c);
        for f in fails { stats.monitor_fail(f); }
    }
    cw.finish(&stats, "multisig");
}
