//! C04 (deadline level) function-level correspondence + monitor harness: the real
//! `fil_actor_miner::Deadline` (deadline_state.rs: partitions AMT, deadline expiration queue, posted /
//! early-termination bitfields, memoised counts, powers and fees), `assign_deadlines`
//! (deadline_assignment.rs) and `State::allocate_sector_numbers`, on a MemoryBlockstore, driven function by
//! function against coq/Model/Deadline.v.  A `Sectors` AMT plays the miner's sector table (`ds_tbl`), a real
//! miner `State` holds the allocated-sector bitfield (`ds_alloc`).
//! Failed calls are rolled back (deadline copy + table root + allocation cid), as the actor's transaction
//! would do; after every successful deadline-mutating call `Deadline::validate_state` is evaluated as
//! `Deadlines::update_deadline` does (failure = exit code 20 + rollback).
use cid::Cid;
use fil_actor_miner::testing::check_deadline_state_invariants;
use fil_actor_miner::{
    assign_deadlines, power_for_sector, BitFieldQueue, CollisionPolicy, Deadline, ExpirationQueue, ExpirationSet,
    Partition, PartitionSectorMap, PoStPartition, PowerPair, QuantSpec, SectorOnChainInfo, Sectors, State,
    NO_QUANTIZATION, SECTORS_AMT_BITWIDTH,
};
use fil_actors_runtime::runtime::Policy;
use fil_actors_runtime::test_blockstores::MemoryBlockstore;
use fil_actors_runtime::test_utils::make_sealed_cid;
use fil_actors_runtime::{ActorDowncast, ActorError, Array, MessageAccumulator};
use fvm_ipld_bitfield::BitField;
use fvm_ipld_encoding::CborStore;
use fvm_shared::bigint::BigInt;
use fvm_shared::econ::TokenAmount;
use fvm_shared::error::ExitCode;
use fvm_shared::sector::SectorSize;
use multihash_codetable::Code;
use num_traits::Zero;
use serde::{Deserialize, Serialize};
use serde_json::json;
use std::collections::{BTreeMap, BTreeSet};
use std::panic::{catch_unwind, AssertUnwindSafe};
use std::sync::atomic::{AtomicU64, Ordering};
use vharness::coqfmt::{self as cf, Case, CaseWriter, Stats};
use vharness::prng::Prng;

// ---------- replayable case description ----------
#[derive(Clone, Debug, Serialize, Deserialize)]
struct Sec {
    num: u64,
    exp: i64,
    /// power_base_epoch (< exp)
    pbe: i64,
    dw: u64,
    vdw: u64,
    pledge: u64,
    fee: u64,
}

/// (partition index, sector numbers); entries with the same index are merged by PartitionSectorMap
type Psm = Vec<(u64, Vec<u64>)>;

#[derive(Clone, Debug, Serialize, Deserialize)]
enum Op {
    AddSectors { proven: bool, secs: Vec<Sec> },
    /// posts in the given order (NOT sorted, may repeat an index)
    RecordProven { fault_exp: i64, posts: Psm },
    ProcessDeadlineEnd { fault_exp: i64 },
    PopExpired { until: i64 },
    Terminate { epoch: i64, psm: Psm },
    RecordFaults { fault_exp: i64, psm: Psm },
    DeclareRecovered { psm: Psm },
    Compact { idxs: Vec<u64> },
    PopEarly { max_partitions: u64, max_sectors: u64 },
    Allocate { nums: Vec<u64>, allow: bool },
    /// dls: (deadline index, live, total), ascending distinct indexes
    Assign { max_partitions: u64, psize: u64, dls: Vec<(u64, u64, u64)>, n: u64 },
}

#[derive(Clone, Debug, Serialize, Deserialize)]
struct DCase {
    unit: i64,
    offset: i64,
    /// index into SIZES
    size: u8,
    /// partition size (sectors per partition)
    psize: u64,
    ops: Vec<Op>,
}

const SIZES: [SectorSize; 5] =
    [SectorSize::_2KiB, SectorSize::_8MiB, SectorSize::_512MiB, SectorSize::_32GiB, SectorSize::_64GiB];
const PSIZES: [u64; 4] = [2, 3, 4, 6];

fn kind(op: &Op) -> &'static str {
    match op {
        Op::AddSectors { .. } => "d_add",
        Op::RecordProven { .. } => "d_record_proven",
        Op::ProcessDeadlineEnd { .. } => "d_process_end",
        Op::PopExpired { .. } => "d_pop_expired",
        Op::Terminate { .. } => "d_terminate",
        Op::RecordFaults { .. } => "d_record_faults",
        Op::DeclareRecovered { .. } => "d_declare_recovered",
        Op::Compact { .. } => "d_compact",
        Op::PopEarly { .. } => "d_pop_early",
        Op::Allocate { .. } => "allocate",
        Op::Assign { .. } => "assign",
    }
}
/// does the op (when it succeeds) go through Deadlines::update_deadline in the actor?
fn mutates_deadline(op: &Op) -> bool {
    !matches!(op, Op::Allocate { .. } | Op::Assign { .. })
}

// ---------- the driven world ----------
struct World<'a> {
    store: &'a MemoryBlockstore,
    dl: Deadline,
    /// root of the Sectors AMT (the miner's sector table)
    root: Cid,
    /// a real miner State; only `allocated_sectors` is used
    st: State,
    quant: QuantSpec,
    size: SectorSize,
    psize: u64,
}

fn clone_dl(d: &Deadline) -> Deadline {
    Deadline {
        partitions: d.partitions,
        expirations_epochs: d.expirations_epochs,
        partitions_posted: d.partitions_posted.clone(),
        early_terminations: d.early_terminations.clone(),
        live_sectors: d.live_sectors,
        total_sectors: d.total_sectors,
        faulty_power: d.faulty_power.clone(),
        optimistic_post_submissions: d.optimistic_post_submissions,
        sectors_snapshot: d.sectors_snapshot,
        partitions_snapshot: d.partitions_snapshot,
        optimistic_post_submissions_snapshot: d.optimistic_post_submissions_snapshot,
        live_power: d.live_power.clone(),
        daily_fee: d.daily_fee.clone(),
    }
}

fn mk_info(s: &Sec) -> SectorOnChainInfo {
    SectorOnChainInfo {
        sector_number: s.num,
        expiration: s.exp,
        power_base_epoch: s.pbe,
        activation: s.pbe,
        deal_weight: BigInt::from(s.dw),
        verified_deal_weight: BigInt::from(s.vdw),
        initial_pledge: TokenAmount::from_atto(s.pledge),
        daily_fee: TokenAmount::from_atto(s.fee),
        sealed_cid: make_sealed_cid(format!("commr-{}", s.num).as_bytes()),
        ..Default::default()
    }
}

fn bf(nums: &[u64]) -> BitField {
    BitField::try_from_bits(nums.iter().copied()).unwrap()
}

/// how often the caller-side mapping (`downcast_default(USR_ILLEGAL_STATE, ..)`, what lib.rs applies to every
/// error of these functions) differs from a plain `downcast_ref::<ActorError>()`
static MAPPING_DIFFERS: AtomicU64 = AtomicU64::new(0);

/// The exit code the actor's callers derive from an error of deadline_state.rs: they all use
/// `e.downcast_default(ExitCode::USR_ILLEGAL_STATE, ..)` (ActorError -> its code, also when wrapped in an
/// AMT/HAMT dynamic error; encoding error -> 21; anything else -> 20).
fn code_of(e: anyhow::Error) -> u32 {
    let plain = match e.downcast_ref::<ActorError>() {
        Some(ae) => ae.exit_code().value(),
        None => 20,
    };
    let ae = e.downcast_default(ExitCode::USR_ILLEGAL_STATE, "");
    let real = ae.exit_code().value();
    if real != plain {
        MAPPING_DIFFERS.fetch_add(1, Ordering::Relaxed);
    }
    LAST_ERR.with(|l| *l.borrow_mut() = ae.msg().to_string());
    real
}
thread_local! {
    /// message of the last error (for the error samples in stats.extra)
    static LAST_ERR: std::cell::RefCell<String> = const { std::cell::RefCell::new(String::new()) };
}

fn load_table<'a>(w: &World<'a>) -> Sectors<'a, MemoryBlockstore> {
    Sectors::load(w.store, &w.root).unwrap()
}

fn store_table(w: &mut World, infos: Vec<SectorOnChainInfo>) -> Result<(), u32> {
    let mut t = load_table(w);
    t.store(infos).map_err(code_of)?;
    w.root = t.amt.flush().unwrap();
    Ok(())
}

fn mk_psm(entries: &Psm) -> PartitionSectorMap {
    let mut psm = PartitionSectorMap::default();
    for (i, nums) in entries {
        psm.add_values(*i, nums.clone()).unwrap();
    }
    psm
}

// ---------- abstract view of the real structures (encoding + generator + monitor) ----------
struct PView {
    part: Partition,
    sectors: BTreeSet<u64>,
    unproven: BTreeSet<u64>,
    faults: BTreeSet<u64>,
    recoveries: BTreeSet<u64>,
    terminated: BTreeSet<u64>,
    queue: Vec<(i64, ExpirationSet)>,
    early: BTreeMap<i64, BitField>,
}
impl PView {
    fn live(&self) -> BTreeSet<u64> {
        &self.sectors - &self.terminated
    }
}
struct DView {
    /// (AMT key, partition) in iteration order
    parts: Vec<(u64, PView)>,
    table: BTreeMap<u64, SectorOnChainInfo>,
    dlq: BTreeMap<i64, BitField>,
    posted: BTreeSet<u64>,
    early_terms: BTreeSet<u64>,
    allocated: BitField,
}
fn bset(b: &BitField) -> BTreeSet<u64> {
    b.iter().collect()
}
fn read_queue(store: &MemoryBlockstore, root: &Cid, quant: QuantSpec) -> Vec<(i64, ExpirationSet)> {
    let q = ExpirationQueue::new(store, root, quant).unwrap();
    let mut v = vec![];
    q.amt
        .for_each(|k, es| {
            v.push((k as i64, es.clone()));
            Ok(())
        })
        .unwrap();
    v
}
fn read_bfq(store: &MemoryBlockstore, root: &Cid, quant: QuantSpec) -> BTreeMap<i64, BitField> {
    let q = BitFieldQueue::new(store, root, quant).unwrap();
    let mut m = BTreeMap::new();
    q.amt
        .for_each(|k, b| {
            m.insert(k as i64, b.clone());
            Ok(())
        })
        .unwrap();
    m
}
fn read_allocated(w: &World) -> BitField {
    w.store.get_cbor::<BitField>(&w.st.allocated_sectors).unwrap().unwrap()
}
fn view(w: &World) -> DView {
    let mut table = BTreeMap::new();
    load_table(w)
        .amt
        .for_each(|k, i| {
            table.insert(k, i.clone());
            Ok(())
        })
        .unwrap();
    let mut parts = vec![];
    w.dl.partitions_amt(w.store)
        .unwrap()
        .for_each(|i, p| {
            parts.push((
                i,
                PView {
                    part: p.clone(),
                    sectors: bset(&p.sectors),
                    unproven: bset(&p.unproven),
                    faults: bset(&p.faults),
                    recoveries: bset(&p.recoveries),
                    terminated: bset(&p.terminated),
                    queue: read_queue(w.store, &p.expirations_epochs, w.quant),
                    early: read_bfq(w.store, &p.early_terminated, NO_QUANTIZATION),
                },
            ));
            Ok(())
        })
        .unwrap();
    DView {
        parts,
        table,
        dlq: read_bfq(w.store, &w.dl.expirations_epochs, w.quant),
        posted: bset(&w.dl.partitions_posted),
        early_terms: bset(&w.dl.early_terminations),
        allocated: read_allocated(w),
    }
}
impl DView {
    fn np(&self) -> u64 {
        self.parts.len() as u64
    }
    fn all_sectors(&self) -> BTreeSet<u64> {
        self.parts.iter().flat_map(|(_, p)| p.sectors.iter().copied()).collect()
    }
    fn part(&self, i: u64) -> Option<&PView> {
        self.parts.iter().find(|(k, _)| *k == i).map(|(_, p)| p)
    }
}

// ---------- observation encoding (same order as the model's enc_*) ----------
fn enc_set(b: &BitField) -> Vec<String> {
    let mut v = vec![cf::z(b.len())];
    v.extend(b.iter().map(cf::z));
    v
}
fn enc_pp(p: &PowerPair) -> Vec<String> {
    vec![cf::z(&p.raw), cf::z(&p.qa)]
}
fn enc_es(es: &ExpirationSet) -> Vec<String> {
    let mut v = enc_set(&es.on_time_sectors);
    v.extend(enc_set(&es.early_sectors));
    v.push(cf::z(es.on_time_pledge.atto()));
    v.extend(enc_pp(&es.active_power));
    v.extend(enc_pp(&es.faulty_power));
    v.push(cf::z(es.fee_deduction.atto()));
    v
}
fn enc_bfmap(m: &BTreeMap<i64, BitField>) -> Vec<String> {
    let mut v = vec![cf::z(m.len())];
    for (k, b) in m {
        v.push(cf::z(k));
        v.extend(enc_set(b));
    }
    v
}
fn enc_part(pv: &PView) -> Vec<String> {
    let p = &pv.part;
    let mut v = enc_set(&p.sectors);
    v.extend(enc_set(&p.unproven));
    v.extend(enc_set(&p.faults));
    v.extend(enc_set(&p.recoveries));
    v.extend(enc_set(&p.terminated));
    v.extend(enc_pp(&p.live_power));
    v.extend(enc_pp(&p.unproven_power));
    v.extend(enc_pp(&p.faulty_power));
    v.extend(enc_pp(&p.recovering_power));
    v.push(cf::z(pv.queue.len()));
    for (k, es) in &pv.queue {
        v.push(cf::z(k));
        v.extend(enc_es(es));
    }
    v.extend(enc_bfmap(&pv.early));
    v
}
fn enc_dl(w: &World, v: &DView) -> Vec<String> {
    let d = &w.dl;
    let mut o = vec![cf::z(v.parts.len())];
    o.extend(enc_bfmap(&v.dlq));
    o.extend(enc_set(&d.partitions_posted));
    o.extend(enc_set(&d.early_terminations));
    o.push(cf::z(d.live_sectors));
    o.push(cf::z(d.total_sectors));
    o.extend(enc_pp(&d.faulty_power));
    o.extend(enc_pp(&d.live_power));
    o.push(cf::z(d.daily_fee.atto()));
    for (_, pv) in &v.parts {
        o.extend(enc_part(pv));
    }
    o
}

// ---------- executing one op on the real code ----------
fn exec_op(w: &mut World, op: &Op) -> Result<Vec<String>, u32> {
    let (store, size, quant) = (w.store, w.size, w.quant);
    match op {
        Op::AddSectors { proven, secs } => {
            let infos: Vec<SectorOnChainInfo> = secs.iter().map(mk_info).collect();
            store_table(w, infos.clone())?;
            let (pw, fee) =
                w.dl.add_sectors(store, w.psize, *proven, true, &infos, size, quant).map_err(code_of)?;
            let mut r = enc_pp(&pw);
            r.push(cf::z(fee.atto()));
            Ok(r)
        }
        Op::RecordProven { fault_exp, posts } => {
            let t = load_table(w);
            let mut pp: Vec<PoStPartition> =
                posts.iter().map(|(i, sk)| PoStPartition { index: *i, skipped: bf(sk) }).collect();
            let res = w.dl.record_proven_sectors(store, &t, size, quant, *fault_exp, &mut pp).map_err(code_of)?;
            let mut r = enc_pp(&res.power_delta);
            r.extend(enc_pp(&res.new_faulty_power));
            r.extend(enc_pp(&res.retracted_recovery_power));
            r.extend(enc_pp(&res.recovered_power));
            r.extend(enc_set(&res.sectors));
            r.extend(enc_set(&res.ignored_sectors));
            r.extend(enc_set(&res.partitions));
            Ok(r)
        }
        Op::ProcessDeadlineEnd { fault_exp } => {
            let (delta, pen) = w
                .dl
                .process_deadline_end(store, quant, *fault_exp, w.root)
                .map_err(|e| code_of(anyhow::Error::from(e)))?;
            let mut r = enc_pp(&delta);
            r.extend(enc_pp(&pen));
            Ok(r)
        }
        Op::PopExpired { until } => {
            let es = w.dl.pop_expired_sectors(store, *until, quant).map_err(code_of)?;
            Ok(enc_es(&es))
        }
        Op::Terminate { epoch, psm } => {
            let t = load_table(w);
            let mut m = mk_psm(psm);
            let lost = w
                .dl
                .terminate_sectors(&Policy::default(), store, &t, *epoch, &mut m, size, quant)
                .map_err(code_of)?;
            Ok(enc_pp(&lost))
        }
        Op::RecordFaults { fault_exp, psm } => {
            let t = load_table(w);
            let mut m = mk_psm(psm);
            let delta = w.dl.record_faults(store, &t, size, quant, *fault_exp, &mut m).map_err(code_of)?;
            Ok(enc_pp(&delta))
        }
        Op::DeclareRecovered { psm } => {
            let t = load_table(w);
            let mut m = mk_psm(psm);
            w.dl.declare_faults_recovered(store, &t, size, &mut m).map_err(code_of)?;
            Ok(vec![])
        }
        Op::Compact { idxs } => {
            let mut t = load_table(w);
            let dead = w.dl.compact_partitions(store, &mut t, size, w.psize, &bf(idxs), quant).map_err(code_of)?;
            // lib.rs: the dead sectors of the removed partitions leave the sector table
            t.delete_sectors(&dead).map_err(|e| e.exit_code().value())?;
            w.root = t.amt.flush().unwrap();
            Ok(enc_set(&dead))
        }
        Op::PopEarly { max_partitions, max_sectors } => {
            let (res, more) = w.dl.pop_early_terminations(store, *max_partitions, *max_sectors).map_err(code_of)?;
            let mut r = enc_bfmap(&res.sectors);
            r.push(cf::z(res.partitions_processed));
            r.push(cf::z(res.sectors_processed));
            r.push(cf::z(more as u8));
            Ok(r)
        }
        Op::Allocate { nums, allow } => {
            let pol = if *allow { CollisionPolicy::AllowCollisions } else { CollisionPolicy::DenyCollisions };
            w.st.allocate_sector_numbers(store, &bf(nums), pol).map_err(|e| e.exit_code().value())?;
            Ok(vec![])
        }
        Op::Assign { max_partitions, psize, dls, n } => {
            let policy = Policy::default();
            let mut v: Vec<Option<Deadline>> = (0..policy.wpost_period_deadlines).map(|_| None).collect();
            for (i, live, total) in dls {
                v[*i as usize] = Some(Deadline {
                    live_sectors: *live,
                    total_sectors: *total,
                    ..Deadline::new(store).unwrap()
                });
            }
            let sectors: Vec<SectorOnChainInfo> =
                (0..*n).map(|k| SectorOnChainInfo { sector_number: k, ..Default::default() }).collect();
            let res = assign_deadlines(&policy, *max_partitions, *psize, &v, sectors).map_err(code_of)?;
            let mut where_: BTreeMap<u64, usize> = BTreeMap::new();
            for (dl_idx, secs) in res.iter().enumerate() {
                for s in secs {
                    where_.insert(s.sector_number, dl_idx);
                }
            }
            // every sector exactly once
            assert_eq!(where_.len() as u64, *n, "assign_deadlines lost or duplicated a sector");
            assert_eq!(res.iter().map(|x| x.len() as u64).sum::<u64>(), *n, "assign_deadlines duplicated a sector");
            Ok((0..*n).map(|k| cf::z(where_[&k])).collect())
        }
    }
}

fn run_op(w: &mut World, op: &Op, stats: &mut Stats) -> (u32, Vec<String>) {
    let saved_dl = clone_dl(&w.dl);
    let saved_root = w.root;
    let saved_alloc = w.st.allocated_sectors;
    let res = catch_unwind(AssertUnwindSafe(|| {
        let rets = exec_op(w, op)?;
        if mutates_deadline(op) {
            // Deadlines::update_deadline
            if w.dl.validate_state().is_err() {
                return Err(20u32 | VALIDATE_FLAG);
            }
        }
        Ok(rets)
    }));
    let restore = |w: &mut World| {
        w.dl = clone_dl(&saved_dl);
        w.root = saved_root;
        w.st.allocated_sectors = saved_alloc;
    };
    match res {
        Ok(Ok(rets)) => (0, rets),
        Ok(Err(c)) => {
            restore(w);
            if c & VALIDATE_FLAG != 0 {
                bump(stats, &format!("validate_state_rejected_{}", kind(op)));
            } else {
                // keep the first message seen per (kind, code, message shape) as documentation of the error paths
                let msg = LAST_ERR.with(|l| std::mem::take(&mut *l.borrow_mut()));
                let shape: String = msg.chars().filter(|ch| !ch.is_ascii_digit()).take(140).collect();
                let t = if CASE_TAINTED.load(Ordering::Relaxed) { "err_after_misuse" } else { "err" };
                let key = format!("{}_{}_{}: {}", t, kind(op), c, shape.trim_start_matches(": "));
                if stats.extra.len() < 400 {
                    bump(stats, &key);
                }
            }
            (c & !VALIDATE_FLAG, vec![])
        }
        Err(p) => {
            restore(w);
            let msg = p
                .downcast_ref::<String>()
                .cloned()
                .or_else(|| p.downcast_ref::<&str>().map(|s| s.to_string()))
                .unwrap_or_else(|| "panic".to_string());
            if stats.panics.len() < 20 {
                stats.panics.push(format!("{}: {}", kind(op), msg));
            }
            bump(stats, &format!("panics_{}", kind(op)));
            (24, vec![])
        }
    }
}
const VALIDATE_FLAG: u32 = 1 << 30;

// ---------- Gallina printing ----------
fn nlist(xs: &[u64]) -> String {
    if xs.is_empty() { "[]".to_string() } else { format!("{}%N", cf::zlist(xs.iter())) }
}
fn coq_sector(size: SectorSize, s: &Sec) -> String {
    let pw = power_for_sector(size, &mk_info(s));
    format!(
        "{{| s_num := {}%N; s_exp := {}; s_raw := {}; s_qa := {}; s_pledge := {}; s_fee := {} |}}",
        s.num,
        cf::z(s.exp),
        cf::z(&pw.raw),
        cf::z(&pw.qa),
        cf::z(s.pledge),
        cf::z(s.fee)
    )
}
fn coq_sectors(size: SectorSize, v: &[Sec]) -> String {
    cf::list(v.iter().map(|s| coq_sector(size, s)))
}
fn coq_pairs<I: IntoIterator<Item = (u64, Vec<u64>)>>(it: I) -> String {
    cf::list(it.into_iter().map(|(i, nums)| format!("({}%N, {})", i, nlist(&nums))))
}
/// what the code iterates: ascending partition index, duplicates merged
fn coq_psm(entries: &Psm) -> String {
    let mut m = mk_psm(entries);
    let v: Vec<(u64, Vec<u64>)> = m.iter().map(|(i, b)| (i, b.iter().collect())).collect();
    coq_pairs(v)
}
fn coq_op(size: SectorSize, op: &Op) -> String {
    match op {
        Op::AddSectors { proven, secs } => format!("DAddSectors {} {}", cf::b(*proven), coq_sectors(size, secs)),
        Op::RecordProven { fault_exp, posts } => {
            format!("DRecordProven {} {}", cf::z(fault_exp), coq_pairs(posts.iter().cloned()))
        }
        Op::ProcessDeadlineEnd { fault_exp } => format!("DProcessDeadlineEnd {}", cf::z(fault_exp)),
        Op::PopExpired { until } => format!("DPopExpired {}", cf::z(until)),
        Op::Terminate { epoch, psm } => format!("DTerminate {} {}", cf::z(epoch), coq_psm(psm)),
        Op::RecordFaults { fault_exp, psm } => format!("DRecordFaults {} {}", cf::z(fault_exp), coq_psm(psm)),
        Op::DeclareRecovered { psm } => format!("DDeclareRecovered {}", coq_psm(psm)),
        Op::Compact { idxs } => format!("DCompact {}", nlist(idxs)),
        Op::PopEarly { max_partitions, max_sectors } => format!("DPopEarly {} {}", max_partitions, max_sectors),
        Op::Allocate { nums, allow } => format!("DAllocate {} {}", nlist(nums), cf::b(*allow)),
        Op::Assign { max_partitions, psize, dls, n } => format!(
            "DAssign {} {} {} {}",
            max_partitions,
            psize,
            cf::list(dls.iter().map(|(i, l, t)| format!("({}, {}, {})", i, l, t))),
            n
        ),
    }
}

// ---------- generator ----------
const UNIVERSE: u64 = 24;

fn subset(r: &mut Prng, pool: &BTreeSet<u64>, maxn: u64) -> Vec<u64> {
    let mut p: Vec<u64> = pool.iter().copied().collect();
    if p.is_empty() {
        return vec![];
    }
    let n = 1 + r.below(maxn.min(p.len() as u64));
    let mut out = vec![];
    for _ in 0..n {
        let i = r.below(p.len() as u64) as usize;
        out.push(p.swap_remove(i));
    }
    out
}
fn take_random(r: &mut Prng, v: &mut Vec<u64>) -> Option<u64> {
    if v.is_empty() { None } else { Some(v.swap_remove(r.below(v.len() as u64) as usize)) }
}
/// a sector number that is not in partition `i` (maybe in another one, maybe nowhere)
fn unknown_for(r: &mut Prng, v: &DView, i: u64) -> u64 {
    if r.chance(50) {
        return UNIVERSE + 1 + r.below(3);
    }
    let own = v.part(i).map(|p| p.sectors.clone()).unwrap_or_default();
    let outside: Vec<u64> = (1..=UNIVERSE).filter(|n| !own.contains(n)).collect();
    if outside.is_empty() { UNIVERSE + 1 + r.below(3) } else { *r.pick(&outside) }
}
fn fresh_nums(v: &DView) -> Vec<u64> {
    let all = v.all_sectors();
    (1..=UNIVERSE).filter(|n| !all.contains(n)).collect()
}
fn gen_exp(r: &mut Prng, cur: i64) -> i64 {
    match r.below(100) {
        0..=54 => r.range(5, 120),
        55..=89 => cur.max(0) + r.range(1, 40),
        _ => *r.pick(&[10i64, 20, 30, 60, 61, 119, 120]),
    }
}
fn gen_sector(r: &mut Prng, num: u64, exp: i64, size: SectorSize) -> Sec {
    let exp = exp.max(1);
    let pbe = if r.chance(60) { 0 } else { r.range(0, (exp - 1).min(4)) };
    let duration = (exp - pbe) as u64;
    let maxw = (size as u64) * duration;
    let vdw = match r.below(100) {
        0..=29 => 0,
        30..=39 => maxw,
        _ => r.below(maxw + 1),
    };
    let dw = if r.chance(50) { 0 } else { r.below(maxw - vdw + 1) };
    let pledge = if r.chance(20) { 0 } else { r.below(5000) };
    let fee = if r.chance(30) { 0 } else { r.below(300) };
    Sec { num, exp, pbe, dw, vdw, pledge, fee }
}
fn all_queue_keys(v: &DView) -> Vec<i64> {
    let mut ks: BTreeSet<i64> = v.dlq.keys().copied().collect();
    for (_, p) in &v.parts {
        ks.extend(p.queue.iter().map(|(k, _)| *k));
    }
    ks.into_iter().collect()
}
/// what the generator knows besides the view of the real structures
struct GenCtx {
    /// largest fault-expiration epoch of an accepted op so far
    max_fe: Option<i64>,
    /// fault_max_age of this case: a fault declared at epoch e expires at e + age
    age: i64,
}
/// In the actor the fault expiration is `deadline.last() + fault_max_age`, so it never decreases from one
/// call to the next; process_deadline_end relies on that (see `decreasing_fault_expiration`).  `strict` = the op
/// is a process_deadline_end: mostly monotone, rarely arbitrary.
fn gen_fault_exp(r: &mut Prng, v: &DView, cur: i64, g: &GenCtx, strict: bool) -> i64 {
    let floor = g.max_fe.unwrap_or(i64::MIN);
    let ks = all_queue_keys(v);
    let roll = r.below(100);
    if roll < if strict { 93 } else { 80 } {
        return (cur + g.age + if r.chance(30) { r.range(0, 12) } else { 0 }).max(floor);
    }
    match r.below(100) {
        // a jump ahead
        0..=29 => (if r.chance(50) { 200 + r.range(0, 50) } else { cur + g.age + r.range(10, 60) }).max(floor),
        // negative: the quantised epoch is no AMT key (rejected whenever something has to be scheduled)
        30..=54 => -1 - r.range(0, 80),
        // arbitrary, possibly smaller than before
        55..=69 => cur - r.range(0, 10),
        70..=84 if !ks.is_empty() => *r.pick(&ks) + r.range(-1, 1),
        70..=89 => cur + r.range(1, 30),
        _ => r.range(0, 130),
    }
}
fn sprinkle(r: &mut Prng, out: &mut Vec<u64>, pool: &BTreeSet<u64>, pct: u64, maxn: u64) {
    if r.chance(pct) {
        out.extend(subset(r, pool, maxn));
    }
}

fn gen_skipped(r: &mut Prng, v: &DView, i: u64) -> Vec<u64> {
    let Some(p) = v.part(i) else { return if r.chance(30) { vec![1 + r.below(UNIVERSE)] } else { vec![] } };
    let mut nums = vec![];
    if r.chance(30) {
        nums = subset(r, &(&p.live() - &p.faults), 2);
    }
    sprinkle(r, &mut nums, &p.recoveries, 25, 2);
    sprinkle(r, &mut nums, &p.faults, 8, 1);
    sprinkle(r, &mut nums, &p.terminated, 5, 1);
    if r.chance(4) {
        nums.push(unknown_for(r, v, i));
    }
    nums
}

/// posts for record_proven_sectors; `focus` = partitions worth proving now (unproven sectors, recoveries)
fn gen_posts(r: &mut Prng, v: &DView, focus: &[u64]) -> Psm {
    let np = v.np();
    let mut pool: Vec<u64> = (0..np).filter(|i| !v.posted.contains(i)).collect();
    let mut foc: Vec<u64> = focus.iter().copied().filter(|i| pool.contains(i)).collect();
    let k = 1 + r.below(3);
    let mut idxs = vec![];
    while (idxs.len() as u64) < k {
        let pick = if !foc.is_empty() && r.chance(75) { take_random(r, &mut foc) } else { take_random(r, &mut pool) };
        match pick {
            Some(i) => {
                foc.retain(|x| *x != i);
                pool.retain(|x| *x != i);
                idxs.push(i);
            }
            None if foc.is_empty() && pool.is_empty() => break,
            None => {}
        }
    }
    let mut posts: Psm = idxs.iter().map(|i| (*i, gen_skipped(r, v, *i))).collect();
    match r.below(100) {
        0..=4 if !v.posted.is_empty() => {
            // an already proven partition
            let i = *r.pick(&v.posted.iter().copied().collect::<Vec<_>>());
            let at = r.below(posts.len() as u64 + 1) as usize;
            posts.insert(at, (i, gen_skipped(r, v, i)));
        }
        5..=8 if !posts.is_empty() => {
            // the same partition twice
            let i = r.pick(&posts).0;
            posts.push((i, gen_skipped(r, v, i)));
        }
        9..=13 => {
            // no such partition
            let i = np + r.below(2);
            let at = r.below(posts.len() as u64 + 1) as usize;
            posts.insert(at, (i, gen_skipped(r, v, i)));
        }
        _ => {}
    }
    posts
}

#[derive(Clone, Copy, PartialEq)]
enum PK {
    Term,
    Fault,
    Recover,
}
fn pool_of(p: &PView, k: PK) -> BTreeSet<u64> {
    match k {
        PK::Term => p.live(),
        PK::Fault => &p.live() - &p.faults,
        PK::Recover => p.faults.clone(),
    }
}
fn gen_nums(r: &mut Prng, v: &DView, i: u64, k: PK) -> Vec<u64> {
    let Some(p) = v.part(i) else { return if r.chance(60) { vec![1 + r.below(UNIVERSE)] } else { vec![] } };
    let live = p.live();
    let mut nums = subset(r, &pool_of(p, k), 3);
    match k {
        PK::Term => {
            sprinkle(r, &mut nums, &p.terminated, 6, 2);
        }
        PK::Fault => {
            if r.chance(25) {
                nums = subset(r, &live, 4);
            }
            sprinkle(r, &mut nums, &p.faults, 12, 2);
            sprinkle(r, &mut nums, &p.recoveries, 20, 2);
            sprinkle(r, &mut nums, &p.terminated, 8, 2);
        }
        PK::Recover => {
            sprinkle(r, &mut nums, &(&live - &p.faults), 12, 2);
            sprinkle(r, &mut nums, &p.terminated, 5, 2);
        }
    }
    if r.chance(4) {
        nums.push(unknown_for(r, v, i));
    }
    if r.chance(3) {
        nums.clear();
    }
    nums
}
fn gen_psm(r: &mut Prng, v: &DView, k: PK) -> Psm {
    let np = v.np();
    let mut cands: Vec<u64> = (0..np).filter(|i| !pool_of(v.part(*i).unwrap(), k).is_empty()).collect();
    if cands.is_empty() || r.chance(8) {
        cands = (0..np).collect();
    }
    let want = 1 + r.chance(35) as u64 + r.chance(10) as u64;
    let mut entries: Psm = vec![];
    while (entries.len() as u64) < want {
        match take_random(r, &mut cands) {
            Some(i) => entries.push((i, gen_nums(r, v, i, k))),
            None => break,
        }
    }
    if r.chance(8) && !entries.is_empty() {
        // a second entry for the same partition: PartitionSectorMap merges them
        let i = r.pick(&entries).0;
        let more = match v.part(i) {
            Some(p) => subset(r, &pool_of(p, k), 2),
            None => vec![],
        };
        entries.push((i, more));
    }
    if r.chance(6) || (np == 0 && r.chance(50)) {
        // no such partition
        let i = np + r.below(2);
        entries.push((i, gen_nums(r, v, i, k)));
    }
    if r.chance(2) {
        entries.clear();
    }
    entries
}

fn gen_add(r: &mut Prng, v: &DView, cur: i64, size: SectorSize, psize: u64) -> Op {
    let mut fresh = fresh_nums(v);
    let n = 1 + r.below(5);
    let mut secs: Vec<Sec> = vec![];
    // several sectors of a batch often share an expiration
    let shared = gen_exp(r, cur);
    for _ in 0..n {
        let Some(num) = take_random(r, &mut fresh) else { break };
        let exp = if r.chance(40) { shared } else { gen_exp(r, cur) };
        secs.push(gen_sector(r, num, exp, size));
    }
    if r.chance(8) || secs.is_empty() {
        // a number that is already in the deadline.  When it sits in the (non-full) last partition and comes
        // first in the batch the partition rejects it; anywhere else it would be accepted (caller misuse: the
        // sector would then be in two partitions), so that variant is kept very rare.
        if let Some((_, last)) = v.parts.last() {
            if (last.sectors.len() as u64) < psize && !last.sectors.is_empty() {
                let num = *r.pick(&last.sectors.iter().copied().collect::<Vec<_>>());
                let exp = gen_exp(r, cur);
                secs.insert(0, gen_sector(r, num, exp, size));
            } else if r.chance(5) {
                let all: Vec<u64> = v.all_sectors().into_iter().collect();
                if !all.is_empty() {
                    let num = *r.pick(&all);
                    let exp = gen_exp(r, cur);
                    secs.push(gen_sector(r, num, exp, size));
                }
            }
        }
    }
    if r.below(1000) < 8 && !secs.is_empty() {
        // caller misuse: a sector number twice in one batch
        let num = r.pick(&secs).num;
        let exp = gen_exp(r, cur);
        secs.push(gen_sector(r, num, exp, size));
    }
    if r.chance(2) {
        secs.clear();
    }
    if r.chance(1) {
        // a negative (possibly negatively quantised) expiration: AMT keys are u64
        if let Some(s) = secs.last_mut() {
            s.exp = -r.range(1, 80);
            s.pbe = s.exp - 3;
        }
    }
    Op::AddSectors { proven: r.chance(45), secs }
}

fn gen_compact(r: &mut Prng, v: &DView) -> Op {
    let np = v.np();
    let clean: BTreeSet<u64> = (0..np)
        .filter(|i| {
            let p = v.part(*i).unwrap();
            p.faults.is_empty() && p.unproven.is_empty()
        })
        .collect();
    // partitions with dead sectors are the interesting ones
    let with_dead: BTreeSet<u64> =
        clean.iter().copied().filter(|i| !v.part(*i).unwrap().terminated.is_empty()).collect();
    let all: BTreeSet<u64> = (0..np).collect();
    let mut idxs = match r.below(100) {
        0..=34 if !with_dead.is_empty() => {
            let mut x = subset(r, &with_dead, 2);
            sprinkle(r, &mut x, &clean, 40, 2);
            x
        }
        0..=64 if !clean.is_empty() => subset(r, &clean, 3),
        0..=84 => subset(r, &all, 3),
        85..=91 => {
            let mut x = subset(r, &all, 2);
            x.push(np + r.below(3));
            x
        }
        92..=95 => vec![],
        _ => (0..np + 1 + r.below(2)).collect(),
    };
    idxs.sort();
    idxs.dedup();
    Op::Compact { idxs }
}

fn gen_op(r: &mut Prng, v: &DView, cur: &mut i64, size: SectorSize, psize: u64, g: &GenCtx) -> Op {
    *cur += *r.pick(&[0i64, 0, 1, 1, 2, 3, 5, 10]);
    let cur = *cur;
    let np = v.np();
    let unposted: Vec<u64> = (0..np).filter(|i| !v.posted.contains(i)).collect();
    let needs_post: Vec<u64> = unposted
        .iter()
        .copied()
        .filter(|i| {
            let p = v.part(*i).unwrap();
            !p.unproven.is_empty() || !p.recoveries.is_empty()
        })
        .collect();
    // a challenge window is open (some partition has been proven): in the actor only further PoSts arrive
    // until the deadline ends
    if !v.posted.is_empty() && r.chance(45) {
        if !unposted.is_empty() && r.chance(50) {
            return Op::RecordProven { fault_exp: gen_fault_exp(r, v, cur, g, false), posts: gen_posts(r, v, &needs_post) };
        }
        return Op::ProcessDeadlineEnd { fault_exp: gen_fault_exp(r, v, cur, g, true) };
    }
    if !needs_post.is_empty() && r.chance(25) {
        return Op::RecordProven { fault_exp: gen_fault_exp(r, v, cur, g, false), posts: gen_posts(r, v, &needs_post) };
    }
    let live_total: usize = v.parts.iter().map(|(_, p)| p.live().len()).sum();
    let roll = if live_total == 0 && !fresh_nums(v).is_empty() && r.chance(60) { 0 } else { r.below(100) };
    match roll {
        0..=17 => gen_add(r, v, cur, size, psize),
        18..=25 => Op::RecordProven { fault_exp: gen_fault_exp(r, v, cur, g, false), posts: gen_posts(r, v, &needs_post) },
        26..=29 => Op::ProcessDeadlineEnd { fault_exp: gen_fault_exp(r, v, cur, g, true) },
        30..=39 => {
            // popping fails while a partition that is due has unproven sectors or pending recoveries
            if !needs_post.is_empty() && r.chance(50) {
                return Op::RecordProven { fault_exp: gen_fault_exp(r, v, cur, g, false), posts: gen_posts(r, v, &needs_post) };
            }
            let ks = all_queue_keys(v);
            let until = match r.below(100) {
                0..=29 => cur,
                30..=64 if !ks.is_empty() => *r.pick(&ks) + r.range(-1, 1),
                30..=79 => cur + r.range(0, 60),
                80..=89 => 1i64 << 40,
                _ => -r.range(0, 3),
            };
            Op::PopExpired { until }
        }
        40..=50 => {
            let epoch = match r.below(100) {
                0..=89 => cur,
                90..=94 => -1 - r.range(0, 5),
                _ => r.range(0, 200),
            };
            Op::Terminate { epoch, psm: gen_psm(r, v, PK::Term) }
        }
        51..=61 => Op::RecordFaults { fault_exp: gen_fault_exp(r, v, cur, g, false), psm: gen_psm(r, v, PK::Fault) },
        62..=70 => Op::DeclareRecovered { psm: gen_psm(r, v, PK::Recover) },
        71..=78 => {
            // compaction is refused while early terminations are pending
            if !v.early_terms.is_empty() && r.chance(75) {
                return Op::PopEarly { max_partitions: 100, max_sectors: 100 };
            }
            gen_compact(r, v)
        }
        79..=87 => Op::PopEarly {
            max_partitions: *r.pick(&[0u64, 1, 1, 2, 3, 100]),
            max_sectors: *r.pick(&[0u64, 1, 2, 3, 5, 100, 100]),
        },
        88..=93 => {
            let free: BTreeSet<u64> = (0..=20u64).filter(|n| !v.allocated.get(*n)).collect();
            let taken = bset(&v.allocated);
            let mut nums = if r.chance(75) && !free.is_empty() {
                subset(r, &free, 4)
            } else {
                (0..1 + r.below(4)).map(|_| r.below(21)).collect()
            };
            if r.chance(20) {
                // a number that is already allocated
                nums.extend(subset(r, &taken, 2));
            }
            if r.chance(3) {
                nums.clear();
            }
            Op::Allocate { nums, allow: r.chance(30) }
        }
        _ => {
            let psz = 2 + r.below(4);
            let mp = 1 + r.below(3);
            let k = 2 + r.below(5);
            let mut idx: BTreeSet<u64> = BTreeSet::new();
            while (idx.len() as u64) < k {
                idx.insert(r.below(48));
            }
            let cap = psz * mp;
            let dls: Vec<(u64, u64, u64)> = idx
                .into_iter()
                .map(|i| {
                    let total = match r.below(100) {
                        0..=9 => cap,
                        10..=14 => cap + r.below(3),
                        _ => r.below(cap + 1),
                    };
                    let live = if r.chance(40) { total } else { r.below(total + 1) };
                    (i, live, total)
                })
                .collect();
            Op::Assign { max_partitions: mp, psize: psz, dls, n: 1 + r.below(12) }
        }
    }
}

/// Does the op break an obligation of the CALLER (lib.rs / state.rs never do this)?  Such ops are still
/// compared with the model, but once one is accepted the invariant monitor stops for the case.
fn fault_exp_of(op: &Op) -> Option<i64> {
    match op {
        Op::RecordProven { fault_exp, .. } | Op::ProcessDeadlineEnd { fault_exp } | Op::RecordFaults { fault_exp, .. } => {
            Some(*fault_exp)
        }
        _ => None,
    }
}
/// lib.rs always passes `deadline.last() + fault_max_age` of the current (or a later) deadline as fault
/// expiration, i.e. a non-decreasing sequence.  process_deadline_end depends on it: with a smaller epoch than
/// one used before, record_missed_post moves ALREADY faulty sectors to an earlier queue entry without telling
/// the deadline (only partitions with NEW faulty power are re-indexed), and the deadline's expiration index no
/// longer covers the partition.  (record_faults / record_proven_sectors index every partition they reschedule,
/// whatever the epoch.)
fn decreasing_fault_expiration(g: &GenCtx, op: &Op) -> bool {
    match (op, g.max_fe) {
        (Op::ProcessDeadlineEnd { fault_exp }, Some(m)) => *fault_exp < m,
        _ => false,
    }
}
fn caller_misuse(v: &DView, op: &Op) -> bool {
    match op {
        Op::AddSectors { secs, .. } => {
            let all = v.all_sectors();
            let mut seen = BTreeSet::new();
            secs.iter().any(|x| !seen.insert(x.num) || all.contains(&x.num))
        }
        _ => false,
    }
}

// ---------- monitor ----------
type Pw = (BigInt, BigInt);
struct TRow {
    exp: i64,
    pw: Pw,
    pledge: BigInt,
    fee: BigInt,
}
fn sum_pw<'a, I: IntoIterator<Item = &'a u64>>(tbl: &BTreeMap<u64, TRow>, xs: I) -> Option<Pw> {
    let mut a = (BigInt::zero(), BigInt::zero());
    for n in xs {
        let r = tbl.get(n)?;
        a.0 += &r.pw.0;
        a.1 += &r.pw.1;
    }
    Some(a)
}
fn pp(p: &PowerPair) -> Pw {
    (p.raw.clone(), p.qa.clone())
}

/// independent implementation of the partition-level PartInv over the abstract projection
fn partinv(quant: QuantSpec, v: &PView, tbl: &BTreeMap<u64, TRow>) -> Vec<String> {
    let mut bad: Vec<String> = vec![];
    let (s, u, f, rc, t) = (&v.sectors, &v.unproven, &v.faults, &v.recoveries, &v.terminated);
    if !rc.is_subset(f) { bad.push("recoveries not within faults".into()); }
    if !f.is_subset(s) { bad.push("faults not within sectors".into()); }
    if !u.is_subset(s) { bad.push("unproven not within sectors".into()); }
    if !t.is_subset(s) { bad.push("terminated not within sectors".into()); }
    if !u.is_disjoint(f) { bad.push("unproven meets faults".into()); }
    if !u.is_disjoint(t) { bad.push("unproven meets terminated".into()); }
    if !f.is_disjoint(t) { bad.push("faults meets terminated".into()); }
    if let Some(n) = s.iter().find(|n| !tbl.contains_key(n)) {
        bad.push(format!("sector {} of the partition is not in the sector table", n));
        return bad;
    }
    let live = v.live();
    let p = &v.part;
    for (name, got, set) in [
        ("live_power", pp(&p.live_power), &live),
        ("unproven_power", pp(&p.unproven_power), u),
        ("faulty_power", pp(&p.faulty_power), f),
        ("recovering_power", pp(&p.recovering_power), rc),
    ] {
        let want = sum_pw(tbl, set.iter()).unwrap();
        if got != want {
            bad.push(format!("{} is ({}, {}), the sectors sum to ({}, {})", name, got.0, got.1, want.0, want.1));
        }
    }
    // expiration queue
    let mut seen: BTreeSet<u64> = BTreeSet::new();
    for (k, es) in &v.queue {
        let k = *k;
        let ot = bset(&es.on_time_sectors);
        let ea = bset(&es.early_sectors);
        if k < 0 || quant.quantize_up(k) != k { bad.push(format!("queue key {} is not a quantised epoch", k)); }
        if ot.is_empty() && ea.is_empty() { bad.push(format!("queue entry {} is empty", k)); }
        for n in ot.iter().chain(ea.iter()) {
            if !seen.insert(*n) { bad.push(format!("sector {} is scheduled twice", n)); }
        }
        if !ea.is_subset(f) { bad.push(format!("entry {}: early sectors not all faulty", k)); }
        let all: BTreeSet<u64> = &ot | &ea;
        if !all.is_subset(&live) {
            bad.push(format!("entry {}: schedules sectors that are not live", k));
            continue;
        }
        for n in &ot {
            let q = quant.quantize_up(tbl[n].exp);
            if q != k { bad.push(format!("entry {}: on-time sector {} expires (quantised) at {}", k, n, q)); }
        }
        for n in &ea {
            let q = quant.quantize_up(tbl[n].exp);
            if !(k < q) { bad.push(format!("entry {}: early sector {} has on-time expiration {} <= entry", k, n, q)); }
        }
        let pledge: BigInt = ot.iter().map(|n| tbl[n].pledge.clone()).sum();
        if es.on_time_pledge.atto() != &pledge { bad.push(format!("entry {}: on_time_pledge {} != {}", k, es.on_time_pledge.atto(), pledge)); }
        let act = sum_pw(tbl, ot.difference(f)).unwrap();
        if pp(&es.active_power) != act { bad.push(format!("entry {}: active_power ({}, {}) != ({}, {})", k, es.active_power.raw, es.active_power.qa, act.0, act.1)); }
        let fl: BTreeSet<u64> = &(&ot & f) | &ea;
        let flp = sum_pw(tbl, fl.iter()).unwrap();
        if pp(&es.faulty_power) != flp { bad.push(format!("entry {}: faulty_power ({}, {}) != ({}, {})", k, es.faulty_power.raw, es.faulty_power.qa, flp.0, flp.1)); }
        let fee: BigInt = all.iter().map(|n| tbl[n].fee.clone()).sum();
        if es.fee_deduction.atto() != &fee { bad.push(format!("entry {}: fee_deduction {} != {}", k, es.fee_deduction.atto(), fee)); }
    }
    if seen != live { bad.push(format!("scheduled sectors {:?} != live sectors {:?}", seen, live)); }
    // early-termination queue
    let mut seen_et: BTreeSet<u64> = BTreeSet::new();
    for (k, b) in &v.early {
        if b.is_empty() { bad.push(format!("early-termination entry {} is empty", k)); }
        for n in b.iter() {
            if !seen_et.insert(n) { bad.push(format!("sector {} is in two early-termination entries", n)); }
            if !t.contains(&n) { bad.push(format!("early-terminated sector {} is not terminated", n)); }
        }
    }
    bad
}

/// DeadlineInv: the deadline's memos and indexes agree with its partitions, and every partition satisfies PartInv
fn deadlineinv(w: &World, v: &DView) -> Vec<String> {
    let mut bad: Vec<String> = vec![];
    let tbl: BTreeMap<u64, TRow> = v
        .table
        .iter()
        .map(|(k, i)| {
            let p = power_for_sector(w.size, i);
            (*k, TRow { exp: i.expiration, pw: (p.raw, p.qa), pledge: i.initial_pledge.atto().clone(), fee: i.daily_fee.atto().clone() })
        })
        .collect();
    let d = &w.dl;
    let mut seen: BTreeSet<u64> = BTreeSet::new();
    let (mut live_n, mut total_n) = (0u64, 0u64);
    let mut fp = (BigInt::zero(), BigInt::zero());
    let mut lp = (BigInt::zero(), BigInt::zero());
    let mut fee = BigInt::zero();
    let mut with_early: BTreeSet<u64> = BTreeSet::new();
    for (pos, (i, p)) in v.parts.iter().enumerate() {
        if *i != pos as u64 { bad.push(format!("partition keys are not sequential: key {} at position {}", i, pos)); }
        for n in &p.sectors {
            if !seen.insert(*n) { bad.push(format!("sector {} is in two partitions (second: {})", n, i)); }
        }
        let live = p.live();
        live_n += live.len() as u64;
        total_n += p.sectors.len() as u64;
        fp.0 += &p.part.faulty_power.raw;
        fp.1 += &p.part.faulty_power.qa;
        lp.0 += &p.part.live_power.raw;
        lp.1 += &p.part.live_power.qa;
        for n in &live {
            match tbl.get(n) {
                Some(row) => fee += &row.fee,
                None => bad.push(format!("live sector {} of partition {} is not in the sector table", n, i)),
            }
        }
        for (k, _) in &p.queue {
            match v.dlq.get(k) {
                Some(b) if b.get(*i) => {}
                Some(_) => bad.push(format!("deadline queue entry {} does not name partition {}", k, i)),
                None => bad.push(format!("deadline queue has no entry {} (partition {} expires sectors then)", k, i)),
            }
        }
        if !p.early.is_empty() { with_early.insert(*i); }
        for m in partinv(w.quant, p, &tbl) {
            bad.push(format!("partition {}: {}", i, m));
        }
    }
    if d.live_sectors != live_n { bad.push(format!("live_sectors {} != {} live sectors in the partitions", d.live_sectors, live_n)); }
    if d.total_sectors != total_n { bad.push(format!("total_sectors {} != {} sectors in the partitions", d.total_sectors, total_n)); }
    if pp(&d.faulty_power) != fp { bad.push(format!("faulty_power ({}, {}) != partitions' sum ({}, {})", d.faulty_power.raw, d.faulty_power.qa, fp.0, fp.1)); }
    if pp(&d.live_power) != lp { bad.push(format!("live_power ({}, {}) != partitions' sum ({}, {})", d.live_power.raw, d.live_power.qa, lp.0, lp.1)); }
    if d.daily_fee.atto() != &fee { bad.push(format!("daily_fee {} != fees of the live sectors {}", d.daily_fee.atto(), fee)); }
    if v.early_terms != with_early { bad.push(format!("early_terminations {:?} != partitions with pending early terminations {:?}", v.early_terms, with_early)); }
    for (k, b) in &v.dlq {
        if *k < 0 || w.quant.quantize_up(*k) != *k { bad.push(format!("deadline queue key {} is not a quantised epoch", k)); }
        if b.is_empty() { bad.push(format!("deadline queue entry {} is empty", k)); }
    }
    bad
}

/// which messages of the repo checker are consequences of the HARNESS calling deadline functions at a time
/// the actor never does (lib.rs only accepts PoSts while a deadline's challenge window is open, and closes the
/// window with process_deadline_end before anything else touches the deadline)
struct Window {
    /// a non-PoSt mutation was accepted while partitions_posted was non-empty
    dirty_open: bool,
    /// the partition snapshot was taken by a process_deadline_end that closed such a window
    dirty_snapshot: bool,
}

fn monitor(w: &World, v: &DView, win: &Window, stats: &mut Stats) -> Vec<(String, Vec<String>)> {
    let mut out = vec![];
    let res = catch_unwind(AssertUnwindSafe(|| {
        let acc = MessageAccumulator::default();
        check_deadline_state_invariants(&w.dl, w.store, w.quant, w.size, &v.table, &acc);
        acc.messages()
    }));
    match res {
        Ok(msgs) => {
            let mut kept = vec![];
            for m in msgs {
                let posted_msg = m.contains("when partitions have been proven")
                    || (m.contains("expected at least") && m.contains("partitions, found"));
                let snap_msg = m.contains("snapshot partition has");
                if (posted_msg && win.dirty_open) || (snap_msg && win.dirty_snapshot) {
                    bump(stats, "repo_checker_msgs_excused_open_window_misuse");
                } else {
                    kept.push(m);
                }
            }
            if !kept.is_empty() {
                out.push(("repo-checker-deadline".to_string(), kept));
            }
        }
        Err(_) => out.push(("repo-checker-deadline".to_string(), vec!["the repo checker panicked".to_string()])),
    }
    let bad = deadlineinv(w, v);
    if !bad.is_empty() {
        out.push(("deadlineinv".to_string(), bad));
    }
    out
}

fn bump(stats: &mut Stats, key: &str) {
    let n = stats.extra.get(key).and_then(|x| x.as_u64()).unwrap_or(0);
    stats.extra.insert(key.to_string(), json!(n + 1));
}

/// generator-coverage counters over accepted ops (reported in stats.extra)
fn coverage(stats: &mut Stats, op: &Op, rets: &[String], before: &DView, v: &DView) {
    if v.parts.len() >= 3 {
        bump(stats, "cov_states_with_3plus_partitions");
    }
    if !v.early_terms.is_empty() {
        bump(stats, "cov_states_with_pending_early_terminations");
    }
    if v.parts.iter().any(|(_, p)| !p.recoveries.is_empty()) {
        bump(stats, "cov_states_with_recoveries");
    }
    if v.parts.iter().any(|(_, p)| p.queue.iter().any(|(_, es)| !es.early_sectors.is_empty())) {
        bump(stats, "cov_states_with_early_queue_entries");
    }
    let nz = |i: usize| rets.get(i).map(|s| s != "0").unwrap_or(false);
    match op {
        Op::AddSectors { secs, .. } => {
            if v.parts.len() > before.parts.len() + 1 {
                bump(stats, "cov_add_opened_2plus_partitions");
            }
            if !secs.is_empty() && v.parts.len() == before.parts.len() {
                bump(stats, "cov_add_filled_last_partition_only");
            }
        }
        Op::RecordProven { posts, .. } => {
            if posts.len() >= 2 {
                bump(stats, "cov_record_proven_2plus_partitions");
            }
            if nz(2) {
                bump(stats, "cov_record_proven_new_faulty_power");
            }
            if nz(4) {
                bump(stats, "cov_record_proven_retracted_recovery");
            }
            if nz(6) {
                bump(stats, "cov_record_proven_recovered_power");
            }
            if nz(0) {
                bump(stats, "cov_record_proven_power_delta");
            }
        }
        Op::ProcessDeadlineEnd { .. } => {
            if nz(2) {
                bump(stats, "cov_process_end_penalized_power");
            }
            if !before.posted.is_empty() {
                bump(stats, "cov_process_end_with_posted_partitions");
            }
        }
        Op::PopExpired { .. } => {
            if nz(0) {
                bump(stats, "cov_pop_expired_with_on_time");
            }
            let n_ot: usize = rets[0].parse().unwrap_or(0);
            if nz(1 + n_ot) {
                bump(stats, "cov_pop_expired_with_early");
            }
            if v.dlq.len() < before.dlq.len() {
                bump(stats, "cov_pop_expired_popped_partitions");
            }
        }
        Op::Terminate { psm, .. } => {
            if nz(0) {
                bump(stats, "cov_terminate_lost_active_power");
            }
            if mk_psm(psm).len() >= 2 {
                bump(stats, "cov_terminate_2plus_partitions");
            }
        }
        Op::RecordFaults { .. } => {
            if nz(0) {
                bump(stats, "cov_record_faults_power_delta");
            }
        }
        Op::DeclareRecovered { .. } => {
            let n = |x: &DView| x.parts.iter().map(|(_, p)| p.recoveries.len()).sum::<usize>();
            if n(v) > n(before) {
                bump(stats, "cov_declare_recovered_new_recoveries");
            }
        }
        Op::Compact { idxs } => {
            if !idxs.is_empty() {
                bump(stats, "cov_compact_removed_partitions");
            }
            if nz(0) {
                bump(stats, "cov_compact_dead_sectors_removed");
            }
            if v.parts.len() < before.parts.len() {
                bump(stats, "cov_compact_fewer_partitions_after");
            }
            if !idxs.is_empty() && idxs.iter().any(|i| before.part(*i).map(|p| !p.live().is_empty()).unwrap_or(false)) {
                bump(stats, "cov_compact_moved_live_sectors");
            }
        }
        Op::PopEarly { .. } => {
            if nz(rets.len() - 1) {
                bump(stats, "cov_pop_early_has_more");
            }
            if nz(rets.len() - 2) {
                bump(stats, "cov_pop_early_processed_some");
            }
        }
        Op::Allocate { allow, nums } => {
            if *allow && nums.iter().any(|n| before.allocated.get(*n)) {
                bump(stats, "cov_allocate_allowed_collision");
            }
        }
        Op::Assign { dls, .. } => {
            let used: BTreeSet<&String> = rets.iter().collect();
            if used.len() >= 2 {
                bump(stats, "cov_assign_spread_over_2plus_deadlines");
            }
            if used.len() < dls.len() {
                bump(stats, "cov_assign_left_a_deadline_untouched");
            }
        }
    }
}

// ---------- one case ----------
/// `--no-fe-taint 1`: keep monitoring after a process_deadline_end with a decreasing fault expiration (to
/// replay what that does to the deadline's expiration index)
/// the current case has accepted an op that broke a caller obligation (only used to label error samples)
static CASE_TAINTED: std::sync::atomic::AtomicBool = std::sync::atomic::AtomicBool::new(false);
static NO_FE_TAINT: std::sync::atomic::AtomicBool = std::sync::atomic::AtomicBool::new(false);

fn run_case(pc: &DCase, stats: &mut Stats, genr: Option<(&mut Prng, usize)>) -> (Case, Vec<serde_json::Value>) {
    let store = MemoryBlockstore::new();
    let root = Array::<SectorOnChainInfo, MemoryBlockstore>::new_with_bit_width(&store, SECTORS_AMT_BITWIDTH)
        .flush()
        .unwrap();
    let size = SIZES[pc.size as usize % SIZES.len()];
    let info_cid = store.put_cbor(&0u8, Code::Blake2b256).unwrap();
    let st = State::new(&Policy::default(), &store, info_cid, 0, 0).unwrap();
    let mut w = World {
        store: &store,
        dl: Deadline::new(&store).unwrap(),
        root,
        st,
        quant: QuantSpec { unit: pc.unit, offset: pc.offset },
        size,
        psize: pc.psize,
    };
    let init = format!("dinit {} {} {}", cf::z(pc.unit), cf::z(pc.offset), cf::z(pc.psize));
    let mut steps = vec![];
    let mut ops_done: Vec<Op> = vec![];
    let mut fails = vec![];
    let (mut acc, mut rej) = (false, false);
    let mut genr = genr;
    let n = match &genr { Some((_, n)) => *n, None => pc.ops.len() };
    let mut cur: i64 = match &mut genr { Some((r, _)) => r.range(0, 10), None => 0 };
    let mut tainted = false;
    let mut win = Window { dirty_open: false, dirty_snapshot: false };
    let mut gctx = GenCtx { max_fe: None, age: 8 + (pc.unit * 7 + pc.offset).rem_euclid(25) };
    let mut v = view(&w);
    for i in 0..n {
        let op = match &mut genr { Some((r, _)) => gen_op(r, &v, &mut cur, size, pc.psize, &gctx), None => pc.ops[i].clone() };
        let misuse = caller_misuse(&v, &op);
        let fe_misuse = decreasing_fault_expiration(&gctx, &op);
        CASE_TAINTED.store(tainted, Ordering::Relaxed);
        let (c, rets) = run_op(&mut w, &op, stats);
        stats.op(kind(&op), c);
        if c == 0 { acc = true } else { rej = true }
        ops_done.push(op.clone());
        let before = v;
        v = view(&w);
        let case_json = |ops: &Vec<Op>| DCase { unit: pc.unit, offset: pc.offset, size: pc.size, psize: pc.psize, ops: ops.clone() };
        // (c) allocated numbers only grow; a denying allocation never re-issues a number
        {
            let (a0, a1) = (bset(&before.allocated), bset(&v.allocated));
            let mut bad = vec![];
            if !a0.is_subset(&a1) {
                bad.push(format!("allocated sector numbers shrank: {:?} -> {:?}", a0, a1));
            }
            if c != 0 && a0 != a1 {
                bad.push("a failed op changed the allocation".to_string());
            }
            if let (0, Op::Allocate { nums, allow }) = (c, &op) {
                if !*allow {
                    if let Some(n) = nums.iter().find(|n| a0.contains(n)) {
                        bad.push(format!("sector number {} was allocated twice under DenyCollisions", n));
                    }
                }
                if let Some(n) = nums.iter().find(|n| !a1.contains(n)) {
                    bad.push(format!("sector number {} is not allocated after a successful allocation", n));
                }
            }
            if !bad.is_empty() {
                fails.push(json!({"class": "allocation", "what": bad, "step": i, "op": kind(&op), "case": case_json(&ops_done)}));
            }
        }
        if c == 0 {
            if misuse && !tainted {
                tainted = true;
                bump(stats, "cases_with_accepted_caller_misuse");
            }
            if fe_misuse && !tainted && !NO_FE_TAINT.load(Ordering::Relaxed) {
                tainted = true;
                bump(stats, "cases_with_accepted_decreasing_fault_expiration");
            }
            if let Some(fe) = fault_exp_of(&op) {
                gctx.max_fe = Some(gctx.max_fe.map_or(fe, |m| m.max(fe)));
            }
            // challenge-window discipline (see Window)
            match &op {
                Op::ProcessDeadlineEnd { .. } => {
                    win.dirty_snapshot = win.dirty_open;
                    win.dirty_open = false;
                }
                Op::RecordProven { posts, .. } => {
                    // lib.rs aborts a PoSt that proves no sector at all ("cannot prove partitions with no
                    // active sectors"): such a call never leaves a posted partition behind in the actor
                    let provable = posts.iter().any(|(i, _)| {
                        v.part(*i).map(|p| !(&(&p.sectors - &p.faults) - &p.terminated).is_empty()).unwrap_or(false)
                    });
                    if !provable && !posts.is_empty() && !win.dirty_open {
                        win.dirty_open = true;
                        bump(stats, "windows_opened_by_post_without_active_sectors");
                    }
                }
                Op::PopEarly { .. } | Op::Allocate { .. } | Op::Assign { .. } => {}
                _ => {
                    if !before.posted.is_empty() && !win.dirty_open {
                        win.dirty_open = true;
                        bump(stats, "windows_with_non_post_mutation");
                    }
                }
            }
            if mutates_deadline(&op) {
                if !tainted {
                    for (class, what) in monitor(&w, &v, &win, stats) {
                        fails.push(json!({"class": class, "what": what, "step": i, "op": kind(&op), "case": case_json(&ops_done)}));
                    }
                    bump(stats, "monitor_evaluations");
                } else {
                    // not failures (the caller broke its obligations), but evidence that each monitor can fire
                    for (class, _) in monitor(&w, &v, &win, stats) {
                        bump(stats, &format!("after_caller_misuse_{}_fires", class));
                    }
                }
            }
            coverage(stats, &op, &rets, &before, &v);
        } else if !tainted {
            // a rejected op must leave everything as it was (the harness restores; this checks the restore)
            if enc_dl(&w, &v) != {
                // `before` belongs to the same world: only the deadline value matters
                enc_dl(&w, &before)
            } {
                fails.push(json!({"class": "rollback", "what": ["state differs after a rejected op"], "step": i, "op": kind(&op), "case": case_json(&ops_done)}));
            }
        }
        let mut o = vec![cf::z(c), cf::z(rets.len())];
        o.extend(rets);
        o.extend(enc_set(&v.allocated));
        o.extend(enc_dl(&w, &v));
        steps.push((coq_op(size, &op), o));
    }
    (Case { init, steps, nontrivial: acc && rej }, fails)
}

fn finish_stats(stats: &mut Stats) {
    stats.extra.insert(
        "error_code_mapping_differs_from_plain_downcast".to_string(),
        json!(MAPPING_DIFFERS.load(Ordering::Relaxed)),
    );
}

fn main() {
    let a = cf::parse_args();
    let mut stats = Stats::default();
    NO_FE_TAINT.store(a.rest.get("no-fe-taint").map(|x| x == "1").unwrap_or(false), Ordering::Relaxed);
    std::panic::set_hook(Box::new(|_| {}));
    let header = "From VF Require Import Model.Partition Model.Deadline Base.Corr.\nFrom Coq Require Import ZArith List.\nImport ListNotations.\nOpen Scope Z_scope.\n";
    let mut cw = CaseWriter::new(&a.out, header, "dcheck_case", a.shards);
    if let Some(p) = &a.replay {
        let v: serde_json::Value = serde_json::from_str(&std::fs::read_to_string(p).unwrap()).unwrap();
        let pc: DCase = serde_json::from_value(v["case"].clone()).unwrap();
        let (c, fails) = run_case(&pc, &mut stats, None);
        cw.push(c);
        for f in fails { stats.monitor_fail(f); }
        finish_stats(&mut stats);
        cw.finish(&stats, "deadline");
        return;
    }
    // corpus first
    let corpus = std::path::Path::new(env!("CARGO_MANIFEST_DIR")).join("../corpus/C04d");
    if let Ok(rd) = std::fs::read_dir(&corpus) {
        let mut files: Vec<_> = rd.filter_map(|e| e.ok()).map(|e| e.path()).collect();
        files.sort();
        for f in files {
            if f.extension().map(|x| x == "json").unwrap_or(false) {
                let v: serde_json::Value = serde_json::from_str(&std::fs::read_to_string(&f).unwrap()).unwrap();
                let pc: DCase = serde_json::from_value(v["case"].clone()).unwrap();
                let (c, fails) = run_case(&pc, &mut stats, None);
                cw.push(c);
                for f in fails { stats.monitor_fail(f); }
            }
        }
    }
    let mut root = Prng::new(a.seed);
    for k in 0..a.cases {
        let mut r = root.fork(k as u64);
        let unit = *r.pick(&[1i64, 2, 3, 4, 5, 7, 10, 16, 60]);
        let offset = if r.chance(10) { 100_000 + r.range(0, 1000) } else { r.range(0, 3 * unit - 1) };
        let size = r.below(SIZES.len() as u64) as u8;
        let psize = *r.pick(&PSIZES);
        let pc = DCase { unit, offset, size, psize, ops: vec![] };
        let (c, fails) = run_case(&pc, &mut stats, Some((&mut r, a.len)));
        cw.push(c);
        for f in fails { stats.monitor_fail(f); }
    }
    finish_stats(&mut stats);
    cw.finish(&stats, "deadline");
}
