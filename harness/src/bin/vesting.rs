//! C14 function-level correspondence + monitor harness.
//!  tag `vesting`: the real `fil_actor_miner::VestingFunds` (add_locked_funds, unlock_vested_funds,
//!                 unlock_vested_and_unvested_funds) on a MemoryBlockstore against coq/Model/Vesting.v;
//!  tag `mstate` : the real `fil_actor_miner::State` funds methods (add_locked_funds, unlock_vested_funds,
//!                 unlock_vested_and_unvested_funds, repay_partial_debt_in_priority_order, repay_debts,
//!                 apply_penalty, add_pre_commit_deposit, add_initial_pledge, get_unlocked_balance,
//!                 get_available_balance, check_balance_invariants) against `fstep` of
//!                 coq/Model/MinerFunds.v.
use cid::Cid;
use fil_actor_miner::{QuantSpec, State, VestSpec, VestingFund, VestingFunds, REWARD_VESTING_SPEC};
use fil_actors_runtime::runtime::Policy;
use fil_actors_runtime::test_blockstores::MemoryBlockstore;
use fil_actors_runtime::ActorError;
use fvm_ipld_encoding::CborStore;
use fvm_shared::bigint::{BigInt, Integer};
use fvm_shared::econ::TokenAmount;
use num_traits::{Signed, Zero};
use serde::{Deserialize, Serialize};
use vharness::coqfmt::{self as cf, Case, CaseWriter, Stats};
use vharness::prng::Prng;

mod s128 {
    use serde::{Deserialize, Deserializer, Serializer};
    pub fn serialize<S: Serializer>(x: &i128, s: S) -> Result<S::Ok, S::Error> {
        s.serialize_str(&x.to_string())
    }
    pub fn deserialize<'de, D: Deserializer<'de>>(d: D) -> Result<i128, D::Error> {
        let s = String::deserialize(d)?;
        s.parse().map_err(serde::de::Error::custom)
    }
}

type Spec = [i64; 4]; // initial_delay, vest_period, step_duration, quantization

#[derive(Clone, Debug, Serialize, Deserialize)]
enum VOp {
    Add { cur: i64, #[serde(with = "s128")] sum: i128, pps: i64, spec: Spec },
    Unlock { cur: i64 },
    UnlockBoth { cur: i64, #[serde(with = "s128")] target: i128 },
}

#[derive(Clone, Debug, Serialize, Deserialize)]
enum FOp {
    AddLocked { cur: i64, #[serde(with = "s128")] sum: i128, spec: Spec },
    UnlockVested { cur: i64 },
    UnlockBoth { cur: i64, #[serde(with = "s128")] target: i128 },
    RepayPartial { cur: i64, #[serde(with = "s128")] bal: i128 },
    RepayDebts { #[serde(with = "s128")] bal: i128 },
    Penalty { #[serde(with = "s128")] p: i128 },
    AddPcd { #[serde(with = "s128")] d: i128 },
    AddIp { #[serde(with = "s128")] d: i128 },
    Balances { #[serde(with = "s128")] bal: i128 },
}

#[derive(Clone, Debug, Serialize, Deserialize)]
struct VCase {
    /// "vesting" or "mstate"
    kind: String,
    pps: i64,
    vops: Vec<VOp>,
    fops: Vec<FOp>,
}

fn real_spec() -> Spec {
    let s = &REWARD_VESTING_SPEC;
    [s.initial_delay, s.vest_period, s.step_duration, s.quantization]
}
fn mk_spec(s: &Spec) -> VestSpec {
    VestSpec { initial_delay: s[0], vest_period: s[1], step_duration: s[2], quantization: s[3] }
}
fn coq_spec(s: &Spec) -> String {
    format!(
        "{{| initial_delay := {}; vest_period := {}; step_duration := {}; quantization := {} |}}",
        cf::z(s[0]), cf::z(s[1]), cf::z(s[2]), cf::z(s[3])
    )
}
fn ta(x: i128) -> TokenAmount {
    TokenAmount::from_atto(x)
}

/// the raw head :: tail representation, read back through the CBOR encoding of VestingFunds
fn raw_table(vf: &VestingFunds, store: &MemoryBlockstore) -> Vec<(i64, BigInt)> {
    let bytes = fvm_ipld_encoding::to_vec(vf).unwrap();
    let inner: Option<(VestingFund, Cid)> = fvm_ipld_encoding::from_slice(&bytes).unwrap();
    match inner {
        None => vec![],
        Some((head, tail)) => {
            let tl: Vec<VestingFund> = store.get_cbor(&tail).unwrap().unwrap();
            let mut v = vec![(head.epoch, head.amount.atto().clone())];
            v.extend(tl.into_iter().map(|f| (f.epoch, f.amount.atto().clone())));
            v
        }
    }
}

pub fn tbl_hash(t: &[(i64, BigInt)]) -> BigInt {
    let mut h = BigInt::zero();
    for (k, (e, a)) in t.iter().enumerate() {
        let i = BigInt::from(k as u64 + 1);
        let w: BigInt = &i * &i * BigInt::from(1000003) + &i;
        h += w * (a + BigInt::from(7919) * BigInt::from(*e));
    }
    h
}
fn tbl_sum(t: &[(i64, BigInt)]) -> BigInt {
    t.iter().map(|x| x.1.clone()).sum()
}
fn tbl_obs(vf: &VestingFunds, store: &MemoryBlockstore) -> Vec<String> {
    let t = raw_table(vf, store);
    let loaded = vf.load(store).unwrap();
    let mut o = vec![cf::z(t.len()), cf::z(tbl_sum(&t)), cf::z(tbl_hash(&t)), cf::z(loaded.len())];
    for (e, a) in t.iter().take(8) {
        o.push(cf::z(e));
        o.push(cf::z(a));
    }
    o
}

fn err_code(e: &anyhow::Error) -> u32 {
    e.downcast_ref::<ActorError>().map(|a| a.exit_code().value()).unwrap_or(20)
}

// ------------------------------------------------------------------------------------------
// monitors (the property's clauses evaluated on the implementation's own tables)
fn vested_before(t: &[(i64, BigInt)], cur: i64) -> BigInt {
    t.iter().filter(|x| x.0 < cur).map(|x| x.1.clone()).sum()
}
fn wf_table(t: &[(i64, BigInt)]) -> Vec<String> {
    let mut bad = vec![];
    for w in t.windows(2) {
        if w[0].0 > w[1].0 {
            bad.push(format!("table not sorted: {} before {}", w[0].0, w[1].0));
            break;
        }
    }
    if t.iter().any(|x| x.1.is_negative()) {
        bad.push("negative amount in the vesting table".into());
    }
    bad
}

/// closed form of the linear schedule: what has vested strictly before epoch `e` out of `sum`
/// locked at `cur` must lie between the two lines of the statement
fn schedule_bounds(new_entries: &[(i64, BigInt)], cur: i64, sum: &BigInt, sp: &Spec, probes: &[i64]) -> Vec<String> {
    let mut bad = vec![];
    let begin = cur + sp[0];
    let total: BigInt = new_entries.iter().map(|x| x.1.clone()).sum();
    if sum.is_positive() && &total != sum {
        bad.push(format!("schedule sums to {} instead of {}", total, sum));
    }
    for &e in probes {
        let v = vested_before(new_entries, e);
        let up = (sum * BigInt::from((e - begin).max(0))).div_floor(&BigInt::from(sp[1])).min(sum.clone());
        let lo_arg = e - begin - sp[2] - sp[3];
        let lo = if lo_arg < 0 { BigInt::zero() } else { (sum * BigInt::from(lo_arg)).div_floor(&BigInt::from(sp[1])).min(sum.clone()) };
        if v > up {
            bad.push(format!("early unlock: {} vested before epoch {} > linear bound {}", v, e, up));
        }
        if v < lo {
            bad.push(format!("late unlock: {} vested before epoch {} < lower bound {}", v, e, lo));
        }
        if e > begin + sp[1] + sp[2] + sp[3] && &v != sum {
            bad.push(format!("not fully vested at epoch {}: {} of {}", e, v, sum));
        }
    }
    bad
}

// ------------------------------------------------------------------------------------------
fn gen_spec(r: &mut Prng) -> Spec {
    if r.chance(55) {
        real_spec()
    } else {
        let step = 1 + r.below(12) as i64;
        let period = match r.below(4) { 0 => 1 + r.below(10) as i64, 1 => step * (1 + r.below(12) as i64), _ => 1 + r.below(150) as i64 };
        let quant = match r.below(3) { 0 => 1, _ => 1 + r.below(15) as i64 };
        let delay = if r.chance(70) { 0 } else { r.below(6) as i64 };
        [delay, period, step, quant]
    }
}
fn gen_amount(r: &mut Prng) -> i128 {
    match r.below(10) {
        0 => 0,
        1 => 1 + r.below(5) as i128,
        2 | 3 => r.below(400) as i128,
        4 => 1_000_000_000_000_000_000i128 * (1 + r.below(1000) as i128),
        _ => (r.next_u64() as i128) * (1 + r.below(1_000_000) as i128),
    }
}
fn advance(r: &mut Prng, cur: &mut i64, spec_scale: i64) {
    let d = match r.below(100) {
        0..=19 => 0,
        20..=39 => r.range(1, 3),
        40..=59 => r.range(1, spec_scale.max(2)),
        60..=74 => r.range(100, 3000),
        75..=89 => r.range(2880, 2880 * 30),
        90..=96 => r.range(2880 * 30, 2880 * 200),
        _ => -r.range(1, 50),
    };
    *cur = (*cur + d).max(0);
}

fn run_vesting(pc: &VCase, stats: &mut Stats, genr: Option<(&mut Prng, usize)>) -> (Case, VCase, Vec<serde_json::Value>) {
    let store = MemoryBlockstore::new();
    let mut vf = VestingFunds::new();
    let mut steps = vec![];
    let mut done = vec![];
    let mut fails = vec![];
    let mut genr = genr;
    let n = match &genr { Some((_, n)) => *n, None => pc.vops.len() };
    let mut cur = 0i64;
    let mut pps = pc.pps;
    let mut scale = 10i64;
    let small_world = match &mut genr { Some((r, _)) => r.chance(45), None => false };
    let mut nontriv = (false, false);
    for i in 0..n {
        let pre = raw_table(&vf, &store);
        let op = match &mut genr {
            Some((r, _)) => {
                advance(r, &mut cur, scale);
                if small_world { cur = cur.min(4000) }
                if r.chance(3) { pps = r.range(-3000, 6000) }
                let total: i128 = tbl_sum(&pre).try_into().unwrap_or(i128::MAX / 4);
                let head: i128 = pre.first().map(|x| (&x.1).try_into().unwrap_or(0)).unwrap_or(0);
                match r.below(100) {
                    0..=39 => {
                        let spec = if small_world { let mut s = gen_spec(r); if s == real_spec() { s = [0, 30, 3, 4] }; s } else { gen_spec(r) };
                        scale = spec[1].min(600);
                        let sum = if r.chance(2) { -(r.below(50) as i128) } else { gen_amount(r) };
                        VOp::Add { cur, sum, pps, spec }
                    }
                    40..=64 => VOp::Unlock { cur },
                    _ => {
                        let target = match r.below(100) {
                            0..=9 => 0,
                            10..=34 => head + r.range(-2, 2) as i128,
                            35..=54 => r.below((head.max(1) as u64).min(u64::MAX / 2)) as i128,
                            55..=74 => (total / (1 + r.below(6) as i128)) + r.range(-1, 1) as i128,
                            75..=89 => total + r.range(-2, 5) as i128,
                            90..=97 => gen_amount(r),
                            _ => -(r.below(20) as i128) - 1,
                        };
                        let target = if r.chance(98) { target.max(0) } else { target };
                        VOp::UnlockBoth { cur, target }
                    }
                }
            }
            None => pc.vops[i].clone(),
        };
        let mut bad = vec![];
        let (coq, rets, kind): (String, Vec<String>, &str) = match &op {
            VOp::Add { cur, sum, pps, spec } => {
                let u = vf.add_locked_funds(&store, *cur, &ta(*sum), *pps, &mk_spec(spec)).unwrap();
                let post = raw_table(&vf, &store);
                // monitor: nothing of the new schedule unlocks now; old vested part unlocks exactly
                if spec[0] >= 0 {
                    let loaded_pre: Vec<_> = if pre.first().map(|x| !x.1.is_positive()).unwrap_or(false) { pre[1..].to_vec() } else { pre.clone() };
                    let expect = vested_before(&loaded_pre, *cur);
                    if u.atto() != &expect { bad.push(format!("add_locked_funds unlocked {} but {} had vested", u.atto(), expect)); }
                    if tbl_sum(&post) != tbl_sum(&pre) - u.atto() + BigInt::from((*sum).max(0)) {
                        bad.push("add_locked_funds: table sum != old - unlocked + added".into());
                    }
                }
                // monitor: the schedule itself (run on an empty table with the same inputs)
                let mut fresh = VestingFunds::new();
                fresh.add_locked_funds(&store, *cur, &ta(*sum), *pps, &mk_spec(spec)).unwrap();
                let ne = raw_table(&fresh, &store);
                let begin = cur + spec[0];
                let probes: Vec<i64> = vec![begin, begin + 1, begin + spec[2], begin + spec[2] + spec[3], begin + spec[1] / 2, begin + spec[1] - 1, begin + spec[1], begin + spec[1] + spec[2], begin + spec[1] + spec[2] + spec[3], begin + spec[1] + spec[2] + spec[3] + 1, begin + 2 * spec[1] + 5000];
                if *sum >= 0 { bad.extend(schedule_bounds(&ne, *cur, &BigInt::from(*sum), spec, &probes)); }
                if ne.iter().any(|x| x.0 <= *cur && spec[0] >= 0) { bad.push("new schedule entry at or before the current epoch".into()); }
                let q = QuantSpec { unit: spec[3], offset: *pps };
                if ne.iter().any(|x| q.quantize_up(x.0) != x.0) { bad.push("schedule entry not on a quantisation epoch".into()); }
                (format!("VAdd {} {} {} {}", cf::z(cur), cf::z(sum), cf::z(pps), coq_spec(spec)), vec![cf::z(u.atto())], "add")
            }
            VOp::Unlock { cur } => {
                let u = vf.unlock_vested_funds(&store, *cur).unwrap();
                let post = raw_table(&vf, &store);
                let expect = vested_before(&pre, *cur);
                if u.atto() != &expect { bad.push(format!("unlock_vested_funds({}) returned {} but {} had vested", cur, u.atto(), expect)); }
                if post.iter().any(|x| x.0 < *cur && x.1.is_positive()) { bad.push("vested entry left in the table".into()); }
                let keep: Vec<_> = pre.iter().filter(|x| x.0 >= *cur && x.1.is_positive()).cloned().collect();
                let postp: Vec<_> = post.iter().filter(|x| x.1.is_positive()).cloned().collect();
                if keep != postp { bad.push("unlock_vested_funds changed an unvested entry".into()); }
                (format!("VUnlock {}", cf::z(cur)), vec![cf::z(u.atto())], "unlock")
            }
            VOp::UnlockBoth { cur, target } => {
                let (v, u) = vf.unlock_vested_and_unvested_funds(&store, *cur, &ta(*target)).unwrap();
                let post = raw_table(&vf, &store);
                if *target >= 0 {
                    if u.atto() > &BigInt::from(*target) { bad.push("unlocked more unvested funds than the target".into()); }
                    let unv_pre: BigInt = pre.iter().filter(|x| x.0 >= *cur).map(|x| x.1.clone()).sum();
                    if u.atto() != &BigInt::from(*target).min(unv_pre.clone()) { bad.push(format!("unvested unlocked {} != min(target {}, unvested {})", u.atto(), target, unv_pre)); }
                    if v.atto() > &vested_before(&pre, *cur) { bad.push("reported more vested than had vested".into()); }
                    if tbl_sum(&post) != tbl_sum(&pre) - v.atto() - u.atto() { bad.push("unlock_vested_and_unvested: sum not conserved".into()); }
                }
                (format!("VUnlockBoth {} {}", cf::z(cur), cf::z(target)), vec![cf::z(v.atto()), cf::z(u.atto())], "unlock_both")
            }
        };
        let post = raw_table(&vf, &store);
        let negative_input = matches!(&op, VOp::UnlockBoth { target, .. } if *target < 0);
        if !negative_input && !pre.iter().any(|x| x.1.is_negative()) { bad.extend(wf_table(&post)); }
        stats.op(kind, 0);
        if post != pre { nontriv.0 = true } else { nontriv.1 = true }
        done.push(op.clone());
        if !bad.is_empty() {
            fails.push(serde_json::json!({"class": "vesting-table", "step": i, "what": bad,
                "case": VCase { kind: "vesting".into(), pps: pc.pps, vops: done.clone(), fops: vec![] }}));
        }
        let mut o = rets;
        o.extend(tbl_obs(&vf, &store));
        steps.push((coq, o));
    }
    (Case { init: "[]".into(), steps, nontrivial: nontriv.0 && nontriv.1 },
     VCase { kind: "vesting".into(), pps: pc.pps, vops: done, fops: vec![] }, fails)
}

fn big(x: &TokenAmount) -> i128 {
    x.atto().try_into().unwrap_or(i128::MAX / 8)
}

fn run_mstate(pc: &VCase, stats: &mut Stats, genr: Option<(&mut Prng, usize)>) -> (Case, VCase, Vec<serde_json::Value>) {
    let store = MemoryBlockstore::new();
    let policy = Policy::default();
    let dummy = store.put_cbor(&0u64, multihash_codetable::Code::Blake2b256).unwrap();
    let mut st = State::new(&policy, &store, dummy, pc.pps, 0).unwrap();
    let mut steps = vec![];
    let mut done = vec![];
    let mut fails = vec![];
    let mut genr = genr;
    let n = match &genr { Some((_, n)) => *n, None => pc.fops.len() };
    let mut cur = 0i64;
    let small_world = match &mut genr { Some((r, _)) => r.chance(35), None => false };
    let (mut acc, mut rej) = (false, false);
    for i in 0..n {
        let floor = big(&st.locked_funds) + big(&st.pre_commit_deposits) + big(&st.initial_pledge);
        let debt = big(&st.fee_debt);
        let op = match &mut genr {
            Some((r, _)) => {
                advance(r, &mut cur, 40);
                if small_world { cur = cur.min(3000) }
                let bal = match r.below(100) {
                    0..=39 => floor + gen_amount(r),
                    40..=54 => floor + debt + r.range(-2, 2) as i128,
                    55..=69 => floor + r.range(0, 3) as i128,
                    70..=84 => floor + debt / (1 + r.below(4) as i128),
                    85..=92 => floor + debt + gen_amount(r),
                    _ => floor - 1 - r.below(100) as i128,
                };
                match r.below(100) {
                    0..=24 => {
                        let spec = if small_world { let mut s = gen_spec(r); if s == real_spec() { s = [0, 24, 2, 3] }; s } else if r.chance(85) { real_spec() } else { gen_spec(r) };
                        let sum = if r.chance(3) { -(r.below(9) as i128) - 1 } else { gen_amount(r) };
                        FOp::AddLocked { cur, sum, spec }
                    }
                    25..=39 => FOp::UnlockVested { cur },
                    40..=49 => {
                        let l = big(&st.locked_funds);
                        let target = match r.below(5) { 0 => 0, 1 => l + r.range(-1, 3) as i128, 2 => gen_amount(r), _ => l / (1 + r.below(20) as i128) };
                        FOp::UnlockBoth { cur, target: target.max(0) }
                    }
                    50..=64 => FOp::RepayPartial { cur, bal },
                    65..=72 => FOp::RepayDebts { bal },
                    73..=84 => FOp::Penalty { p: if r.chance(4) { -1 - r.below(5) as i128 } else if r.chance(50) { big(&st.locked_funds) / (1 + r.below(30) as i128) + r.range(0, 2) as i128 } else { gen_amount(r) } },
                    85..=88 => FOp::AddPcd { d: if r.chance(30) { -(big(&st.pre_commit_deposits) / (1 + r.below(3) as i128)) - r.below(2) as i128 } else { gen_amount(r) } },
                    89..=92 => FOp::AddIp { d: if r.chance(30) { -(big(&st.initial_pledge) / (1 + r.below(3) as i128)) - r.below(2) as i128 } else { gen_amount(r) } },
                    _ => FOp::Balances { bal },
                }
            }
            None => pc.fops[i].clone(),
        };
        let backup = st.clone();
        let pre_tbl = raw_table(&st.vesting_funds, &store);
        let mut bad = vec![];
        let (coq, mut o, kind, code): (String, Vec<String>, &str, u32) = match &op {
            FOp::AddLocked { cur, sum, spec } => {
                let c = format!("FAddLocked {} {} {}", cf::z(cur), cf::z(sum), coq_spec(spec));
                match st.add_locked_funds(&store, *cur, &ta(*sum), &mk_spec(spec)) {
                    Ok(u) => (c, vec![cf::z(0), cf::z(u.atto())], "add_locked", 0),
                    Err(e) => { st = backup.clone(); (c, vec![cf::z(err_code(&e))], "add_locked", err_code(&e)) }
                }
            }
            FOp::UnlockVested { cur } => {
                let c = format!("FUnlockVested {}", cf::z(cur));
                match st.unlock_vested_funds(&store, *cur) {
                    Ok(u) => {
                        let expect = vested_before(&pre_tbl, *cur);
                        if u.atto() != &expect { bad.push(format!("unlock_vested_funds unlocked {} but {} had vested", u.atto(), expect)); }
                        (c, vec![cf::z(0), cf::z(u.atto())], "unlock_vested", 0)
                    }
                    Err(e) => { st = backup.clone(); (c, vec![cf::z(err_code(&e))], "unlock_vested", err_code(&e)) }
                }
            }
            FOp::UnlockBoth { cur, target } => {
                let c = format!("FUnlockBoth {} {}", cf::z(cur), cf::z(target));
                match st.unlock_vested_and_unvested_funds(&store, *cur, &ta(*target)) {
                    Ok((u, tot)) => {
                        if u.atto() > &BigInt::from(*target) { bad.push("unlocked more unvested funds than the target".into()); }
                        (c, vec![cf::z(0), cf::z(u.atto()), cf::z(tot.atto())], "unlock_both", 0)
                    }
                    Err(e) => { st = backup.clone(); (c, vec![cf::z(err_code(&e))], "unlock_both", err_code(&e)) }
                }
            }
            FOp::RepayPartial { cur, bal } => {
                let c = format!("FRepayPartial {} {}", cf::z(cur), cf::z(bal));
                match st.repay_partial_debt_in_priority_order(&store, *cur, &ta(*bal)) {
                    Ok((burn, tot)) => {
                        // monitor: unvested funds leave the table only up to the debt, and are burnt
                        let vested = vested_before(&pre_tbl, *cur);
                        let drawn = (tot.atto() - &vested).max(BigInt::zero());
                        if drawn > *backup.fee_debt.atto() { bad.push("drew more unvested funds than the fee debt".into()); }
                        if burn.atto() < &drawn.clone().min(backup.fee_debt.atto().clone()) && ta(*bal) >= &backup.locked_funds + &backup.pre_commit_deposits + &backup.initial_pledge {
                            bad.push("unvested funds unlocked for a penalty were not burnt".into());
                        }
                        if &st.fee_debt + &burn != backup.fee_debt { bad.push("fee debt not reduced exactly by the amount burnt".into()); }
                        (c, vec![cf::z(0), cf::z(burn.atto()), cf::z(tot.atto())], "repay_partial", 0)
                    }
                    Err(e) => { st = backup.clone(); (c, vec![cf::z(err_code(&e))], "repay_partial", err_code(&e)) }
                }
            }
            FOp::RepayDebts { bal } => {
                let c = format!("FRepayDebts {}", cf::z(bal));
                match st.repay_debts(&ta(*bal)) {
                    Ok(burn) => {
                        if !st.fee_debt.is_zero() || burn != backup.fee_debt { bad.push("repay_debts did not repay the whole debt".into()); }
                        (c, vec![cf::z(0), cf::z(burn.atto())], "repay_debts", 0)
                    }
                    Err(e) => { st = backup.clone(); (c, vec![cf::z(err_code(&e))], "repay_debts", err_code(&e)) }
                }
            }
            FOp::Penalty { p } => {
                let c = format!("FPenalty {}", cf::z(p));
                match st.apply_penalty(&ta(*p)) {
                    Ok(()) => (c, vec![cf::z(0)], "penalty", 0),
                    Err(e) => { st = backup.clone(); (c, vec![cf::z(err_code(&e))], "penalty", err_code(&e)) }
                }
            }
            FOp::AddPcd { d } => {
                let c = format!("FAddPcd {}", cf::z(d));
                match st.add_pre_commit_deposit(&ta(*d)) {
                    Ok(()) => (c, vec![cf::z(0)], "add_pcd", 0),
                    Err(e) => { st = backup.clone(); (c, vec![cf::z(err_code(&e))], "add_pcd", err_code(&e)) }
                }
            }
            FOp::AddIp { d } => {
                let c = format!("FAddIp {}", cf::z(d));
                match st.add_initial_pledge(&ta(*d)) {
                    Ok(()) => (c, vec![cf::z(0)], "add_ip", 0),
                    Err(e) => { st = backup.clone(); (c, vec![cf::z(err_code(&e))], "add_ip", err_code(&e)) }
                }
            }
            FOp::Balances { bal } => {
                let c = format!("FBalances {}", cf::z(bal));
                let mut o = vec![cf::z(0)];
                for r in [st.get_unlocked_balance(&ta(*bal)), st.get_available_balance(&ta(*bal))] {
                    match r {
                        Ok(x) => { o.push(cf::z(0)); o.push(cf::z(x.atto())); }
                        Err(e) => { o.push(cf::z(err_code(&e))); o.push(cf::z(0)); }
                    }
                }
                o.push(cf::z(st.check_balance_invariants(&ta(*bal)).is_ok() as u8));
                (c, o, "balances", 0)
            }
        };
        stats.op(kind, code);
        if code == 0 { acc = true } else { rej = true }
        // monitor: the table always sums to locked_funds
        let post_tbl = raw_table(&st.vesting_funds, &store);
        if tbl_sum(&post_tbl) != *st.locked_funds.atto() {
            bad.push(format!("vesting table sums to {} but locked_funds = {}", tbl_sum(&post_tbl), st.locked_funds.atto()));
        }
        bad.extend(wf_table(&post_tbl));
        done.push(op.clone());
        if !bad.is_empty() {
            fails.push(serde_json::json!({"class": "miner-state-funds", "step": i, "what": bad,
                "case": VCase { kind: "mstate".into(), pps: pc.pps, vops: vec![], fops: done.clone() }}));
        }
        o.extend([cf::z(st.locked_funds.atto()), cf::z(st.pre_commit_deposits.atto()), cf::z(st.initial_pledge.atto()), cf::z(st.fee_debt.atto())]);
        o.extend(tbl_obs(&st.vesting_funds, &store));
        steps.push((coq, o));
    }
    (Case { init: format!("(empty_funds {})", cf::z(pc.pps)), steps, nontrivial: acc && rej },
     VCase { kind: "mstate".into(), pps: pc.pps, vops: vec![], fops: done }, fails)
}

fn main() {
    let a = cf::parse_args();
    let mut vstats = Stats::default();
    let mut fstats = Stats::default();
    let vheader = "From VF Require Import Model.Vesting Base.Corr.\nFrom Coq Require Import ZArith List.\nImport ListNotations.\nOpen Scope Z_scope.\n";
    let fheader = "From VF Require Import Model.Vesting Model.MinerFunds Base.Corr.\nFrom Coq Require Import ZArith List.\nImport ListNotations.\nOpen Scope Z_scope.\n";
    let mut vw = CaseWriter::new(&a.out, vheader, "Vesting.check_case", a.shards);
    let mut fw = CaseWriter::new(&a.out, fheader, "fcheck_case", a.shards);
    // the constants the generated Coq file claims, against the compiled crate
    let s = real_spec();
    vstats.extra.insert("reward_vesting_spec_compiled".into(), serde_json::json!(s));
    let run_one = |pc: &VCase, vstats: &mut Stats, fstats: &mut Stats, vw: &mut CaseWriter, fw: &mut CaseWriter, genr: Option<(&mut Prng, usize)>| {
        if pc.kind == "vesting" {
            let (c, _, fails) = run_vesting(pc, vstats, genr);
            vw.push(c);
            for f in fails { vstats.monitor_fail(f); }
        } else {
            let (c, _, fails) = run_mstate(pc, fstats, genr);
            fw.push(c);
            for f in fails { fstats.monitor_fail(f); }
        }
    };
    if let Some(p) = &a.replay {
        let v: serde_json::Value = serde_json::from_str(&std::fs::read_to_string(p).unwrap()).unwrap();
        let cv = if v.get("case").is_some() { v["case"].clone() } else { v["violation"]["detail"]["case"].clone() };
        if let Ok(pc) = serde_json::from_value::<VCase>(cv) {
            run_one(&pc, &mut vstats, &mut fstats, &mut vw, &mut fw, None);
        }
        vw.finish(&vstats, "vesting");
        fw.finish(&fstats, "mstate");
        return;
    }
    let corpus = std::path::Path::new(env!("CARGO_MANIFEST_DIR")).join("../corpus/C14");
    if let Ok(rd) = std::fs::read_dir(&corpus) {
        let mut files: Vec<_> = rd.filter_map(|e| e.ok()).map(|e| e.path()).collect();
        files.sort();
        for f in files {
            if f.extension().map(|x| x == "json").unwrap_or(false) {
                let v: serde_json::Value = serde_json::from_str(&std::fs::read_to_string(&f).unwrap()).unwrap();
                if let Ok(pc) = serde_json::from_value::<VCase>(v["case"].clone()) {
                    run_one(&pc, &mut vstats, &mut fstats, &mut vw, &mut fw, None);
                }
            }
        }
    }
    let mut root = Prng::new(a.seed);
    for k in 0..a.cases {
        let mut r = root.fork(k as u64);
        let pps = match r.below(4) { 0 => 0, 1 => r.range(0, 2879), 2 => r.range(-2880, 0), _ => r.range(0, 100_000) };
        let kind = if k % 2 == 0 { "vesting" } else { "mstate" };
        let pc = VCase { kind: kind.into(), pps, vops: vec![], fops: vec![] };
        run_one(&pc, &mut vstats, &mut fstats, &mut vw, &mut fw, Some((&mut r, a.len)));
    }
    vw.finish(&vstats, "vesting");
    fw.finish(&fstats, "mstate");
}
