//! C14 actor-level correspondence + monitor harness: a REAL miner actor created through the real
//! Power::CreateMiner path (creation deposit left in the vesting table), on the harness VM, against
//! `step` of coq/Model/MinerFunds.v.  Rewards/penalties arrive as ApplyRewards messages from the reward
//! actor, the deadline cron as OnDeferredCronEvent from the power actor.
use fil_actor_miner::{
    ApplyRewardParams, ChangeBeneficiaryParams, CronEventPayload, DeferredCronEventParams,
    GetAvailableBalanceReturn, GetVestingFundsReturn, Method as MinerMethod, State as MinerState, VestingFund,
    VestingFunds, WithdrawBalanceParams, WithdrawBalanceReturn, CRON_EVENT_PROVING_DEADLINE,
};
use fil_actor_power::{CreateMinerParams, CreateMinerReturn, Method as PowerMethod, State as PowerState, UpdatePledgeTotalParams};
use fil_actors_runtime::reward::FilterEstimate;
use fil_actors_runtime::{REWARD_ACTOR_ADDR, STORAGE_POWER_ACTOR_ADDR};
use fvm_ipld_bitfield::BitField;
use fvm_ipld_blockstore::Blockstore;
use fvm_ipld_encoding::{BytesDe, CborStore};
use fvm_shared::address::Address;
use fvm_shared::bigint::BigInt;
use fvm_shared::econ::TokenAmount;
use fvm_shared::sector::RegisteredPoStProof;
use fvm_shared::METHOD_SEND;
use num_traits::{Signed, Zero};
use serde::{Deserialize, Serialize};
use vharness::coqfmt::{self as cf, Case, CaseWriter, Stats};
use vharness::prng::Prng;
use vharness::util::*;
use vharness::vvm::Vvm;
use vm_api::trace::InvocationTrace;
use vm_api::util::{get_state, mutate_state, DynBlockstore};
use vm_api::VM;

mod s128 {
    use serde::{Deserialize, Deserializer, Serializer};
    pub fn serialize<S: Serializer>(x: &i128, s: S) -> Result<S::Ok, S::Error> {
        s.serialize_str(&x.to_string())
    }
    pub fn deserialize<'de, D: Deserializer<'de>>(d: D) -> Result<i128, D::Error> {
        let s = String::deserialize(d)?;
        s.parse().map_err(serde::de::Error::custom)
    }
}

// party indices: 0 owner, 1 worker, 2 beneficiary candidate A, 3 candidate B, 4 stranger,
//                5 reward actor, 6 power actor
const OWNER: u8 = 0;
const WORKER: u8 = 1;
const REWARD: u8 = 5;
const POWER: u8 = 6;

#[derive(Clone, Debug, Serialize, Deserialize)]
enum MOp {
    ApplyRewards { from: u8, dt: i64, #[serde(with = "s128")] value: i128, #[serde(with = "s128")] reward: i128, #[serde(with = "s128")] penalty: i128 },
    Withdraw { from: u8, dt: i64, #[serde(with = "s128")] value: i128, #[serde(with = "s128")] requested: i128 },
    RepayDebt { from: u8, dt: i64, #[serde(with = "s128")] value: i128 },
    ChangeBenef { from: u8, dt: i64, newb: Option<u8>, #[serde(with = "s128")] quota: i128, expiration: i64 },
    Cron { from: u8, dt: i64 },
    Deposit { #[serde(with = "s128")] amt: i128 },
    AddPcd { #[serde(with = "s128")] d: i128 },
    AddIp { #[serde(with = "s128")] d: i128 },
    SetEarlyTerm { b: bool },
}

#[derive(Clone, Debug, Serialize, Deserialize)]
struct MCase {
    create_epoch: i64,
    #[serde(with = "s128")]
    extra: i128,
    /// raise the network pledge total first so that finding F1 does not block the history
    pad: bool,
    ops: Vec<MOp>,
}

struct World {
    v: Vvm,
    parties: Vec<Address>, // id addresses, by party index
    funder: Address,
    miner: Address,
}

const FIL: i128 = 1_000_000_000_000_000_000;

fn ta(x: i128) -> TokenAmount {
    TokenAmount::from_atto(x)
}
fn big(x: &TokenAmount) -> i128 {
    x.atto().try_into().unwrap_or(i128::MAX / 8)
}

/// the real Power::CreateMiner path, nothing erased afterwards
fn create_miner_faithful(v: &Vvm, owner: &Address, worker: &Address, extra: &TokenAmount) -> (Address, TokenAmount) {
    let deposit = fil_actors_integration_tests::util::create_miner_deposit_for_test(v);
    let params = CreateMinerParams {
        owner: *owner,
        worker: *worker,
        window_post_proof_type: RegisteredPoStProof::StackedDRGWindow32GiBV1P1,
        peer: b"miner".to_vec(),
        multiaddrs: vec![BytesDe(b"multiaddr".to_vec())],
    };
    let value = &deposit + extra;
    let r = exec(v, owner, &STORAGE_POWER_ACTOR_ADDR, &value, PowerMethod::CreateMiner as u64, Some(params));
    assert_eq!(code(&r), 0, "CreateMiner failed: {}", r.message);
    let ret: CreateMinerReturn = r.ret.unwrap().deserialize().unwrap();
    (ret.id_address, deposit)
}

fn setup(pc: &MCase, stats: &mut Stats) -> World {
    let v = new_world();
    let accts = fil_actors_integration_tests::util::create_accounts(&v, 6, &TokenAmount::from_whole(100_000));
    v.set_epoch(pc.create_epoch);
    let (miner, deposit) = create_miner_faithful(&v, &accts[0], &accts[1], &ta(pc.extra));
    let st: MinerState = get_state(&v, &miner).unwrap();
    assert_eq!(st.locked_funds, deposit, "creation deposit not locked");
    let pst: PowerState = get_state(&v, &STORAGE_POWER_ACTOR_ADDR).unwrap();
    if !pst.total_pledge_collateral.is_zero() {
        *stats.extra.entry("power_total_pledge_nonzero_after_create".into()).or_insert(serde_json::json!(0)) = serde_json::json!(1);
    }
    if pc.pad {
        // UpdatePledgeTotal(+1e9 FIL) from the miner actor itself (it has a claim)
        let r = exec(&v, &miner, &STORAGE_POWER_ACTOR_ADDR, &TokenAmount::zero(), PowerMethod::UpdatePledgeTotal as u64,
            Some(UpdatePledgeTotalParams { pledge_delta: TokenAmount::from_whole(1_000_000_000i64) }));
        assert_eq!(code(&r), 0, "padding UpdatePledgeTotal failed: {}", r.message);
        let e = stats.extra.entry("histories_with_padded_network_pledge_total".into()).or_insert(serde_json::json!(0));
        *e = serde_json::json!(e.as_u64().unwrap() + 1);
    } else {
        let e = stats.extra.entry("histories_without_padding".into()).or_insert(serde_json::json!(0));
        *e = serde_json::json!(e.as_u64().unwrap() + 1);
    }
    v.take_invocations();
    let mut parties: Vec<Address> = accts[0..5].to_vec();
    parties.push(REWARD_ACTOR_ADDR);
    parties.push(STORAGE_POWER_ACTOR_ADDR);
    World { v, parties, funder: accts[5], miner }
}

#[derive(Clone, Debug)]
struct Snap {
    bal: TokenAmount,
    locked: TokenAmount,
    pcd: TokenAmount,
    ip: TokenAmount,
    fee_debt: TokenAmount,
    owner: u64,
    benef: u64,
    quota: TokenAmount,
    used: TokenAmount,
    expiration: i64,
    pending: Option<(u64, TokenAmount, i64, bool, bool)>,
    early: bool,
    table: Vec<(i64, BigInt)>,
    loaded_len: usize,
    pps: i64,
}

fn raw_table(vf: &VestingFunds, store: &dyn Blockstore) -> Vec<(i64, BigInt)> {
    let bytes = fvm_ipld_encoding::to_vec(vf).unwrap();
    let inner: Option<(VestingFund, cid::Cid)> = fvm_ipld_encoding::from_slice(&bytes).unwrap();
    match inner {
        None => vec![],
        Some((head, tail)) => {
            let ds = DynBlockstore::wrap(store);
            let tl: Vec<VestingFund> = ds.get_cbor(&tail).unwrap().unwrap();
            let mut v = vec![(head.epoch, head.amount.atto().clone())];
            v.extend(tl.into_iter().map(|f| (f.epoch, f.amount.atto().clone())));
            v
        }
    }
}
fn tbl_hash(t: &[(i64, BigInt)]) -> BigInt {
    let mut h = BigInt::zero();
    for (k, (e, a)) in t.iter().enumerate() {
        let i = BigInt::from(k as u64 + 1);
        let w: BigInt = &i * &i * BigInt::from(1000003) + &i;
        h += w * (a + BigInt::from(7919) * BigInt::from(*e));
    }
    h
}
fn tbl_sum(t: &[(i64, BigInt)]) -> BigInt {
    t.iter().map(|x| x.1.clone()).sum()
}
fn vested_before(t: &[(i64, BigInt)], cur: i64) -> BigInt {
    t.iter().filter(|x| x.0 < cur).map(|x| x.1.clone()).sum()
}

fn snapshot(w: &World) -> Snap {
    let st: MinerState = get_state(&w.v, &w.miner).unwrap();
    let ds = DynBlockstore::wrap(w.v.blockstore());
    let info = st.get_info(&ds).unwrap();
    let table = raw_table(&st.vesting_funds, w.v.blockstore());
    let loaded_len = st.vesting_funds.load(&ds).unwrap().len();
    Snap {
        bal: w.v.balance(&w.miner),
        locked: st.locked_funds.clone(),
        pcd: st.pre_commit_deposits.clone(),
        ip: st.initial_pledge.clone(),
        fee_debt: st.fee_debt.clone(),
        owner: info.owner.id().unwrap(),
        benef: info.beneficiary.id().unwrap(),
        quota: info.beneficiary_term.quota.clone(),
        used: info.beneficiary_term.used_quota.clone(),
        expiration: info.beneficiary_term.expiration,
        pending: info.pending_beneficiary_term.as_ref().map(|p| {
            (p.new_beneficiary.id().unwrap(), p.new_quota.clone(), p.new_expiration, p.approved_by_beneficiary, p.approved_by_nominee)
        }),
        early: !st.early_terminations.is_empty(),
        table,
        loaded_len,
        pps: st.proving_period_start,
    }
}

struct Exec {
    code: u32,
    ret: TokenAmount,
    /// (to, method, value, pledge delta) of the direct sub-calls of a successful message
    sends: Vec<(u64, u64, TokenAmount, TokenAmount)>,
    upt: u32,
    enr: u32,
    upt_failed: bool,
}

fn analyse(w: &World, code: u32, ret: TokenAmount, tr: Option<&InvocationTrace>) -> Exec {
    let mut e = Exec { code, ret, sends: vec![], upt: 0, enr: 0, upt_failed: false };
    if let Some(t) = tr {
        for s in &t.subinvocations {
            let to = w.v.resolve_id_address(&s.to).map(|a| a.id().unwrap()).unwrap_or(u64::MAX);
            let mut delta = TokenAmount::zero();
            if s.to == STORAGE_POWER_ACTOR_ADDR && s.method == PowerMethod::UpdatePledgeTotal as u64 {
                let p: UpdatePledgeTotalParams = s.params.as_ref().unwrap().deserialize().unwrap();
                delta = p.pledge_delta;
                e.upt = s.exit_code.value();
                if !s.exit_code.is_success() { e.upt_failed = true }
            }
            if s.to == STORAGE_POWER_ACTOR_ADDR && s.method == PowerMethod::EnrollCronEvent as u64 {
                e.enr = s.exit_code.value();
            }
            if code == 0 {
                e.sends.push((to, s.method, s.value.clone(), delta));
            }
        }
    }
    e
}

fn run_op(w: &World, op: &MOp, epoch: &mut i64) -> Exec {
    let v = &w.v;
    v.take_invocations();
    let (code_, ret) = match op {
        MOp::ApplyRewards { from, dt, value, reward, penalty } => {
            *epoch += dt;
            v.set_epoch(*epoch);
            let r = exec(v, &w.parties[*from as usize], &w.miner, &ta(*value), MinerMethod::ApplyRewards as u64,
                Some(ApplyRewardParams { reward: ta(*reward), penalty: ta(*penalty) }));
            (code(&r), TokenAmount::zero())
        }
        MOp::Withdraw { from, dt, value, requested } => {
            *epoch += dt;
            v.set_epoch(*epoch);
            let r = exec(v, &w.parties[*from as usize], &w.miner, &ta(*value), MinerMethod::WithdrawBalance as u64,
                Some(WithdrawBalanceParams { amount_requested: ta(*requested) }));
            let ret = if code(&r) == 0 {
                let x: WithdrawBalanceReturn = r.ret.clone().unwrap().deserialize().unwrap();
                x.amount_withdrawn
            } else { TokenAmount::zero() };
            (code(&r), ret)
        }
        MOp::RepayDebt { from, dt, value } => {
            *epoch += dt;
            v.set_epoch(*epoch);
            let r = exec::<()>(v, &w.parties[*from as usize], &w.miner, &ta(*value), MinerMethod::RepayDebt as u64, None);
            (code(&r), TokenAmount::zero())
        }
        MOp::ChangeBenef { from, dt, newb, quota, expiration } => {
            *epoch += dt;
            v.set_epoch(*epoch);
            let nb = match newb { Some(i) => w.parties[*i as usize], None => Address::new_secp256k1(&[7u8; 65]).unwrap() };
            let r = exec(v, &w.parties[*from as usize], &w.miner, &TokenAmount::zero(), MinerMethod::ChangeBeneficiary as u64,
                Some(ChangeBeneficiaryParams { new_beneficiary: nb, new_quota: ta(*quota), new_expiration: *expiration }));
            (code(&r), TokenAmount::zero())
        }
        MOp::Cron { from, dt } => {
            *epoch += dt;
            v.set_epoch(*epoch);
            let payload = fvm_ipld_encoding::to_vec(&CronEventPayload { event_type: CRON_EVENT_PROVING_DEADLINE }).unwrap();
            let params = DeferredCronEventParams {
                event_payload: payload,
                reward_smoothed: FilterEstimate::default(),
                quality_adj_power_smoothed: FilterEstimate::default(),
            };
            let r = exec(v, &w.parties[*from as usize], &w.miner, &TokenAmount::zero(), MinerMethod::OnDeferredCronEvent as u64, Some(params));
            (code(&r), TokenAmount::zero())
        }
        MOp::Deposit { amt } => {
            if *amt < 0 { (16, TokenAmount::zero()) } else {
                let r = exec::<()>(v, &w.funder, &w.miner, &ta(*amt), METHOD_SEND, None);
                (code(&r), TokenAmount::zero())
            }
        }
        // ---- hooks: ledger effects of handlers that are outside C14, applied with the real State methods ----
        MOp::AddPcd { d } => {
            let st: MinerState = get_state(v, &w.miner).unwrap();
            let c = match st.get_available_balance(&v.balance(&w.miner)) {
                Err(_) => 20,
                Ok(av) if av < ta(*d) => 19,
                Ok(_) => {
                    let mut c = 0;
                    mutate_state(v, &w.miner, |st: &mut MinerState| { if st.add_pre_commit_deposit(&ta(*d)).is_err() { c = 20 } });
                    c
                }
            };
            (c, TokenAmount::zero())
        }
        MOp::AddIp { d } => {
            let st: MinerState = get_state(v, &w.miner).unwrap();
            let c = match st.get_unlocked_balance(&v.balance(&w.miner)) {
                Err(_) => 20,
                Ok(ub) if ub < ta(*d) => 19,
                Ok(_) => {
                    let mut c = 0;
                    mutate_state(v, &w.miner, |st: &mut MinerState| { if st.add_initial_pledge(&ta(*d)).is_err() { c = 20 } });
                    c
                }
            };
            (c, TokenAmount::zero())
        }
        MOp::SetEarlyTerm { b } => {
            mutate_state(v, &w.miner, |st: &mut MinerState| {
                st.early_terminations = BitField::new();
                if *b { st.early_terminations.set(0) }
            });
            (0, TokenAmount::zero())
        }
    };
    let inv = v.take_invocations();
    let top = inv.iter().find(|t| t.to == w.miner);
    analyse(w, code_, ret, top)
}

// ---------- Gallina printing ----------
fn id_of(w: &World, who: u8) -> u64 {
    w.parties[who as usize].id().unwrap()
}
fn coq_op(w: &World, op: &MOp, epoch: i64, x: &Exec) -> String {
    match op {
        MOp::ApplyRewards { from, value, reward, penalty, .. } => format!(
            "ApplyRewards {} {} {} {} {} {}", id_of(w, *from), cf::z(epoch), cf::z(value), cf::z(reward), cf::z(penalty), x.upt),
        MOp::Withdraw { from, value, requested, .. } => format!(
            "Withdraw {} {} {} {} {}", id_of(w, *from), cf::z(epoch), cf::z(value), cf::z(requested), x.upt),
        MOp::RepayDebt { from, value, .. } => format!("RepayDebt {} {} {} {}", id_of(w, *from), cf::z(epoch), cf::z(value), x.upt),
        MOp::ChangeBenef { from, newb, quota, expiration, .. } => format!(
            "ChangeBenef {} {} 0 {} {} {}", id_of(w, *from), cf::z(epoch),
            match newb { Some(i) => format!("(Some {})", id_of(w, *i)), None => "None".into() }, cf::z(quota), cf::z(expiration)),
        MOp::Cron { from, .. } => format!("Cron {} {} 0 {} {}", id_of(w, *from), cf::z(epoch), x.upt, x.enr),
        MOp::Deposit { amt } => format!("Deposit {}", cf::z(amt)),
        MOp::AddPcd { d } => format!("AddPcd {}", cf::z(d)),
        MOp::AddIp { d } => format!("AddIp {}", cf::z(d)),
        MOp::SetEarlyTerm { b } => format!("SetEarlyTerm {}", cf::b(*b)),
    }
}

fn obs(w: &World, s: &Snap, x: &Exec) -> Vec<String> {
    let mut o = vec![
        cf::z(x.code), cf::z(x.ret.atto()), cf::z(s.bal.atto()), cf::z(s.locked.atto()), cf::z(s.pcd.atto()),
        cf::z(s.ip.atto()), cf::z(s.fee_debt.atto()), cf::z(s.benef), cf::z(s.quota.atto()), cf::z(s.used.atto()),
        cf::z(s.expiration),
    ];
    match &s.pending {
        None => o.extend((0..6).map(|_| cf::z(0))),
        Some((n, q, e, b, m)) => o.extend([cf::z(1), cf::z(n), cf::z(q.atto()), cf::z(e), cf::z(*b as u8), cf::z(*m as u8)]),
    }
    o.push(cf::z(s.early as u8));
    // GetAvailableBalance and GetVestingFunds through the real exported methods
    let stranger = &w.parties[4];
    let r = exec::<()>(&w.v, stranger, &w.miner, &TokenAmount::zero(), MinerMethod::GetAvailableBalanceExported as u64, None);
    if code(&r) == 0 {
        let a: GetAvailableBalanceReturn = r.ret.unwrap().deserialize().unwrap();
        o.push(cf::z(0));
        o.push(cf::z(a.available_balance.atto()));
    } else {
        o.push(cf::z(code(&r)));
        o.push(cf::z(0));
    }
    let r = exec::<()>(&w.v, stranger, &w.miner, &TokenAmount::zero(), MinerMethod::GetVestingFundsExported as u64, None);
    let vfr: GetVestingFundsReturn = r.ret.unwrap().deserialize().unwrap();
    let listed: Vec<(i64, BigInt)> = vfr.vesting_funds.iter().map(|(e, a)| (*e, a.atto().clone())).collect();
    o.push(cf::z(tbl_hash(&listed)));
    o.push(cf::z(x.sends.len()));
    for (to, m, v, d) in &x.sends {
        o.extend([cf::z(to), cf::z(m), cf::z(v.atto()), cf::z(d.atto())]);
    }
    o.extend([cf::z(s.table.len()), cf::z(tbl_sum(&s.table)), cf::z(tbl_hash(&s.table)), cf::z(s.loaded_len)]);
    for (e, a) in s.table.iter().take(8) {
        o.push(cf::z(e));
        o.push(cf::z(a));
    }
    w.v.take_invocations();
    o
}

// ---------- monitor: the clauses of C14 evaluated on the implementation's own states and traces ----------
fn monitor(w: &World, op: &MOp, epoch: i64, pre: &Snap, post: &Snap, x: &Exec, padded: bool) -> Vec<(String, String)> {
    let mut bad: Vec<(String, String)> = vec![];
    let mut fail = |c: &str, m: String| bad.push((c.to_string(), m));
    // the table always sums to locked_funds, is sorted, has no negative entry
    if tbl_sum(&post.table) != *post.locked.atto() {
        fail("table-sum", format!("vesting table sums to {} but locked_funds = {}", tbl_sum(&post.table), post.locked.atto()));
    }
    if post.table.windows(2).any(|p| p[0].0 > p[1].0) || post.table.iter().any(|e| e.1.is_negative()) {
        fail("table-sum", "vesting table unsorted or with a negative entry".into());
    }
    if x.code != 0 {
        if x.upt_failed {
            // known finding F1 only explains this on a network whose pledge total was NOT padded
            let class = if padded { "pledge-update-rejected-on-padded-network" } else { "F1-pledge-total-negative" };
            fail(class, format!("power actor rejected UpdatePledgeTotal with {} -> message failed with {}", x.upt, x.code));
        }
        if post.bal != pre.bal || post.locked != pre.locked || post.fee_debt != pre.fee_debt || post.table != pre.table
            || post.used != pre.used || post.benef != pre.benef || post.pcd != pre.pcd || post.ip != pre.ip {
            fail("rejected-changed-state", "a rejected message changed the miner's funds".into());
        }
        return bad;
    }
    // solvency (check_balance_invariants) after every accepted operation
    if post.bal < &post.locked + &post.pcd + &post.ip || post.locked.is_negative() || post.pcd.is_negative()
        || post.ip.is_negative() || post.fee_debt.is_negative() {
        fail("insolvent", format!("balance {} < locked {} + pcd {} + ip {}", post.bal.atto(), post.locked.atto(), post.pcd.atto(), post.ip.atto()));
    }
    let vested = TokenAmount::from_atto(vested_before(&pre.table, epoch));
    let unvested_pre: BigInt = pre.table.iter().filter(|e| e.0 >= epoch).map(|e| e.1.clone()).sum();
    let unvested_post: BigInt = post.table.iter().filter(|e| e.0 >= epoch).map(|e| e.1.clone()).sum();
    let burnt: TokenAmount = x.sends.iter().filter(|s| s.0 == 99).map(|s| s.2.clone()).sum();
    match op {
        MOp::Withdraw { from, value, requested, .. } => {
            let caller = id_of(w, *from);
            let paid = x.ret.clone();
            if caller != pre.owner && caller != pre.benef { fail("withdraw-caller", format!("withdrawal requested by {} (owner {}, beneficiary {})", caller, pre.owner, pre.benef)); }
            if pre.early { fail("withdraw-early-terminations", "withdrawal while early terminations are pending".into()); }
            if paid > ta(*requested) || paid.is_negative() { fail("withdraw-bound", "paid more than requested".into()); }
            let bound = &pre.bal + ta(*value) - &post.locked - &pre.pcd - &pre.ip - &pre.fee_debt;
            if paid > bound { fail("withdraw-bound", format!("paid {} > balance - locked - pcd - ip - fee_debt = {}", paid.atto(), bound.atto())); }
            if pre.benef != pre.owner {
                if epoch >= pre.expiration { fail("withdraw-quota", "withdrawal after the beneficiary term expired".into()); }
                if paid > &pre.quota - &pre.used { fail("withdraw-quota", "paid more than the remaining quota".into()); }
                if post.used != &pre.used + &paid { fail("withdraw-quota", "used_quota not advanced by the amount paid".into()); }
            }
            if !post.fee_debt.is_zero() || burnt != pre.fee_debt { fail("withdraw-debt", "fee debt not repaid in full by the withdrawal".into()); }
            // payee: exactly one value transfer to the beneficiary, of the amount returned
            let to_benef: TokenAmount = x.sends.iter().filter(|s| s.0 == pre.benef).map(|s| s.2.clone()).sum();
            if to_benef != paid { fail("withdraw-payee", "beneficiary did not receive exactly the amount returned".into()); }
            for s in &x.sends {
                let ok = s.0 == pre.benef || s.0 == 99 || (s.0 == 4 && s.2.is_zero());
                if !ok { fail("withdraw-payee", format!("value sent to {} during a withdrawal", s.0)); }
            }
            if post.bal != &pre.bal + ta(*value) - &paid - &burnt { fail("withdraw-bound", "balance changed by more than paid + burnt".into()); }
            // vesting: exactly what has vested unlocks
            if &pre.locked - &post.locked != vested || unvested_pre != unvested_post { fail("early-unlock", "withdrawal unlocked funds that had not vested".into()); }
        }
        MOp::ApplyRewards { .. } | MOp::RepayDebt { .. } | MOp::Cron { .. } => {
            let (added, pen) = match op {
                MOp::ApplyRewards { reward, penalty, .. } => (ta((*reward * 3).div_euclid(4)), ta(*penalty)),
                _ => (TokenAmount::zero(), TokenAmount::zero()),
            };
            let drawn = TokenAmount::from_atto(&unvested_pre + added.atto() - &unvested_post);
            let debt = &pre.fee_debt + &pen;
            if drawn.is_negative() { fail("locked-conserved", "more locked than was added".into()); }
            if drawn > debt { fail("early-unlock", format!("{} unvested funds unlocked, more than the fee debt {}", drawn.atto(), debt.atto())); }
            if drawn > burnt { fail("early-unlock", "unvested funds unlocked for a penalty were not burnt".into()); }
            if &post.fee_debt + &burnt != debt { fail("penalty-accounting", "fee debt + burnt != previous debt + penalty".into()); }
            if &pre.locked + &added - &post.locked > &vested + &drawn { fail("early-unlock", "locked funds fell by more than vested + drawn for debt".into()); }
            for s in &x.sends {
                let ok = s.0 == 99 || (s.0 == 4 && s.2.is_zero());
                if !ok { fail("penalty-accounting", format!("value sent to {} by a reward/penalty/cron message", s.0)); }
            }
        }
        _ => {
            if post.locked != pre.locked || post.table != pre.table { fail("early-unlock", "vesting table changed by an unrelated operation".into()); }
        }
    }
    bad
}

fn kind(op: &MOp) -> &'static str {
    match op {
        MOp::ApplyRewards { .. } => "apply_rewards",
        MOp::Withdraw { .. } => "withdraw",
        MOp::RepayDebt { .. } => "repay_debt",
        MOp::ChangeBenef { .. } => "change_beneficiary",
        MOp::Cron { .. } => "deadline_cron",
        MOp::Deposit { .. } => "deposit",
        MOp::AddPcd { .. } => "hook_add_pcd",
        MOp::AddIp { .. } => "hook_add_ip",
        MOp::SetEarlyTerm { .. } => "hook_early_term",
    }
}

// ---------- generator ----------
fn gen_dt(r: &mut Prng) -> i64 {
    match r.below(100) {
        0..=14 => 0,
        15..=29 => r.range(1, 20),
        30..=49 => r.range(120, 1440),
        50..=69 => r.range(1440, 2 * 2880),
        70..=84 => r.range(2 * 2880, 10 * 2880),
        85..=94 => r.range(10 * 2880, 60 * 2880),
        _ => r.range(60 * 2880, 200 * 2880),
    }
}
fn gen_amt(r: &mut Prng, around: i128) -> i128 {
    match r.below(10) {
        0 => 0,
        1 => 1 + r.below(1000) as i128,
        2 | 3 => around + r.range(-2, 2) as i128,
        4 | 5 => around / (1 + r.below(10) as i128),
        6 => around * (1 + r.below(4) as i128),
        _ => (FIL / 1000) * (r.below(200_000) as i128),
    }
    .max(0)
}

fn gen_op(r: &mut Prng, s: &Snap, epoch: i64) -> MOp {
    let avail = big(&s.bal) - big(&s.locked) - big(&s.pcd) - big(&s.ip) - big(&s.fee_debt);
    let dt = gen_dt(r);
    match r.below(100) {
        0..=29 => {
            let reward = match r.below(10) { 0 => 0, 1 => r.below(5) as i128, 2 => -1, _ => gen_amt(r, 20 * FIL) };
            let value = match r.below(10) { 0 => 0, 1 => reward.max(0) / 2, 2 => reward.max(0) * 2, _ => reward.max(0) };
            let penalty = match r.below(100) {
                0..=49 => 0,
                50..=59 => gen_amt(r, FIL),
                60..=69 => gen_amt(r, reward.max(0)),
                70..=79 => gen_amt(r, big(&s.locked)),
                80..=89 => gen_amt(r, avail.max(0)),
                90..=96 => gen_amt(r, big(&s.bal) + reward.max(0)) + r.below(3) as i128 * FIL,
                _ => -1,
            };
            let from = if r.chance(92) { REWARD } else { *r.pick(&[OWNER, 4u8, POWER]) };
            let value = if from == REWARD { value } else if from == POWER { 0 } else { value.min(500 * FIL) };
            MOp::ApplyRewards { from, dt, value, reward, penalty }
        }
        30..=56 => {
            let from = match r.below(100) { 0..=44 => OWNER, 45..=79 => 200, 80..=86 => 2, 87..=92 => 3, 93..=96 => WORKER, _ => 4 };
            let requested = match r.below(100) {
                0..=29 => avail.max(0) + r.range(-2, 2) as i128,
                30..=49 => i128::MAX / 16,
                50..=64 => avail.max(0) / (1 + r.below(8) as i128),
                65..=79 => gen_amt(r, big(&s.quota) - big(&s.used)),
                80..=89 => gen_amt(r, FIL),
                90..=96 => 0,
                _ => -1 - r.below(5) as i128,
            };
            let value = if r.chance(92) { 0 } else { gen_amt(r, big(&s.fee_debt)).min(500 * FIL) };
            MOp::Withdraw { from, dt, value, requested: requested.max(-10), }
        }
        57..=64 => {
            let from = match r.below(10) { 0..=4 => OWNER, 5..=7 => WORKER, 8 => 2, _ => 4 };
            let value = if r.chance(60) { 0 } else { gen_amt(r, big(&s.fee_debt)).min(500 * FIL) };
            MOp::RepayDebt { from, dt, value }
        }
        65..=79 => {
            // state-aware: follow an open proposal most of the time
            match &s.pending {
                Some((n, q, e, by_ben, by_nom)) if r.chance(80) => {
                    let from = if !*by_nom && (r.chance(50) || *by_ben) { 201 } else if !*by_ben { 200 } else { 4 };
                    let (q2, e2) = if r.chance(88) { (big(q), *e) } else { (big(q) + 1, *e + r.range(0, 1)) };
                    let _ = n;
                    MOp::ChangeBenef { from, dt, newb: Some(202), quota: q2, expiration: e2 }
                }
                _ => {
                    let newb = match r.below(100) { 0..=39 => Some(2u8), 40..=69 => Some(3), 70..=89 => Some(OWNER), 90..=95 => Some(4), _ => None };
                    let (quota, expiration) = if newb == Some(OWNER) && r.chance(85) { (0, 0) } else {
                        (match r.below(6) { 0 => 0, 1 => -1, _ => gen_amt(r, avail.max(FIL)) },
                         match r.below(6) { 0 => 0, 1 => epoch - r.range(0, 10), 2 => epoch + r.range(1, 2000), _ => epoch + r.range(2000, 400 * 2880) })
                    };
                    let from = if r.chance(88) { OWNER } else { *r.pick(&[2u8, 3, 4, WORKER]) };
                    MOp::ChangeBenef { from, dt, newb, quota, expiration }
                }
            }
        }
        80..=87 => MOp::Cron { from: if r.chance(93) { POWER } else { *r.pick(&[OWNER, 4u8, REWARD]) }, dt },
        88..=90 => MOp::Deposit { amt: if r.chance(95) { gen_amt(r, 10 * FIL) } else { -1 } },
        91..=93 => MOp::AddPcd { d: if r.chance(25) { -(big(&s.pcd) / (1 + r.below(3) as i128)) - r.below(2) as i128 } else { gen_amt(r, avail.max(0)) } },
        94..=96 => MOp::AddIp { d: if r.chance(25) { -(big(&s.ip) / (1 + r.below(3) as i128)) - r.below(2) as i128 } else { gen_amt(r, avail.max(0)) } },
        _ => MOp::SetEarlyTerm { b: !s.early && r.chance(70) },
    }
}

/// replaces the symbolic parties 200 (current beneficiary), 201 (nominee of the open proposal),
/// 202 (the proposed address) by concrete party indices
fn concretise(w: &World, s: &Snap, op: MOp) -> MOp {
    let idx = |id: u64| -> u8 { w.parties.iter().position(|a| a.id().unwrap() == id).map(|x| x as u8).unwrap_or(OWNER) };
    let fix = |p: u8| -> u8 {
        match p {
            200 => idx(s.benef),
            201 | 202 => s.pending.as_ref().map(|x| idx(x.0)).unwrap_or(2),
            x => x,
        }
    };
    match op {
        MOp::Withdraw { from, dt, value, requested } => MOp::Withdraw { from: fix(from), dt, value, requested },
        MOp::ChangeBenef { from, dt, newb, quota, expiration } => MOp::ChangeBenef { from: fix(from), dt, newb: newb.map(fix), quota, expiration },
        o => o,
    }
}

fn run_case(pc: &MCase, stats: &mut Stats, genr: Option<(&mut Prng, usize)>) -> (Case, MCase, Vec<serde_json::Value>) {
    let w = setup(pc, stats);
    let mut snap = snapshot(&w);
    let init = format!(
        "init {} {} {} {} {} {}",
        cf::z(snap.bal.atto()), cf::z(snap.locked.atto()), cf::z(pc.create_epoch), cf::z(snap.pps), id_of(&w, OWNER), id_of(&w, WORKER)
    );
    let mut steps = vec![];
    let mut ops_done = vec![];
    let mut fails = vec![];
    let (mut acc, mut rej) = (false, false);
    let mut epoch = pc.create_epoch;
    let mut genr = genr;
    let n = match &genr { Some((_, n)) => *n, None => pc.ops.len() };
    for i in 0..n {
        let op = match &mut genr { Some((r, _)) => concretise(&w, &snap, gen_op(r, &snap, epoch)), None => pc.ops[i].clone() };
        let x = run_op(&w, &op, &mut epoch);
        let post = snapshot(&w);
        stats.op(kind(&op), x.code);
        if x.code == 0 { acc = true } else { rej = true }
        let bad = monitor(&w, &op, epoch, &snap, &post, &x, pc.pad);
        ops_done.push(op.clone());
        for (class, what) in bad {
            if class == "F1-pledge-total-negative" {
                let e = stats.extra.entry("F1_pledge_total_negative_hits".into()).or_insert(serde_json::json!(0));
                *e = serde_json::json!(e.as_u64().unwrap() + 1);
            }
            fails.push(serde_json::json!({"class": class, "step": i, "what": [what], "padded": pc.pad,
                "case": MCase { create_epoch: pc.create_epoch, extra: pc.extra, pad: pc.pad, ops: ops_done.clone() }}));
        }
        for p in w.v.panics.borrow().iter() { stats.panics.push(p.clone()); }
        w.v.panics.borrow_mut().clear();
        steps.push((coq_op(&w, &op, epoch, &x), obs(&w, &post, &x)));
        snap = post;
    }
    (Case { init, steps, nontrivial: acc && rej },
     MCase { create_epoch: pc.create_epoch, extra: pc.extra, pad: pc.pad, ops: ops_done }, fails)
}

fn push_fails(stats: &mut Stats, fails: Vec<serde_json::Value>, seen_f1: &mut bool) {
    for f in fails {
        // keep one F1 witness, never let it crowd out other classes
        if f["class"] == "F1-pledge-total-negative" {
            if *seen_f1 { continue }
            *seen_f1 = true;
        }
        stats.monitor_fail(f);
    }
}

fn main() {
    let a = cf::parse_args();
    let mut stats = Stats::default();
    let header = "From VF Require Import Model.Vesting Model.MinerFunds Base.Corr.\nFrom Coq Require Import ZArith List.\nImport ListNotations.\nOpen Scope Z_scope.\n";
    let mut cw = CaseWriter::new(&a.out, header, "MinerFunds.check_case", a.shards);
    let mut seen_f1 = false;
    stats.extra.insert("note".into(), serde_json::json!("most histories first raise the power actor's total_pledge_collateral by 1e9 FIL (UpdatePledgeTotal injected from the miner actor) so that finding F1 (creation deposit missing from the network pledge total) does not block WithdrawBalance/ApplyRewards/RepayDebt/cron; the un-padded share reports F1 under class F1-pledge-total-negative"));
    if let Some(p) = &a.replay {
        let v: serde_json::Value = serde_json::from_str(&std::fs::read_to_string(p).unwrap()).unwrap();
        let cv = if v.get("case").is_some() { v["case"].clone() } else { v["violation"]["detail"]["case"].clone() };
        if let Ok(pc) = serde_json::from_value::<MCase>(cv) {
            let (c, _, fails) = run_case(&pc, &mut stats, None);
            cw.push(c);
            push_fails(&mut stats, fails, &mut seen_f1);
        }
        cw.finish(&stats, "minerfunds");
        return;
    }
    let corpus = std::path::Path::new(env!("CARGO_MANIFEST_DIR")).join("../corpus/C14");
    if let Ok(rd) = std::fs::read_dir(&corpus) {
        let mut files: Vec<_> = rd.filter_map(|e| e.ok()).map(|e| e.path()).collect();
        files.sort();
        for f in files {
            if f.extension().map(|x| x == "json").unwrap_or(false) {
                let v: serde_json::Value = serde_json::from_str(&std::fs::read_to_string(&f).unwrap()).unwrap();
                if let Ok(pc) = serde_json::from_value::<MCase>(v["case"].clone()) {
                    let (c, _, fails) = run_case(&pc, &mut stats, None);
                    cw.push(c);
                    push_fails(&mut stats, fails, &mut seen_f1);
                }
            }
        }
    }
    let mut root = Prng::new(a.seed);
    for k in 0..a.cases {
        let mut r = root.fork(k as u64);
        let create_epoch = match r.below(4) { 0 => 0, 1 => r.range(0, 3000), _ => r.range(0, 200_000) };
        let extra = match r.below(6) { 0 => 0, 1 => r.below(1000) as i128, _ => (FIL / 100) * r.below(30_000) as i128 };
        let pad = !r.chance(12);
        let pc = MCase { create_epoch, extra, pad, ops: vec![] };
        let (c, _, fails) = run_case(&pc, &mut stats, Some((&mut r, a.len)));
        cw.push(c);
        push_fails(&mut stats, fails, &mut seen_f1);
    }
    cw.finish(&stats, "minerfunds");
}
