//! Shared by the C09 (verifreg.rs) and C10 (claimterms.rs) harness binaries: operations of the
//! registry / datacap actors, execution on the harness VM, state snapshot, Gallina printing.
#![allow(dead_code, unused_imports)]
use fil_actor_datacap::{Method as DcMethod, State as DcState};
use fil_actor_verifreg::{
    AddVerifiedClientParams, AddVerifierParams, Allocation, AllocationClaim, AllocationRequest,
    AllocationRequests, AllocationsResponse, Claim, ClaimAllocationsParams, ClaimAllocationsReturn,
    ClaimExtensionRequest, ClaimTerm, ExtendClaimTermsParams, ExtendClaimTermsReturn,
    GetClaimsParams, GetClaimsReturn, Method as VrMethod, RemoveDataCapParams,
    RemoveDataCapProposal, RemoveDataCapProposalID, RemoveDataCapRequest, RemoveDataCapReturn,
    RemoveExpiredAllocationsParams, RemoveExpiredAllocationsReturn, RemoveExpiredClaimsParams,
    RemoveExpiredClaimsReturn, RemoveVerifierParams, SectorAllocationClaims,
    State as VrState, SIGNATURE_DOMAIN_SEPARATION_REMOVE_DATA_CAP,
};
use fil_actors_runtime::runtime::policy_constants::{
    MAXIMUM_VERIFIED_ALLOCATION_EXPIRATION, MAXIMUM_VERIFIED_ALLOCATION_TERM,
    MINIMUM_VERIFIED_ALLOCATION_SIZE, MINIMUM_VERIFIED_ALLOCATION_TERM,
};
use fil_actors_runtime::test_utils::make_piece_cid;
use fil_actors_runtime::{
    Map2, DATACAP_TOKEN_ACTOR_ADDR, DEFAULT_HAMT_CONFIG, STORAGE_MARKET_ACTOR_ADDR,
    VERIFIED_REGISTRY_ACTOR_ADDR,
};
use frc46_token::token::state::decode_actor_id;
use frc46_token::token::types::{
    BurnFromParams, BurnFromReturn, BurnParams, BurnReturn, DecreaseAllowanceParams,
    IncreaseAllowanceParams, RevokeAllowanceParams, TransferFromParams, TransferFromReturn,
    TransferParams, TransferReturn,
};
use fvm_ipld_encoding::RawBytes;
use fvm_ipld_hamt::{BytesKey, Hamt, Sha256};
use fvm_shared::address::Address;
use fvm_shared::bigint::BigInt;
use fvm_shared::crypto::signature::Signature;
use fvm_shared::econ::TokenAmount;
use fvm_shared::piece::PaddedPieceSize;
use fvm_shared::sector::RegisteredPoStProof;
use integer_encoding::VarInt;
use num_traits::{Signed, Zero};
use serde::{Deserialize, Serialize};
use serde_json::json;
use std::collections::{BTreeMap, BTreeSet, HashMap};
use vharness::coqfmt::{self as cf, Case, CaseWriter, Stats};
use vharness::prng::Prng;
use vharness::util::*;
use vharness::vvm::{Vvm, TEST_VERIFREG_ROOT_ADDR};
use vm_api::trace::InvocationTrace;
use vm_api::util::get_state;
use vm_api::VM;

pub const VR: u64 = 6;
pub const DC: u64 = 7;
pub const MARKET: u64 = 5;
pub const NOBODY: u64 = 98765;
pub const NDATA: u8 = 4;

pub fn precision() -> BigInt {
    BigInt::from(1_000_000_000_000_000_000u64)
}


/// serde_json cannot carry i128 values beyond 64 bits: amounts travel as decimal strings
pub mod i128_str {
    use serde::{Deserialize, Deserializer, Serializer};
    pub fn serialize<S: Serializer>(x: &i128, s: S) -> Result<S::Ok, S::Error> {
        s.serialize_str(&x.to_string())
    }
    pub fn deserialize<'de, D: Deserializer<'de>>(d: D) -> Result<i128, D::Error> {
        let st = String::deserialize(d)?;
        st.parse().map_err(serde::de::Error::custom)
    }
}

// ---------- operations ----------
#[derive(Clone, Debug, Serialize, Deserialize)]
pub struct AReq { pub provider: u64, pub data: u8, pub size: u64, pub tmin: i64, pub tmax: i64, pub exp: i64 }
#[derive(Clone, Debug, Serialize, Deserialize)]
pub struct EReq { pub provider: u64, pub claim: u64, pub tmax: i64 }
#[derive(Clone, Debug, Serialize, Deserialize)]
pub enum Payload { Malformed, Reqs { allocs: Vec<AReq>, exts: Vec<EReq> } }
#[derive(Clone, Debug, Serialize, Deserialize)]
pub struct AClaim { pub client: u64, pub id: u64, pub data: u8, pub size: u64 }
#[derive(Clone, Debug, Serialize, Deserialize)]
pub struct SGroup { pub sector: u64, pub expiry: i64, pub claims: Vec<AClaim> }
#[derive(Clone, Debug, Serialize, Deserialize)]
pub struct SigSpec { pub signer: u64, pub pid: u64, #[serde(with = "i128_str")] pub amount: i128, pub client: u64 }

#[derive(Clone, Debug, Serialize, Deserialize)]
pub enum VOp {
    AddVerifier { caller: u64, addr: u64, #[serde(with = "i128_str")] allowance: i128 },
    RemoveVerifier { caller: u64, addr: u64 },
    AddClient { caller: u64, addr: u64, #[serde(with = "i128_str")] allowance: i128 },
    RemoveDataCap { caller: u64, client: u64, #[serde(with = "i128_str")] amount: i128, v1: u64, s1: SigSpec, v2: u64, s2: SigSpec },
    Transfer { epoch: i64, caller: u64, to: u64, #[serde(with = "i128_str")] amount: i128, p: Payload },
    TransferFrom { epoch: i64, caller: u64, from: u64, to: u64, #[serde(with = "i128_str")] amount: i128, p: Payload },
    ClaimAllocs { epoch: i64, caller: u64, groups: Vec<SGroup>, aon: bool },
    RemoveExpAllocs { epoch: i64, caller: u64, client: u64, ids: Vec<u64> },
    RemoveExpClaims { epoch: i64, caller: u64, provider: u64, ids: Vec<u64> },
    ExtendTerms { caller: u64, terms: Vec<(u64, u64, i64)> },
    GetClaims { caller: u64, provider: u64, ids: Vec<u64> },
    Burn { caller: u64, #[serde(with = "i128_str")] amount: i128 },
    BurnFrom { caller: u64, owner: u64, #[serde(with = "i128_str")] amount: i128 },
    IncAllowance { caller: u64, operator: u64, #[serde(with = "i128_str")] delta: i128 },
    DecAllowance { caller: u64, operator: u64, #[serde(with = "i128_str")] delta: i128 },
    RevokeAllowance { caller: u64, operator: u64 },
}

#[derive(Clone, Debug, Serialize, Deserialize)]
pub struct VCase { pub ops: Vec<VOp> }

pub fn kind(op: &VOp) -> &'static str {
    match op {
        VOp::AddVerifier { .. } => "add_verifier",
        VOp::RemoveVerifier { .. } => "remove_verifier",
        VOp::AddClient { .. } => "add_verified_client",
        VOp::RemoveDataCap { .. } => "remove_verified_client_data_cap",
        VOp::Transfer { .. } => "transfer",
        VOp::TransferFrom { .. } => "transfer_from",
        VOp::ClaimAllocs { .. } => "claim_allocations",
        VOp::RemoveExpAllocs { .. } => "remove_expired_allocations",
        VOp::RemoveExpClaims { .. } => "remove_expired_claims",
        VOp::ExtendTerms { .. } => "extend_claim_terms",
        VOp::GetClaims { .. } => "get_claims",
        VOp::Burn { .. } => "burn",
        VOp::BurnFrom { .. } => "burn_from",
        VOp::IncAllowance { .. } => "increase_allowance",
        VOp::DecAllowance { .. } => "decrease_allowance",
        VOp::RevokeAllowance { .. } => "revoke_allowance",
    }
}

// ---------- world ----------
pub struct World {
    pub v: Vvm,
    pub accts: Vec<u64>,
    pub keys: HashMap<u64, Address>,
    pub miners: Vec<u64>,
    pub root: u64,
    pub cids: Vec<cid::Cid>,
}

pub fn data_index(w: &World, c: &cid::Cid) -> i64 {
    w.cids.iter().position(|x| x == c).map(|i| i as i64).unwrap_or(-1)
}

// ---------- snapshot of the implementation's state ----------
#[derive(Clone, Default, PartialEq, Debug)]
pub struct Snap {
    pub supply: BigInt,
    pub bals: BTreeMap<u64, BigInt>,
    pub allows: BTreeMap<(u64, u64), BigInt>,
    pub verifiers: BTreeMap<u64, BigInt>,
    pub proposals: BTreeMap<(u64, u64), u64>,
    pub next_id: u64,
    pub allocs: BTreeMap<(u64, u64), Allocation>,
    pub claims: BTreeMap<(u64, u64), Claim>,
}

pub fn parse_id_addr(b: &[u8]) -> (u64, usize) {
    assert_eq!(b[0], 0, "proposal key is not a pair of ID addresses");
    let (v, n) = u64::decode_var(&b[1..]).unwrap();
    (v, n + 1)
}

pub fn snapshot(w: &World) -> Snap {
    let store = w.v.store.as_ref();
    let dc: DcState = get_state(&w.v, &DATACAP_TOKEN_ACTOR_ADDR).unwrap();
    let mut s = Snap { supply: dc.token.supply.atto().clone(), ..Default::default() };
    dc.token
        .get_balance_map(store)
        .unwrap()
        .for_each(|k, v: &TokenAmount| {
            s.bals.insert(decode_actor_id(k).unwrap(), v.atto().clone());
            Ok(())
        })
        .unwrap();
    let mut owners = vec![];
    dc.token
        .get_allowances_map(store)
        .unwrap()
        .for_each(|k, _| {
            owners.push(decode_actor_id(k).unwrap());
            Ok(())
        })
        .unwrap();
    for o in owners {
        if let Some(m) = dc.token.get_owner_allowance_map(store, o).unwrap() {
            m.for_each(|k, v: &TokenAmount| {
                s.allows.insert((o, decode_actor_id(k).unwrap()), v.atto().clone());
                Ok(())
            })
            .unwrap();
        }
    }
    let vr: VrState = get_state(&w.v, &VERIFIED_REGISTRY_ACTOR_ADDR).unwrap();
    vr.load_verifiers(store)
        .unwrap()
        .for_each(|a, cap| {
            s.verifiers.insert(a.id().unwrap(), cap.0.clone());
            Ok(())
        })
        .unwrap();
    let props: Hamt<&_, RemoveDataCapProposalID, BytesKey, Sha256> =
        Hamt::load_with_config(&vr.remove_data_cap_proposal_ids, store, DEFAULT_HAMT_CONFIG).unwrap();
    props
        .for_each(|k, v| {
            let (a, n) = parse_id_addr(&k.0);
            let (b, _) = parse_id_addr(&k.0[n..]);
            s.proposals.insert((a, b), v.id);
            Ok(())
        })
        .unwrap();
    s.next_id = vr.next_allocation_id;
    let allocs = vr.load_allocs(store).unwrap();
    let mut outer = vec![];
    allocs
        .for_each(|k, root| {
            outer.push((decode_actor_id(k).unwrap(), *root));
            Ok(())
        })
        .unwrap();
    for (client, root) in outer {
        Map2::<&_, u64, Allocation>::load(store, &root, DEFAULT_HAMT_CONFIG, "allocs inner")
            .unwrap()
            .for_each(|id, a: &Allocation| {
                s.allocs.insert((client, id), a.clone());
                Ok(())
            })
            .unwrap();
    }
    let claims = vr.load_claims(store).unwrap();
    let mut outer = vec![];
    claims
        .for_each(|k, root| {
            outer.push((decode_actor_id(k).unwrap(), *root));
            Ok(())
        })
        .unwrap();
    for (prov, root) in outer {
        Map2::<&_, u64, Claim>::load(store, &root, DEFAULT_HAMT_CONFIG, "claims inner")
            .unwrap()
            .for_each(|id, c: &Claim| {
                s.claims.insert((prov, id), c.clone());
                Ok(())
            })
            .unwrap();
    }
    s
}

// ---------- executing one operation on the implementation ----------
pub struct Outcome {
    pub code: u32,
    pub ret: Vec<String>,
    /// registry events (kind, id) of a successful message, in emission order
    pub events: Vec<(u8, u64)>,
    /// token units minted / burnt by successful datacap calls of a successful message
    pub minted: BigInt,
    pub burnt: BigInt,
    /// per sector group exit codes of a successful ClaimAllocations
    pub group_codes: Vec<u32>,
}

pub fn id(a: u64) -> Address {
    Address::new_id(a)
}
pub fn tok(a: i128) -> TokenAmount {
    TokenAmount::from_atto(a)
}

pub fn payload_bytes(w: &World, p: &Payload) -> RawBytes {
    match p {
        Payload::Malformed => RawBytes::new(vec![0x82, 0x80]),
        Payload::Reqs { allocs, exts } => RawBytes::serialize(AllocationRequests {
            allocations: allocs
                .iter()
                .map(|r| AllocationRequest {
                    provider: r.provider,
                    data: w.cids[r.data as usize],
                    size: PaddedPieceSize(r.size),
                    term_min: r.tmin,
                    term_max: r.tmax,
                    expiration: r.exp,
                })
                .collect(),
            extensions: exts
                .iter()
                .map(|e| ClaimExtensionRequest { provider: e.provider, claim: e.claim, term_max: e.tmax })
                .collect(),
        })
        .unwrap(),
    }
}

pub fn removal_sig(w: &World, s: &SigSpec) -> Signature {
    let proposal = RemoveDataCapProposal {
        verified_client: id(s.client),
        data_cap_amount: BigInt::from(s.amount),
        removal_proposal_id: RemoveDataCapProposalID { id: s.pid },
    };
    let b = RawBytes::serialize(proposal).unwrap();
    let payload = [SIGNATURE_DOMAIN_SEPARATION_REMOVE_DATA_CAP, b.bytes()].concat();
    let key = w.keys.get(&s.signer).cloned().unwrap_or_else(|| Address::new_bls(&[9u8; 48]).unwrap());
    Signature::new_bls(sign(&key, &payload))
}

pub fn z<T: std::fmt::Display>(x: T) -> String {
    cf::z(x)
}
pub fn enc_list(v: Vec<String>) -> Vec<String> {
    let mut o = vec![z(v.len())];
    o.extend(v);
    o
}

pub fn event_of(e: &vm_api::trace::EmittedEvent) -> Option<(u8, u64)> {
    if e.emitter != VR {
        return None;
    }
    let mut typ = String::new();
    let mut idv: Option<u64> = None;
    let mut verifier: Option<u64> = None;
    for en in &e.event.entries {
        match en.key.as_str() {
            "$type" => typ = fvm_ipld_encoding::from_slice(&en.value).unwrap(),
            "id" => idv = Some(fvm_ipld_encoding::from_slice(&en.value).unwrap()),
            "verifier" => verifier = Some(fvm_ipld_encoding::from_slice(&en.value).unwrap()),
            _ => {}
        }
    }
    match typ.as_str() {
        "verifier-balance" => Some((1, verifier.unwrap())),
        "allocation" => Some((2, idv.unwrap())),
        "allocation-removed" => Some((3, idv.unwrap())),
        "claim" => Some((4, idv.unwrap())),
        "claim-updated" => Some((5, idv.unwrap())),
        "claim-removed" => Some((6, idv.unwrap())),
        other => panic!("unknown registry event {}", other),
    }
}

pub fn walk(t: &InvocationTrace, ev: &mut Vec<(u8, u64)>, minted: &mut BigInt, burnt: &mut BigInt) {
    if !t.exit_code.is_success() {
        return;
    }
    for e in &t.events {
        if let Some(x) = event_of(e) {
            ev.push(x);
        }
    }
    if t.to == DATACAP_TOKEN_ACTOR_ADDR {
        if t.method == DcMethod::MintExported as u64 {
            let p: fil_actor_datacap::MintParams = t.params.as_ref().unwrap().deserialize().unwrap();
            *minted += p.amount.atto();
        } else if t.method == DcMethod::BurnExported as u64 {
            let p: BurnParams = t.params.as_ref().unwrap().deserialize().unwrap();
            *burnt += p.amount.atto();
        } else if t.method == DcMethod::BurnFromExported as u64 {
            let p: BurnFromParams = t.params.as_ref().unwrap().deserialize().unwrap();
            *burnt += p.amount.atto();
        } else if t.method == DcMethod::DestroyExported as u64 {
            let p: fil_actor_datacap::DestroyParams = t.params.as_ref().unwrap().deserialize().unwrap();
            *burnt += p.amount.atto();
        }
    }
    for s in &t.subinvocations {
        walk(s, ev, minted, burnt);
    }
}

pub fn codes_of(b: &fil_actors_runtime::BatchReturn) -> Vec<String> {
    b.codes().iter().map(|c| z(c.value())).collect()
}

pub fn enc_claim(w: &World, c: &Claim) -> Vec<String> {
    vec![z(c.provider), z(c.client), z(data_index(w, &c.data)), z(c.size.0), z(c.term_min), z(c.term_max), z(c.term_start), z(c.sector)]
}

pub fn alloc_resp(rd: &RawBytes, bad: &mut Vec<String>) -> Vec<String> {
    if rd.is_empty() {
        return enc_list(vec![]);
    }
    let r: AllocationsResponse = rd.deserialize().unwrap();
    if !r.allocation_results.all_ok() || !r.extension_results.all_ok() {
        bad.push("hook reported a partial failure".into());
    }
    enc_list(r.new_allocations.iter().map(z).collect())
}

pub fn run_op(w: &World, op: &VOp, ret_notes: &mut Vec<String>) -> Outcome {
    let v = &w.v;
    let zero = TokenAmount::zero();
    w.v.take_invocations();
    let vr = VERIFIED_REGISTRY_ACTOR_ADDR;
    let dc = DATACAP_TOKEN_ACTOR_ADDR;
    let mut sort_considered = false;
    let r = match op {
        VOp::AddVerifier { caller, addr, allowance } => exec(v, &id(*caller), &vr, &zero, VrMethod::AddVerifier as u64,
            Some(AddVerifierParams { address: id(*addr), allowance: BigInt::from(*allowance) })),
        VOp::RemoveVerifier { caller, addr } => exec(v, &id(*caller), &vr, &zero, VrMethod::RemoveVerifier as u64,
            Some(RemoveVerifierParams { verifier: id(*addr) })),
        VOp::AddClient { caller, addr, allowance } => exec(v, &id(*caller), &vr, &zero, VrMethod::AddVerifiedClient as u64,
            Some(AddVerifiedClientParams { address: id(*addr), allowance: BigInt::from(*allowance) })),
        VOp::RemoveDataCap { caller, client, amount, v1, s1, v2, s2 } => exec(v, &id(*caller), &vr, &zero,
            VrMethod::RemoveVerifiedClientDataCap as u64,
            Some(RemoveDataCapParams {
                verified_client_to_remove: id(*client),
                data_cap_amount_to_remove: BigInt::from(*amount),
                verifier_request_1: RemoveDataCapRequest { verifier: id(*v1), signature: removal_sig(w, s1) },
                verifier_request_2: RemoveDataCapRequest { verifier: id(*v2), signature: removal_sig(w, s2) },
            })),
        VOp::Transfer { epoch, caller, to, amount, p } => {
            v.set_epoch(*epoch);
            exec(v, &id(*caller), &dc, &zero, DcMethod::TransferExported as u64,
                Some(TransferParams { to: id(*to), amount: tok(*amount), operator_data: payload_bytes(w, p) }))
        }
        VOp::TransferFrom { epoch, caller, from, to, amount, p } => {
            v.set_epoch(*epoch);
            exec(v, &id(*caller), &dc, &zero, DcMethod::TransferFromExported as u64,
                Some(TransferFromParams { from: id(*from), to: id(*to), amount: tok(*amount), operator_data: payload_bytes(w, p) }))
        }
        VOp::ClaimAllocs { epoch, caller, groups, aon } => {
            v.set_epoch(*epoch);
            exec(v, &id(*caller), &vr, &zero, VrMethod::ClaimAllocations as u64,
                Some(ClaimAllocationsParams {
                    sectors: groups.iter().map(|g| SectorAllocationClaims {
                        sector: g.sector,
                        expiry: g.expiry,
                        claims: g.claims.iter().map(|c| AllocationClaim {
                            client: c.client, allocation_id: c.id, data: w.cids[c.data as usize], size: PaddedPieceSize(c.size),
                        }).collect(),
                    }).collect(),
                    all_or_nothing: *aon,
                }))
        }
        VOp::RemoveExpAllocs { epoch, caller, client, ids } => {
            v.set_epoch(*epoch);
            sort_considered = ids.is_empty();
            exec(v, &id(*caller), &vr, &zero, VrMethod::RemoveExpiredAllocations as u64,
                Some(RemoveExpiredAllocationsParams { client: *client, allocation_ids: ids.clone() }))
        }
        VOp::RemoveExpClaims { epoch, caller, provider, ids } => {
            v.set_epoch(*epoch);
            sort_considered = ids.is_empty();
            exec(v, &id(*caller), &vr, &zero, VrMethod::RemoveExpiredClaims as u64,
                Some(RemoveExpiredClaimsParams { provider: *provider, claim_ids: ids.clone() }))
        }
        VOp::ExtendTerms { caller, terms } => exec(v, &id(*caller), &vr, &zero, VrMethod::ExtendClaimTerms as u64,
            Some(ExtendClaimTermsParams { terms: terms.iter().map(|(p, c, t)| ClaimTerm { provider: *p, claim_id: *c, term_max: *t }).collect() })),
        VOp::GetClaims { caller, provider, ids } => exec(v, &id(*caller), &vr, &zero, VrMethod::GetClaims as u64,
            Some(GetClaimsParams { provider: *provider, claim_ids: ids.clone() })),
        VOp::Burn { caller, amount } => exec(v, &id(*caller), &dc, &zero, DcMethod::BurnExported as u64,
            Some(BurnParams { amount: tok(*amount) })),
        VOp::BurnFrom { caller, owner, amount } => exec(v, &id(*caller), &dc, &zero, DcMethod::BurnFromExported as u64,
            Some(BurnFromParams { owner: id(*owner), amount: tok(*amount) })),
        VOp::IncAllowance { caller, operator, delta } => exec(v, &id(*caller), &dc, &zero, DcMethod::IncreaseAllowanceExported as u64,
            Some(IncreaseAllowanceParams { operator: id(*operator), increase: tok(*delta) })),
        VOp::DecAllowance { caller, operator, delta } => exec(v, &id(*caller), &dc, &zero, DcMethod::DecreaseAllowanceExported as u64,
            Some(DecreaseAllowanceParams { operator: id(*operator), decrease: tok(*delta) })),
        VOp::RevokeAllowance { caller, operator } => exec(v, &id(*caller), &dc, &zero, DcMethod::RevokeAllowanceExported as u64,
            Some(RevokeAllowanceParams { operator: id(*operator) })),
    };
    let mut c = code(&r);
    // VM quirk, not actor behaviour: the harness VM (like /repo/test_vm) answers a failed
    // validate_immediate_caller_type with SYS_ASSERTION_FAILED(10); the production runtime
    // (runtime/src/runtime/fvm.rs) answers USR_FORBIDDEN(18), which is what the model says.
    if c == 10 && r.message == "immediate caller actor type forbidden" {
        c = 18;
    }
    if std::env::var("VERIF_DEBUG").is_ok() && c != 0 { eprintln!("DBG {} -> {}: {}", kind(op), c, r.message); }
    let mut out = Outcome { code: c, ret: vec![], events: vec![], minted: BigInt::zero(), burnt: BigInt::zero(), group_codes: vec![] };
    let traces = w.v.take_invocations();
    if c != 0 {
        return out;
    }
    for t in &traces {
        walk(t, &mut out.events, &mut out.minted, &mut out.burnt);
    }
    let blk = r.ret;
    out.ret = match op {
        VOp::AddVerifier { .. } | VOp::RemoveVerifier { .. } | VOp::AddClient { .. } => vec![],
        VOp::RemoveDataCap { .. } => {
            let x: RemoveDataCapReturn = blk.unwrap().deserialize().unwrap();
            vec![z(x.verified_client.id().unwrap()), z(x.data_cap_removed)]
        }
        VOp::Transfer { .. } => {
            let x: TransferReturn = blk.unwrap().deserialize().unwrap();
            let mut o = vec![z(x.from_balance.atto()), z(x.to_balance.atto())];
            o.extend(alloc_resp(&x.recipient_data, ret_notes));
            o
        }
        VOp::TransferFrom { .. } => {
            let x: TransferFromReturn = blk.unwrap().deserialize().unwrap();
            let mut o = vec![z(x.from_balance.atto()), z(x.to_balance.atto()), z(x.allowance.atto())];
            o.extend(alloc_resp(&x.recipient_data, ret_notes));
            o
        }
        VOp::ClaimAllocs { .. } => {
            let x: ClaimAllocationsReturn = blk.unwrap().deserialize().unwrap();
            out.group_codes = x.sector_results.codes().iter().map(|c| c.value()).collect();
            let mut o = enc_list(codes_of(&x.sector_results));
            o.extend(enc_list(x.sector_claims.iter().map(|s| z(&s.claimed_space)).collect()));
            o
        }
        VOp::RemoveExpAllocs { .. } => {
            let x: RemoveExpiredAllocationsReturn = blk.unwrap().deserialize().unwrap();
            let mut cons = x.considered.clone();
            if sort_considered {
                cons.sort();
            }
            let mut o = enc_list(cons.iter().map(z).collect());
            o.extend(codes_of(&x.results));
            o.push(z(&x.datacap_recovered));
            o
        }
        VOp::RemoveExpClaims { .. } => {
            let x: RemoveExpiredClaimsReturn = blk.unwrap().deserialize().unwrap();
            let mut cons = x.considered.clone();
            if sort_considered {
                cons.sort();
            }
            let mut o = enc_list(cons.iter().map(z).collect());
            o.extend(codes_of(&x.results));
            o
        }
        VOp::ExtendTerms { .. } => {
            let x: ExtendClaimTermsReturn = blk.unwrap().deserialize().unwrap();
            enc_list(codes_of(&x))
        }
        VOp::GetClaims { .. } => {
            let x: GetClaimsReturn = blk.unwrap().deserialize().unwrap();
            let mut o = enc_list(codes_of(&x.batch_info));
            for c in &x.claims {
                o.extend(enc_claim(w, c));
            }
            o
        }
        VOp::Burn { .. } => {
            let x: BurnReturn = blk.unwrap().deserialize().unwrap();
            vec![z(x.balance.atto())]
        }
        VOp::BurnFrom { .. } => {
            let x: BurnFromReturn = blk.unwrap().deserialize().unwrap();
            vec![z(x.balance.atto()), z(x.allowance.atto())]
        }
        VOp::IncAllowance { .. } | VOp::DecAllowance { .. } | VOp::RevokeAllowance { .. } => {
            let x: TokenAmount = blk.unwrap().deserialize().unwrap();
            vec![z(x.atto())]
        }
    };
    // with the "all expired" variants the implementation emits the removal events in HAMT order
    if sort_considered {
        out.events.sort();
    }
    out
}

// ---------- Gallina printing ----------
pub fn coq_payload(p: &Payload) -> String {
    match p {
        Payload::Malformed => "PMalformed".into(),
        Payload::Reqs { allocs, exts } => format!(
            "(PReqs {} {})",
            cf::list(allocs.iter().map(|r| format!(
                "{{| rq_provider := {}; rq_data := {}; rq_size := {}; rq_tmin := {}; rq_tmax := {}; rq_exp := {} |}}",
                r.provider, r.data, r.size, z(r.tmin), z(r.tmax), z(r.exp)))),
            cf::list(exts.iter().map(|e| format!(
                "{{| ex_provider := {}; ex_claim := {}; ex_tmax := {} |}}", e.provider, e.claim, z(e.tmax))))
        ),
    }
}
pub fn coq_sig(s: &SigSpec) -> String {
    format!("{{| ss_signer := {}; ss_pid := {}; ss_amount := {}; ss_client := {} |}}", s.signer, s.pid, z(s.amount), s.client)
}
pub fn coq_op(op: &VOp) -> String {
    match op {
        VOp::AddVerifier { caller, addr, allowance } => format!("AddVerifier {} {} {}", caller, addr, z(allowance)),
        VOp::RemoveVerifier { caller, addr } => format!("RemoveVerifier {} {}", caller, addr),
        VOp::AddClient { caller, addr, allowance } => format!("AddClient {} {} {}", caller, addr, z(allowance)),
        VOp::RemoveDataCap { caller, client, amount, v1, s1, v2, s2 } => format!(
            "RemoveDataCap {} {} {} {} {} {} {}", caller, client, z(amount), v1, coq_sig(s1), v2, coq_sig(s2)),
        VOp::Transfer { epoch, caller, to, amount, p } => format!("Transfer {} {} {} {} {}", z(epoch), caller, to, z(amount), coq_payload(p)),
        VOp::TransferFrom { epoch, caller, from, to, amount, p } => format!(
            "TransferFrom {} {} {} {} {} {}", z(epoch), caller, from, to, z(amount), coq_payload(p)),
        VOp::ClaimAllocs { epoch, caller, groups, aon } => format!(
            "ClaimAllocs {} {} {} {}", z(epoch), caller,
            cf::list(groups.iter().map(|g| format!(
                "{{| sg_sector := {}; sg_expiry := {}; sg_claims := {} |}}", g.sector, z(g.expiry),
                cf::list(g.claims.iter().map(|c| format!(
                    "{{| ac_client := {}; ac_id := {}; ac_data := {}; ac_size := {} |}}", c.client, c.id, c.data, c.size)))))),
            cf::b(*aon)),
        VOp::RemoveExpAllocs { epoch, caller, client, ids } => format!("RemoveExpAllocs {} {} {} {}", z(epoch), caller, client, cf::zlist(ids)),
        VOp::RemoveExpClaims { epoch, caller, provider, ids } => format!("RemoveExpClaims {} {} {} {}", z(epoch), caller, provider, cf::zlist(ids)),
        VOp::ExtendTerms { caller, terms } => format!("ExtendTerms {} {}", caller,
            cf::list(terms.iter().map(|(p, c, t)| format!("({}, {}, {})", p, c, z(t))))),
        VOp::GetClaims { caller, provider, ids } => format!("GetClaims {} {} {}", caller, provider, cf::zlist(ids)),
        VOp::Burn { caller, amount } => format!("Burn {} {}", caller, z(amount)),
        VOp::BurnFrom { caller, owner, amount } => format!("BurnFrom {} {} {}", caller, owner, z(amount)),
        VOp::IncAllowance { caller, operator, delta } => format!("IncAllowance {} {} {}", caller, operator, z(delta)),
        VOp::DecAllowance { caller, operator, delta } => format!("DecAllowance {} {} {}", caller, operator, z(delta)),
        VOp::RevokeAllowance { caller, operator } => format!("RevokeAllowance {} {}", caller, operator),
    }
}

pub fn obs(w: &World, s: &Snap, o: &Outcome) -> Vec<String> {
    let mut v = vec![z(o.code)];
    v.extend(enc_list(o.ret.clone()));
    v.extend(enc_list(o.events.iter().flat_map(|(k, i)| vec![z(k), z(i)]).collect()));
    v.push(z(&s.supply));
    v.extend(enc_list(s.bals.iter().flat_map(|(k, b)| vec![z(k), z(b)]).collect()));
    v.extend(enc_list(s.allows.iter().flat_map(|((o, p), a)| vec![z(o), z(p), z(a)]).collect()));
    v.extend(enc_list(s.verifiers.iter().flat_map(|(k, c)| vec![z(k), z(c)]).collect()));
    v.extend(enc_list(s.proposals.iter().flat_map(|((a, b), i)| vec![z(a), z(b), z(i)]).collect()));
    v.push(z(s.next_id));
    v.extend(enc_list(s.allocs.iter().flat_map(|((c, i), a)| {
        vec![z(c), z(i), z(a.client), z(a.provider), z(data_index(w, &a.data)), z(a.size.0), z(a.term_min), z(a.term_max), z(a.expiration)]
    }).collect()));
    v.extend(enc_list(s.claims.iter().flat_map(|((p, i), c)| {
        let mut x = vec![z(p), z(i)];
        x.extend(enc_claim(w, c));
        x
    }).collect()));
    v
}


/// second oracle: /repo's own state invariant checker (state/src/check.rs) run on the whole state
/// tree; returns the messages that concern the registry, the datacap token or claims
pub fn state_check_messages(v: &Vvm) -> Vec<String> {
    // the checker takes `epoch - 1` as the last completed epoch: claims made in the current epoch
    // would look as if they started in the future, so check from the next epoch
    let e = v.epoch();
    v.set_epoch(e + 1);
    let acc = fil_actors_integration_tests::util::check_invariants(v, &fil_actors_runtime::runtime::Policy::default(), None).unwrap();
    v.set_epoch(e);
    acc.messages()
        .into_iter()
        .filter(|m| {
            let l = m.to_lowercase();
            l.contains("verifreg") || l.contains("datacap") || l.contains("claim ") || l.contains("claims")
                || l.contains("allocation") || l.contains("token") || l.contains("verified weight")
        })
        .collect()
}
