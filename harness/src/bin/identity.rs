//! C20 correspondence + monitor harness: the real init, EAM, EVM, power, miner, multisig, paych,
//! account, placeholder and ethaccount actors on the harness VM against coq/Model/{Init,Eam}.v.
//!
//! Every keccak call of the implementation goes through `hash_hook` (installed in the VM's
//! `FakePrimitives::hash` slot): the bytes are recorded, the real digest is returned unless a forced
//! digest was armed for the next address pre-image (how reserved addresses are reached).
use fil_actor_eam::{Create2Params, CreateExternalParams, CreateParams};
use fil_actor_init::{Exec4Params, ExecParams, State as InitState};
use fil_actors_evm_shared::address::EthAddress;
use fil_actors_runtime::runtime::Primitives;
use fil_actors_runtime::runtime::builtins::Type;
use fil_actors_runtime::test_utils::*;
use fil_actors_runtime::{
    DEFAULT_HAMT_CONFIG, EAM_ACTOR_ADDR, EAM_ACTOR_ID, INIT_ACTOR_ADDR, Map2, STORAGE_POWER_ACTOR_ADDR,
    STORAGE_POWER_ACTOR_ID,
};
use fvm_ipld_blockstore::Blockstore;
use fvm_ipld_encoding::ipld_block::IpldBlock;
use fvm_ipld_encoding::{BytesDe, RawBytes};
use fvm_shared::address::Address;
use fvm_shared::crypto::hash::SupportedHashes;
use fvm_shared::econ::TokenAmount;
use fvm_shared::sector::RegisteredPoStProof;
use fvm_shared::{ActorID, METHOD_SEND};
use num_traits::Zero;
use serde::{Deserialize, Serialize};
use std::cell::RefCell;
use std::collections::{BTreeMap, HashSet};
use vharness::coqfmt::{self as cf, Case, CaseWriter, Stats};
use vharness::prng::Prng;
use vharness::util::*;
use vharness::vvm::Vvm;
use vm_api::trace::InvocationTrace;
use vm_api::util::get_state;
use vm_api::VM;

// ------------------------------------------------------------------------------------------------
// keccak recording / forcing
thread_local! {
    static HASH_LOG: RefCell<Vec<Vec<u8>>> = RefCell::new(vec![]);          // address pre-images, in call order
    static TABLE: RefCell<BTreeMap<Vec<u8>, Vec<u8>>> = RefCell::new(BTreeMap::new()); // input (<= 85 bytes) -> digest
    static FORCE_NEXT: RefCell<Option<Vec<u8>>> = RefCell::new(None);
}

fn is_addr_preimage(d: &[u8]) -> bool {
    (d.len() == 85 && d[0] == 0xff)
        || (d.len() >= 23 && d.len() <= 31 && d[0] as usize == 0xc0 + d.len() - 1 && d[1] == 0x94)
}

fn real_keccak(data: &[u8]) -> Vec<u8> {
    FakePrimitives::default().hash(SupportedHashes::Keccak256, data)
}

fn hash_hook(h: SupportedHashes, data: &[u8]) -> Vec<u8> {
    if h != SupportedHashes::Keccak256 {
        return FakePrimitives::default().hash(h, data);
    }
    if data.len() > 85 {
        return real_keccak(data);
    }
    let known = TABLE.with(|t| t.borrow().get(data).cloned());
    let digest = match known {
        Some(d) => d,
        None => {
            let forced = if is_addr_preimage(data) { FORCE_NEXT.with(|f| f.borrow_mut().take()) } else { None };
            let d = forced.unwrap_or_else(|| real_keccak(data));
            TABLE.with(|t| t.borrow_mut().insert(data.to_vec(), d.clone()));
            d
        }
    };
    if is_addr_preimage(data) {
        HASH_LOG.with(|l| l.borrow_mut().push(data.to_vec()));
    }
    digest
}

// ------------------------------------------------------------------------------------------------
// hand-assembled EVM code
mod asm {
    #[derive(Clone)]
    pub enum I {
        Op(u8),
        Push1(u8),
        Push2(u16),
        PushL(&'static str), // PUSH2 <label>
        Label(&'static str), // JUMPDEST
        Raw(Vec<u8>),
    }
    pub const STOP: u8 = 0x00;
    pub const SUB: u8 = 0x03;
    pub const LT: u8 = 0x10;
    pub const EQ: u8 = 0x14;
    pub const ISZERO: u8 = 0x15;
    pub const AND: u8 = 0x16;
    pub const SHR: u8 = 0x1c;
    pub const CALLER: u8 = 0x33;
    pub const CALLDATALOAD: u8 = 0x35;
    pub const CALLDATASIZE: u8 = 0x36;
    pub const CALLDATACOPY: u8 = 0x37;
    pub const CODECOPY: u8 = 0x39;
    pub const POP: u8 = 0x50;
    pub const MLOAD: u8 = 0x51;
    pub const MSTORE: u8 = 0x52;
    pub const MSTORE8: u8 = 0x53;
    pub const JUMP: u8 = 0x56;
    pub const JUMPI: u8 = 0x57;
    pub const GAS: u8 = 0x5a;
    pub const PUSH0: u8 = 0x5f;
    pub const DUP1: u8 = 0x80;
    pub const DUP2: u8 = 0x81;
    pub const CREATE: u8 = 0xf0;
    pub const CALL: u8 = 0xf1;
    pub const RETURN: u8 = 0xf3;
    pub const CREATE2: u8 = 0xf5;
    pub const REVERT: u8 = 0xfd;
    pub const SELFDESTRUCT: u8 = 0xff;

    pub fn assemble(prog: &[I]) -> Vec<u8> {
        let mut pos = 0usize;
        let mut labels = std::collections::HashMap::new();
        for i in prog {
            match i {
                I::Op(_) => pos += 1,
                I::Push1(_) => pos += 2,
                I::Push2(_) | I::PushL(_) => pos += 3,
                I::Label(l) => {
                    labels.insert(*l, pos);
                    pos += 1
                }
                I::Raw(b) => pos += b.len(),
            }
        }
        let mut out = vec![];
        for i in prog {
            match i {
                I::Op(o) => out.push(*o),
                I::Push1(x) => {
                    out.push(0x60);
                    out.push(*x)
                }
                I::Push2(x) => {
                    out.push(0x61);
                    out.extend_from_slice(&x.to_be_bytes())
                }
                I::PushL(l) => {
                    out.push(0x61);
                    out.extend_from_slice(&(labels[l] as u16).to_be_bytes())
                }
                I::Label(_) => out.push(0x5b),
                I::Raw(b) => out.extend_from_slice(b),
            }
        }
        out
    }
}
use asm::I::*;
use asm::*;

const SLOT1: u16 = 0x1000;
const SLOT2: u16 = 0x1020;
const SCRATCH: u16 = 0x2000;

fn flags_code() -> Vec<asm::I> {
    vec![Op(PUSH0), Op(CALLDATALOAD), Push1(0xf8), Op(SHR)]
}

/// stack [size] -> [size]; result address stored at `slot`
fn create_block(value: Vec<asm::I>, slot: u16, l2: &'static str, ld: &'static str) -> Vec<asm::I> {
    let mut p = flags_code();
    p.extend([Push1(1), Op(AND), PushL(l2), Op(JUMPI)]);
    p.extend([Op(DUP1), Op(PUSH0)]);
    p.extend(value.clone());
    p.extend([Op(CREATE), PushL(ld), Op(JUMP), Label(l2)]);
    p.extend([Push1(1), Op(CALLDATALOAD), Op(DUP2), Op(PUSH0)]);
    p.extend(value);
    p.extend([Op(CREATE2), Label(ld), Push2(slot), Op(MSTORE)]);
    p
}

/// factory runtime: calldata = flags(1) ‖ salt(32) ‖ initcode; returns addr1 ‖ addr2 (two words)
fn factory_runtime() -> Vec<u8> {
    let mut p = vec![Push1(33), Op(CALLDATASIZE), Op(LT), PushL("short"), Op(JUMPI)];
    p.extend([Push1(33), Op(CALLDATASIZE), Op(SUB), Op(DUP1), Push1(33), Op(PUSH0), Op(CALLDATACOPY)]);
    // value of the first creation: flags & 16 ? 2^256-1 : 0
    let mut v1 = flags_code();
    v1.extend([Push1(16), Op(AND), Op(ISZERO), Op(ISZERO), Op(PUSH0), Op(SUB)]);
    p.extend(create_block(v1, SLOT1, "c2a", "da"));
    p.extend(flags_code());
    p.extend([Push1(2), Op(AND), Op(ISZERO), PushL("end"), Op(JUMPI)]);
    p.extend(flags_code());
    p.extend([Push1(8), Op(AND), Op(ISZERO), PushL("skipcall"), Op(JUMPI)]);
    p.extend([Push2(SLOT1), Op(MLOAD), Op(ISZERO), PushL("skipcall"), Op(JUMPI)]);
    p.extend([Push1(0x80), Push2(SCRATCH), Op(MSTORE8)]);
    p.extend([Op(PUSH0), Op(PUSH0), Push1(1), Push2(SCRATCH), Op(PUSH0), Push2(SLOT1), Op(MLOAD), Op(GAS), Op(CALL), Op(POP)]);
    p.push(Label("skipcall"));
    p.extend(create_block(vec![Op(PUSH0)], SLOT2, "c2b", "db"));
    p.push(Label("end"));
    p.push(Op(POP));
    p.extend(flags_code());
    p.extend([Push1(4), Op(AND), PushL("rev"), Op(JUMPI)]);
    p.extend([Push1(64), Push2(SLOT1), Op(RETURN)]);
    p.extend([Label("rev"), Push1(64), Push2(SLOT1), Op(REVERT)]);
    p.push(Label("short"));
    p.extend(flags_code());
    p.extend([Push1(0x80), Op(EQ), PushL("kill"), Op(JUMPI), Op(STOP)]);
    p.extend([Label("kill"), Op(CALLER), Op(SELFDESTRUCT)]);
    assemble(&p)
}

/// killable runtime: empty calldata -> STOP, otherwise SELFDESTRUCT(caller)
fn kill_runtime() -> Vec<u8> {
    assemble(&[Op(CALLDATASIZE), Op(ISZERO), PushL("l"), Op(JUMPI), Op(CALLER), Op(SELFDESTRUCT), Label("l"), Op(STOP)])
}

fn deployer(runtime: &[u8]) -> Vec<u8> {
    // 11-byte header: copy the runtime that follows to memory 0 and return it
    let mut p = vec![Push2(runtime.len() as u16), Op(DUP1), Push2(11), Op(PUSH0), Op(CODECOPY), Op(PUSH0), Op(RETURN)];
    p.push(Raw(runtime.to_vec()));
    assemble(&p)
}

#[derive(Clone, Debug, Serialize, Deserialize, PartialEq)]
enum ICode {
    Empty,
    Kill,
    Factory,
    Revert,
    Ef,
    CtorKill,
    CtorCreate(Box<ICode>),
}

fn initcode(ic: &ICode) -> Vec<u8> {
    match ic {
        ICode::Empty => vec![],
        ICode::Kill => deployer(&kill_runtime()),
        ICode::Factory => deployer(&factory_runtime()),
        ICode::Revert => assemble(&[Op(PUSH0), Op(PUSH0), Op(REVERT)]),
        ICode::Ef => assemble(&[Push1(0xef), Op(PUSH0), Op(MSTORE8), Push1(1), Op(PUSH0), Op(RETURN)]),
        ICode::CtorKill => assemble(&[Op(CALLER), Op(SELFDESTRUCT)]),
        ICode::CtorCreate(child) => {
            let c = initcode(child);
            let k = kill_runtime();
            let off = 26u16;
            let p = vec![
                Push2(c.len() as u16), Push2(off), Op(PUSH0), Op(CODECOPY),
                Push2(c.len() as u16), Op(PUSH0), Op(PUSH0), Op(CREATE), Op(POP),
                Push2(k.len() as u16), Op(DUP1), Push2(off + c.len() as u16), Op(PUSH0), Op(CODECOPY), Op(PUSH0), Op(RETURN),
                Raw(c), Raw(k),
            ];
            assemble(&p)
        }
    }
}
fn icode_depth(ic: &ICode) -> usize {
    match ic { ICode::CtorCreate(c) => 1 + icode_depth(c), _ => 1 }
}
fn coq_icode(ic: &ICode) -> String {
    match ic {
        ICode::Empty => "IC_empty".into(),
        ICode::Kill => "IC_kill".into(),
        ICode::Factory => "IC_factory".into(),
        ICode::Revert => "IC_revert".into(),
        ICode::Ef => "IC_ef".into(),
        ICode::CtorKill => "IC_ctor_kill".into(),
        ICode::CtorCreate(c) => format!("(IC_ctor_create {})", coq_icode(c)),
    }
}

// ------------------------------------------------------------------------------------------------
// operations
#[derive(Clone, Debug, Serialize, Deserialize)]
enum Dest {
    Id(u64),
    Addr(Vec<u8>),
}

#[derive(Clone, Debug, Serialize, Deserialize)]
enum Cmd {
    Empty,
    Kill,
    Fac { flags: u8, salt: Vec<u8>, child: ICode },
}

#[derive(Clone, Debug, Serialize, Deserialize)]
enum IOp {
    Send { from: u64, to: Dest },
    /// code: builtin type number, 0 = a CID that is no builtin actor; variant 0 = valid constructor params
    Exec { from: u64, code: i32, variant: u8 },
    CreateMiner { from: u64, variant: u8 },
    Exec4 { from: u64, sub: Vec<u8>, code: i32, ic: Option<ICode>, variant: u8 },
    EamCreate { from: u64, nonce: u64, ic: ICode, force: Option<Vec<u8>> },
    EamCreate2 { from: u64, salt: Vec<u8>, ic: ICode, force: Option<Vec<u8>> },
    EamCreateExternal { from: u64, ic: ICode, force: Option<Vec<u8>> },
    Invoke { from: u64, target: u64, cmd: Cmd, force: Option<Vec<u8>> },
}

#[derive(Clone, Debug, Serialize, Deserialize)]
struct ICase {
    ops: Vec<IOp>,
}

fn kind(op: &IOp) -> &'static str {
    match op {
        IOp::Send { .. } => "send",
        IOp::Exec { .. } => "exec",
        IOp::CreateMiner { .. } => "create_miner",
        IOp::Exec4 { .. } => "exec4",
        IOp::EamCreate { .. } => "eam_create",
        IOp::EamCreate2 { .. } => "eam_create2",
        IOp::EamCreateExternal { .. } => "eam_create_external",
        IOp::Invoke { cmd: Cmd::Fac { .. }, .. } => "invoke_factory",
        IOp::Invoke { cmd: Cmd::Kill, .. } => "invoke_kill",
        IOp::Invoke { .. } => "invoke_empty",
    }
}
fn op_from(op: &IOp) -> u64 {
    match op {
        IOp::Send { from, .. } | IOp::Exec { from, .. } | IOp::CreateMiner { from, .. } | IOp::Exec4 { from, .. }
        | IOp::EamCreate { from, .. } | IOp::EamCreate2 { from, .. } | IOp::EamCreateExternal { from, .. }
        | IOp::Invoke { from, .. } => *from,
    }
}

// ------------------------------------------------------------------------------------------------
// snapshots of the implementation's state
#[derive(Clone, Debug, PartialEq)]
struct EvmObs {
    nonce: u64,
    tomb: Option<(u64, u64)>,
    rt: u8,
}
#[derive(Clone, Debug, PartialEq)]
struct ActorObs {
    code: i32,
    deleg: Option<Vec<u8>>,
    evm: Option<EvmObs>,
    seq: u64,
}
#[derive(Clone, Debug, Default)]
struct Snap {
    amap: BTreeMap<Vec<u8>, u64>,
    next_id: u64,
    actors: BTreeMap<u64, ActorObs>,
}

struct World {
    v: Vvm,
    accts: Vec<u64>,
    kill_rt: Vec<u8>,
    fac_rt: Vec<u8>,
}

fn snapshot(w: &World) -> Snap {
    let st: InitState = get_state(&w.v, &INIT_ACTOR_ADDR).unwrap();
    let map: Map2<&fil_actors_runtime::test_blockstores::MemoryBlockstore, Address, ActorID> =
        Map2::load(w.v.store.as_ref(), &st.address_map, DEFAULT_HAMT_CONFIG, "addresses").unwrap();
    let mut amap = BTreeMap::new();
    map.for_each(|k, v| {
        amap.insert(k.to_bytes(), *v);
        Ok(())
    })
    .unwrap();
    let mut actors = BTreeMap::new();
    for (addr, a) in w.v.actor_states() {
        let id = addr.id().unwrap();
        let ty = ACTOR_TYPES.get(&a.code).map(|t| *t as i32).unwrap_or(0);
        let evm = if ty == Type::EVM as i32 && a.state != fil_actors_runtime::runtime::EMPTY_ARR_CID {
            let s: fil_actor_evm::State = get_state(&w.v, &addr).unwrap();
            let code = w.v.store.get(&s.bytecode).unwrap().unwrap_or_default();
            let rt = if code.is_empty() { 0 } else if code == w.kill_rt { 1 } else if code == w.fac_rt { 2 } else { 9 };
            Some(EvmObs { nonce: s.nonce, tomb: s.tombstone.map(|t| (t.origin, t.nonce)), rt })
        } else {
            None
        };
        actors.insert(id, ActorObs { code: ty, deleg: a.delegated_address.map(|d| d.to_bytes()), evm, seq: a.sequence });
    }
    Snap { amap, next_id: st.next_id, actors }
}

fn setup() -> World {
    TABLE.with(|t| t.borrow_mut().clear());
    HASH_LOG.with(|l| l.borrow_mut().clear());
    FORCE_NEXT.with(|f| *f.borrow_mut() = None);
    let v = new_world();
    v.primitives.hash.replace(Some(hash_hook));
    let mut accts: Vec<u64> = fil_actors_integration_tests::util::create_accounts(&v, 3, &TokenAmount::from_whole(100_000_000))
        .iter()
        .map(|a| a.id().unwrap())
        .collect();
    // one secp256k1 account
    let secp = Address::new_secp256k1(&[7u8; 65]).unwrap();
    let r = exec::<()>(&v, &vharness::vvm::TEST_FAUCET_ADDR, &secp, &TokenAmount::from_whole(1_000_000), METHOD_SEND, None);
    assert_eq!(code(&r), 0);
    accts.push(v.resolve_id_address(&secp).unwrap().id().unwrap());
    // let the power actor pay a create-miner deposit when it is the injected sender of Init.Exec
    let mut p = v.actor(&STORAGE_POWER_ACTOR_ADDR).unwrap();
    p.balance = TokenAmount::from_whole(1_000_000);
    v.set_actor(&STORAGE_POWER_ACTOR_ADDR, p);
    v.take_invocations();
    World { v, accts, kill_rt: kill_runtime(), fac_rt: factory_runtime() }
}

// ------------------------------------------------------------------------------------------------
// executing one operation on the implementation
#[derive(Clone, Debug)]
enum RetObs {
    None,
    Exec(u64, Vec<u8>),
    Eam(u64, Option<Vec<u8>>, Vec<u8>),
    Fac(Vec<u8>, Vec<u8>),
}

struct Outcome {
    code: u32,
    ret: RetObs,
    ctor_exit: u32,
    key: Vec<u8>,
    seq: u64,
    robusts: Vec<Vec<u8>>,
    log: Vec<Vec<u8>>,
    codehash: Vec<u8>,
}

fn code_cid(code: i32) -> cid::Cid {
    match num_traits::FromPrimitive::from_i32(code).and_then(|t: Type| ACTOR_CODES.get(&t).cloned()) {
        Some(c) => c,
        None => make_identity_cid(b"not-a-builtin-actor"),
    }
}

fn ctor_params(w: &World, code: i32, variant: u8) -> RawBytes {
    let a = |i: usize| Address::new_id(w.accts[i]);
    if code == Type::Multisig as i32 {
        let signers = if variant == 0 { vec![a(0), a(1)] } else { vec![] };
        RawBytes::serialize(fil_actor_multisig::ConstructorParams { signers, num_approvals_threshold: 1, unlock_duration: 0, start_epoch: 0 }).unwrap()
    } else if code == Type::PaymentChannel as i32 {
        let from = if variant == 0 { a(0) } else { INIT_ACTOR_ADDR };
        RawBytes::serialize(fil_actor_paych::ConstructorParams { from, to: a(1) }).unwrap()
    } else if code == Type::Miner as i32 {
        let worker = if variant == 0 { a(0) } else { a(3) }; // the secp account cannot be a worker
        RawBytes::serialize(fil_actor_miner::MinerConstructorParams {
            owner: a(1),
            worker,
            control_addresses: vec![],
            window_post_proof_type: RegisteredPoStProof::StackedDRGWindow32GiBV1P1,
            peer_id: b"miner".to_vec(),
            multi_addresses: vec![BytesDe(b"multiaddr".to_vec())],
        })
        .unwrap()
    } else {
        RawBytes::default()
    }
}

fn find_ctor_exit(t: &InvocationTrace) -> Option<u32> {
    if t.from == 1 && t.method == 1 {
        return Some(t.exit_code.value());
    }
    for s in &t.subinvocations {
        if let Some(c) = find_ctor_exit(s) {
            return Some(c);
        }
    }
    None
}

fn eth_of(a: &ActorObs) -> Option<Vec<u8>> {
    match &a.deleg {
        Some(d) if d.len() == 22 && d[0] == 4 && d[1] == EAM_ACTOR_ID as u8 => Some(d[2..].to_vec()),
        _ => None,
    }
}

fn run_op(w: &World, op: &IOp, pre: &Snap) -> Outcome {
    let from_id = op_from(op);
    let from = Address::new_id(from_id);
    let seq = pre.actors.get(&from_id).map(|a| a.seq).unwrap_or(0);
    // what new_actor_address() will answer, as a function of the per-message creation counter
    let n_rob = match op {
        IOp::Invoke { cmd: Cmd::Fac { child, .. }, .. } => 2 * icode_depth(child) + 1,
        IOp::EamCreate { ic, .. } | IOp::EamCreate2 { ic, .. } | IOp::EamCreateExternal { ic, .. } => icode_depth(ic) + 1,
        IOp::Exec4 { ic: Some(ic), .. } => icode_depth(ic) + 1,
        _ => 2,
    };
    let robusts: Vec<Vec<u8>> = (0..n_rob as u64)
        .map(|k| {
            let mut b = from.to_bytes();
            b.extend_from_slice(&seq.to_be_bytes());
            b.extend_from_slice(&k.to_be_bytes());
            Address::new_actor(&b).to_bytes()
        })
        .collect();
    let key = match pre.actors.get(&from_id) {
        Some(a) if a.code == Type::Account as i32 => get_state::<fil_actor_account::State>(&w.v, &from).unwrap().address.to_bytes(),
        _ => vec![],
    };
    HASH_LOG.with(|l| l.borrow_mut().clear());
    let force = match op {
        IOp::EamCreate { force, .. } | IOp::EamCreate2 { force, .. } | IOp::EamCreateExternal { force, .. } | IOp::Invoke { force, .. } => force.clone(),
        _ => None,
    };
    FORCE_NEXT.with(|f| *f.borrow_mut() = force);
    let zero = TokenAmount::zero();
    let mut codehash = vec![];
    let r = match op {
        IOp::Send { to, .. } => {
            let t = match to {
                Dest::Id(i) => Address::new_id(*i),
                Dest::Addr(b) => Address::from_bytes(b).unwrap(),
            };
            exec::<()>(&w.v, &from, &t, &zero, METHOD_SEND, None)
        }
        IOp::Exec { code, variant, .. } => {
            let p = ExecParams { code_cid: code_cid(*code), constructor_params: ctor_params(w, *code, *variant) };
            // a miner constructor needs its deposit; only the power actor and the funded accounts can pay it
            let value = if *code == Type::Miner as i32 && (from_id == STORAGE_POWER_ACTOR_ID || w.accts.contains(&from_id)) && *variant != 2 {
                fil_actors_integration_tests::util::create_miner_deposit_for_test(&w.v)
            } else {
                zero.clone()
            };
            exec(&w.v, &from, &INIT_ACTOR_ADDR, &value, fil_actor_init::Method::Exec as u64, Some(p))
        }
        IOp::CreateMiner { variant, .. } => {
            let a = |i: usize| Address::new_id(w.accts[i]);
            let p = fil_actor_power::CreateMinerParams {
                owner: a(1),
                worker: if *variant == 1 { a(3) } else { a(0) },
                window_post_proof_type: RegisteredPoStProof::StackedDRGWindow32GiBV1P1,
                peer: b"miner".to_vec(),
                multiaddrs: vec![BytesDe(b"multiaddr".to_vec())],
            };
            let value = if *variant == 2 { zero.clone() } else { fil_actors_integration_tests::util::create_miner_deposit_for_test(&w.v) };
            exec(&w.v, &from, &STORAGE_POWER_ACTOR_ADDR, &value, fil_actor_power::Method::CreateMiner as u64, Some(p))
        }
        IOp::Exec4 { sub, code, ic, variant, .. } => {
            let cp = match ic {
                Some(ic) => RawBytes::serialize(fil_actor_evm::ConstructorParams {
                    creator: EthAddress::from_id(w.accts[0]),
                    initcode: initcode(ic).into(),
                })
                .unwrap(),
                None => ctor_params(w, *code, *variant),
            };
            let p = Exec4Params { code_cid: code_cid(*code), constructor_params: cp, subaddress: sub.clone().into() };
            exec(&w.v, &from, &INIT_ACTOR_ADDR, &zero, fil_actor_init::Method::Exec4 as u64, Some(p))
        }
        IOp::EamCreate { nonce, ic, .. } => {
            let p = CreateParams { initcode: initcode(ic), nonce: *nonce };
            exec(&w.v, &from, &EAM_ACTOR_ADDR, &zero, fil_actor_eam::Method::Create as u64, Some(p))
        }
        IOp::EamCreate2 { salt, ic, .. } => {
            let code = initcode(ic);
            codehash = real_keccak(&code);
            let p = Create2Params { initcode: code, salt: salt.clone().try_into().unwrap() };
            exec(&w.v, &from, &EAM_ACTOR_ADDR, &zero, fil_actor_eam::Method::Create2 as u64, Some(p))
        }
        IOp::EamCreateExternal { ic, .. } => {
            let p = CreateExternalParams(initcode(ic));
            exec(&w.v, &from, &EAM_ACTOR_ADDR, &zero, fil_actor_eam::Method::CreateExternal as u64, Some(p))
        }
        IOp::Invoke { target, cmd, .. } => {
            let data = match cmd {
                Cmd::Empty => vec![],
                Cmd::Kill => vec![0x80],
                Cmd::Fac { flags, salt, child } => {
                    let code = initcode(child);
                    codehash = real_keccak(&code);
                    let mut d = vec![*flags];
                    d.extend_from_slice(salt);
                    d.extend_from_slice(&code);
                    d
                }
            };
            let blk = IpldBlock::serialize_cbor(&fvm_ipld_encoding::BytesSer(&data)).unwrap();
            w.v.execute_message(&from, &Address::new_id(*target), &zero, fil_actor_evm::Method::InvokeContract as u64, blk).unwrap()
        }
    };
    FORCE_NEXT.with(|f| *f.borrow_mut() = None);
    let traces = w.v.take_invocations();
    let ctor_exit = traces.last().and_then(find_ctor_exit).unwrap_or(0);
    let c = code(&r);
    let ret = if c != 0 {
        RetObs::None
    } else {
        match op {
            IOp::Exec { .. } | IOp::Exec4 { .. } | IOp::CreateMiner { .. } => {
                let x: fil_actor_init::ExecReturn = r.ret.unwrap().deserialize().unwrap();
                RetObs::Exec(x.id_address.id().unwrap(), x.robust_address.to_bytes())
            }
            IOp::EamCreate { .. } | IOp::EamCreate2 { .. } | IOp::EamCreateExternal { .. } => {
                let x: fil_actor_eam::Return = r.ret.unwrap().deserialize().unwrap();
                RetObs::Eam(x.actor_id, x.robust_address.map(|a| a.to_bytes()), x.eth_address.0.to_vec())
            }
            IOp::Invoke { .. } => {
                let out: Vec<u8> = match r.ret {
                    Some(b) => b.deserialize::<BytesDe>().map(|x| x.0).unwrap_or_default(),
                    None => vec![],
                };
                if out.len() == 64 { RetObs::Fac(out[12..32].to_vec(), out[44..64].to_vec()) } else { RetObs::None }
            }
            IOp::Send { .. } => RetObs::None,
        }
    };
    let log = HASH_LOG.with(|l| l.borrow().clone());
    Outcome { code: c, ret, ctor_exit, key, seq, robusts, log, codehash }
}

// ------------------------------------------------------------------------------------------------
// Gallina printing
fn limbs(b: &[u8]) -> Vec<String> {
    b.chunks(7).map(|c| { let mut x = 0u64; for y in c { x = (x << 8) | *y as u64 } format!("{}%uint63", x) }).collect()
}
fn zl(b: &[u8]) -> String {
    format!("(B {} [{}])", b.len(), limbs(b).join("; "))
}
fn coq_code(code: i32) -> &'static str {
    match code {
        1 => "C_System", 2 => "C_Init", 3 => "C_Cron", 4 => "C_Account", 5 => "C_Power", 6 => "C_Miner",
        7 => "C_Market", 8 => "C_Paych", 9 => "C_Multisig", 10 => "C_Reward", 11 => "C_Verifreg",
        12 => "C_Datacap", 13 => "C_Placeholder", 14 => "C_Evm", 15 => "C_Eam", 16 => "C_EthAccount",
        _ => "C_Unknown",
    }
}
fn coq_hdr(from: u64, o: &Outcome) -> String {
    format!("{{| h_from := {}; h_seq := {}; h_robusts := {} |}}", from, o.seq, cf::list(o.robusts.iter().map(|r| zl(r))))
}
fn coq_op(op: &IOp, o: &Outcome) -> String {
    let h = coq_hdr(op_from(op), o);
    match op {
        IOp::Send { to, .. } => format!("Send {} {}", h, match to { Dest::Id(i) => format!("(D_id {})", i), Dest::Addr(b) => format!("(D_addr {})", zl(b)) }),
        IOp::Exec { code, .. } => format!("Exec {} {} {}", h, coq_code(*code), o.ctor_exit),
        IOp::CreateMiner { .. } => format!("CreateMiner {} {}", h, o.ctor_exit),
        IOp::Exec4 { sub, code, ic, .. } => format!(
            "Exec4 {} {} {} {}", h, zl(sub), coq_code(*code),
            match ic { Some(ic) => format!("(CS_evm {})", coq_icode(ic)), None => format!("(CS_oracle {})", o.ctor_exit) }),
        IOp::EamCreate { nonce, ic, .. } => format!("EamCreate {} {} {}", h, nonce, coq_icode(ic)),
        IOp::EamCreate2 { salt, ic, .. } => format!("EamCreate2 {} {} {} {}", h, zl(salt), zl(&o.codehash), coq_icode(ic)),
        IOp::EamCreateExternal { ic, .. } => format!("EamCreateExternal {} {} {}", h, zl(&o.key), coq_icode(ic)),
        IOp::Invoke { target, cmd, .. } => format!(
            "Invoke {} {} {}", h, target,
            match cmd {
                Cmd::Empty => "K_empty".to_string(),
                Cmd::Kill => "K_kill".to_string(),
                Cmd::Fac { flags, salt, child } => format!("(K_fac {} {} {} {})", flags, zl(salt), zl(&o.codehash), coq_icode(child)),
            }),
    }
}
fn enc_bytes(o: &mut Vec<String>, b: &[u8]) {
    o.push(cf::z(b.len()));
    o.extend(limbs(b));
}
fn enc_obytes(o: &mut Vec<String>, b: &Option<Vec<u8>>) {
    match b {
        None => o.push("0".into()),
        Some(b) => { o.push("1".into()); enc_bytes(o, b) }
    }
}
fn enc_actor(o: &mut Vec<String>, id: u64, a: &ActorObs) {
    o.push(cf::z(id));
    o.push(cf::z(a.code));
    enc_obytes(o, &a.deleg);
    match &a.evm {
        None => o.push("0".into()),
        Some(e) => {
            o.push("1".into());
            o.push(cf::z(e.nonce));
            match e.tomb {
                None => o.push("0".into()),
                Some((a, b)) => { o.push("1".into()); o.push(cf::z(a)); o.push(cf::z(b)) }
            }
            o.push(cf::z(e.rt));
        }
    }
}
fn amap_sorted(m: &BTreeMap<Vec<u8>, u64>) -> Vec<(u64, Vec<u8>)> {
    let mut v: Vec<(u64, Vec<u8>)> = m.iter().map(|(k, i)| (*i, k.clone())).collect();
    v.sort();
    v
}
fn same_obs(a: &ActorObs, b: &ActorObs) -> bool {
    a.code == b.code && a.deleg == b.deleg && a.evm == b.evm
}
fn obs(pre: &Snap, post: &Snap, o: &Outcome) -> Vec<String> {
    let mut v = vec![cf::z(o.code)];
    match &o.ret {
        RetObs::None => v.push("0".into()),
        RetObs::Exec(id, r) => { v.push("1".into()); v.push(cf::z(id)); enc_bytes(&mut v, r) }
        RetObs::Eam(id, r, e) => { v.push("2".into()); v.push(cf::z(id)); enc_obytes(&mut v, r); enc_bytes(&mut v, e) }
        RetObs::Fac(a, b) => { v.push("3".into()); enc_bytes(&mut v, a); enc_bytes(&mut v, b) }
    }
    v.push(cf::z(post.next_id));
    let d: Vec<(u64, Vec<u8>)> = amap_sorted(&post.amap).into_iter().filter(|(i, k)| pre.amap.get(k) != Some(i)).collect();
    v.push(cf::z(d.len()));
    for (i, k) in &d {
        v.push(cf::z(i));
        enc_bytes(&mut v, k);
    }
    let d: Vec<(&u64, &ActorObs)> = post.actors.iter().filter(|(i, a)| !pre.actors.get(i).map(|b| same_obs(a, b)).unwrap_or(false)).collect();
    v.push(cf::z(d.len()));
    for (i, a) in d {
        enc_actor(&mut v, *i, a);
    }
    v.push(cf::z(o.log.len()));
    for p in &o.log {
        enc_bytes(&mut v, p);
    }
    v.into_iter().map(|x| if x.ends_with("%uint63") { x } else { format!("{}%uint63", x) }).collect()
}
fn coq_world(s: &Snap) -> String {
    let am = cf::list(amap_sorted(&s.amap).iter().map(|(i, k)| format!("({}, {}%N)", zl(k), i)));
    let acts = cf::list(s.actors.iter().map(|(i, a)| {
        format!(
            "({}%N, mk_actor {} {} {})", i, coq_code(a.code),
            match &a.deleg { None => "None".to_string(), Some(d) => format!("(Some {})", zl(d)) },
            match &a.evm {
                None => "None".to_string(),
                Some(e) => format!(
                    "(Some {{| e_nonce := {}; e_tomb := {}; e_rt := {} |}})", e.nonce,
                    match e.tomb { None => "None".to_string(), Some((a, b)) => format!("(Some ({}%N, {}%Z))", a, b) },
                    match e.rt { 0 => "R_none", 1 => "R_kill", _ => "R_factory" }),
            })
    }));
    format!("mk_world {} {}%N {}", am, s.next_id, acts)
}

// ------------------------------------------------------------------------------------------------
// generator
fn rlp_addr_nonce(from: &[u8], nonce: u64) -> Vec<u8> {
    let nb: Vec<u8> = nonce.to_be_bytes().iter().cloned().skip_while(|b| *b == 0).collect();
    let mut payload = vec![0x94];
    payload.extend_from_slice(from);
    if nb.is_empty() { payload.push(0x80) } else if nb.len() == 1 && nb[0] < 0x80 { payload.push(nb[0]) } else { payload.push(0x80 + nb.len() as u8); payload.extend_from_slice(&nb) }
    let mut out = vec![0xc0 + payload.len() as u8];
    out.extend(payload);
    out
}
fn is_reserved(a: &[u8]) -> bool {
    let null = a.iter().all(|b| *b == 0);
    let pre = (a[0] == 0xfe || a[0] == 0x00) && a[1..19].iter().all(|b| *b == 0);
    let id = a[0] == 0xff && a[1..12].iter().all(|b| *b == 0);
    null || pre || id
}

fn gen_icode(r: &mut Prng, depth: u32) -> ICode {
    match r.below(100) {
        0..=29 => ICode::Kill,
        30..=54 => ICode::Factory,
        55..=61 => ICode::Empty,
        62..=72 => ICode::Revert,
        73..=77 => ICode::Ef,
        78..=85 => ICode::CtorKill,
        _ => if depth == 0 { ICode::Kill } else { ICode::CtorCreate(Box::new(gen_icode(r, depth - 1))) },
    }
}
fn gen_force(r: &mut Prng, pct: u64, s: &Snap) -> Option<Vec<u8>> {
    if !r.chance(pct) {
        return None;
    }
    let mut d = r.bytes(12);
    let mut a = vec![0u8; 20];
    match r.below(9) {
        0 => {}
        1 => { a[19] = 1 + r.below(0x20) as u8 }
        2 => { a[0] = 0xfe; a[19] = 1 + r.below(8) as u8 }
        3 => { a[0] = 0xfe }
        4 => { a[0] = 0xff; a[12..].copy_from_slice(&(*r.pick(&s.actors.keys().cloned().collect::<Vec<u64>>())).to_be_bytes()) }
        5 => { a[0] = 0xff; a[12..].copy_from_slice(&r.next_u64().to_be_bytes()) }
        // near misses that must be assignable
        6 => { a[0] = 0xfd; a[19] = 1 }
        7 => { a[0] = 0xff; a[11] = 1; a[19] = 5 }
        _ => { a[0] = 0xfe; a[18] = 1; a[19] = 5 }
    }
    d.extend(a);
    Some(d)
}

struct GenMem {
    salts: Vec<Vec<u8>>,
    fresh_key: u64,
    /// the Create / Create2 operation that deployed a contract (to re-deploy it after it died)
    origin: BTreeMap<u64, IOp>,
    /// deployments whose target address was pre-funded by an earlier Send (a placeholder sits there)
    planned: Vec<IOp>,
}

fn gen_op(r: &mut Prng, w: &World, s: &Snap, m: &mut GenMem) -> IOp {
    let evm: Vec<(u64, &ActorObs)> = s.actors.iter().filter(|(_, a)| a.code == Type::EVM as i32 && a.evm.is_some()).map(|(i, a)| (*i, a)).collect();
    let live_fac: Vec<u64> = evm.iter().filter(|(_, a)| { let e = a.evm.as_ref().unwrap(); e.rt == 2 && e.tomb.is_none() }).map(|(i, _)| *i).collect();
    let placeholders: Vec<u64> = s.actors.iter().filter(|(_, a)| a.code == Type::Placeholder as i32 && eth_of(a).is_some()).map(|(i, _)| *i).collect();
    let ethaccts: Vec<u64> = s.actors.iter().filter(|(_, a)| a.code == Type::EthAccount as i32).map(|(i, _)| *i).collect();
    let msigs: Vec<u64> = s.actors.iter().filter(|(i, a)| a.code == Type::Multisig as i32 && **i >= 100).map(|(i, _)| *i).collect();
    let acct = |r: &mut Prng| *r.pick(&w.accts);
    let user = |r: &mut Prng| -> u64 {
        match r.below(100) {
            0..=69 => *r.pick(&w.accts),
            70..=84 if !ethaccts.is_empty() => *r.pick(&ethaccts),
            85..=94 if !placeholders.is_empty() => *r.pick(&placeholders),
            _ => *r.pick(&w.accts),
        }
    };
    let salt = |r: &mut Prng, m: &GenMem| -> Vec<u8> { if r.chance(85) { r.pick(&m.salts).clone() } else { r.bytes(32) } };
    // re-deploy a self-destructed contract at the same address (same deployer and nonce / salt)
    let dead: Vec<u64> = evm.iter().filter(|(i, a)| a.evm.as_ref().unwrap().tomb.is_some() && m.origin.contains_key(i)).map(|(i, _)| *i).collect();
    if !dead.is_empty() && r.chance(if dead.len() > 2 { 12 } else { 7 }) {
        let mut op = m.origin[r.pick(&dead)].clone();
        if let IOp::EamCreate { ic, .. } = &mut op {
            if r.chance(50) { *ic = gen_icode(r, 1) }
        }
        return op;
    }
    // deploy over an address that an earlier Send pre-funded
    if !m.planned.is_empty() && r.chance(30) {
        let k = r.below(m.planned.len() as u64) as usize;
        let mut op = m.planned.swap_remove(k);
        if let IOp::EamCreate { ic, .. } = &mut op { *ic = gen_icode(r, 1) }
        if s.actors.contains_key(&op_from(&op)) { return op; }
    }
    let roll = r.below(100);
    // bootstrap: make sure there is a factory early on
    if live_fac.is_empty() && roll < 45 {
        return IOp::EamCreateExternal { from: user(r), ic: ICode::Factory, force: None };
    }
    match roll {
        0..=17 if !live_fac.is_empty() => {
            let flags = match r.below(100) {
                0..=19 => 0u8,
                20..=34 => 1,
                35..=46 => 2,
                47..=58 => 3,
                59..=66 => 3 | 8,
                67..=72 => 2 | 8,
                73..=79 => 4 | (r.below(4) as u8),
                80..=86 => 16 | (r.below(4) as u8),
                _ => r.below(32) as u8,
            };
            IOp::Invoke { from: user(r), target: *r.pick(&live_fac), cmd: Cmd::Fac { flags, salt: salt(r, m), child: gen_icode(r, 2) }, force: gen_force(r, 6, s) }
        }
        18..=25 if !evm.is_empty() => {
            // kill: prefer killable children, sometimes factories
            let t = r.pick(&evm).0;
            IOp::Invoke { from: user(r), target: t, cmd: Cmd::Kill, force: None }
        }
        26..=28 if !evm.is_empty() => IOp::Invoke { from: user(r), target: r.pick(&evm).0, cmd: Cmd::Empty, force: None },
        29..=38 => {
            let from = match r.below(100) {
                0..=84 => user(r),
                85..=89 if !evm.is_empty() => r.pick(&evm).0,
                90..=94 if !msigs.is_empty() => *r.pick(&msigs),
                _ => acct(r),
            };
            let ic = if r.chance(35) { ICode::Factory } else { gen_icode(r, 2) };
            IOp::EamCreateExternal { from, ic, force: gen_force(r, 6, s) }
        }
        39..=47 => {
            let (from, cur) = if !evm.is_empty() && r.chance(90) { let (i, a) = r.pick(&evm); (*i, a.evm.as_ref().unwrap().nonce) } else { (user(r), 1) };
            let nonce = match r.below(100) {
                0..=34 => cur,
                35..=54 => r.below(4),
                55..=89 => *r.pick(&[0u64, 0x7f, 0x80, 0xff, 0x100, 0xffff, 0x10000, 0xffff_ffff, 0x1_0000_0000, 0x00ff_ffff_ffff_ffff, 0x0100_0000_0000_0000, 0x7fff_ffff_ffff_ffff, 0x8000_0000_0000_0000, u64::MAX]),
                _ => r.next_u64() >> r.below(64),
            };
            IOp::EamCreate { from, nonce, ic: gen_icode(r, 2), force: gen_force(r, 6, s) }
        }
        48..=55 => {
            let from = if !evm.is_empty() && r.chance(90) { r.pick(&evm).0 } else { user(r) };
            IOp::EamCreate2 { from, salt: salt(r, m), ic: match r.below(100) { 0..=44 => ICode::Kill, 45..=69 => ICode::Factory, _ => gen_icode(r, 1) }, force: gen_force(r, 6, s) }
        }
        56..=66 => {
            let code = match r.below(100) {
                0..=24 => Type::Multisig as i32,
                25..=44 => Type::PaymentChannel as i32,
                45..=64 => Type::Miner as i32,
                65..=94 => *r.pick(&[1, 2, 3, 4, 5, 7, 10, 11, 12, 13, 14, 15, 16]),
                _ => 0,
            };
            let from = match r.below(100) {
                0..=49 => user(r),
                50..=74 => STORAGE_POWER_ACTOR_ID,
                75..=84 => EAM_ACTOR_ID,
                85..=92 if !msigs.is_empty() => *r.pick(&msigs),
                _ => *r.pick(&[0u64, 1, 2, 3, 5, 6, 7]),
            };
            IOp::Exec { from, code, variant: match r.below(10) { 0..=6 => 0, 7..=8 => 1, _ => 2 } }
        }
        67..=70 => IOp::CreateMiner { from: acct(r), variant: match r.below(10) { 0..=6 => 0, 7..=8 => 1, _ => 2 } },
        71..=79 => {
            if r.chance(25) {
                // a direct call from somebody who is not the address manager
                let from = if r.chance(70) { user(r) } else { *r.pick(&[0u64, 1, 4, 5]) };
                return match r.below(3) {
                    0 => IOp::Exec4 { from, sub: r.bytes(20), code: Type::EVM as i32, ic: Some(gen_icode(r, 1)), variant: 0 },
                    1 => IOp::Exec4 { from, sub: r.bytes(20), code: Type::Multisig as i32, ic: None, variant: 0 },
                    _ => IOp::Exec4 { from, sub: r.bytes(20), code: Type::PaymentChannel as i32, ic: None, variant: 0 },
                };
            }
            let nonres = |r: &mut Prng| loop { let b = r.bytes(20); if !is_reserved(&b) { return b } };
            let (sub, code, ic): (Vec<u8>, i32, Option<ICode>) = match r.below(100) {
                0..=34 => (nonres(r), Type::EVM as i32, Some(gen_icode(r, 2))),
                35..=49 if !placeholders.is_empty() => (eth_of(&s.actors[r.pick(&placeholders)]).unwrap(), Type::EVM as i32, Some(gen_icode(r, 1))),
                50..=59 if !evm.is_empty() => match eth_of(r.pick(&evm).1) { Some(e) => (e, Type::EVM as i32, Some(ICode::Kill)), None => (nonres(r), Type::EVM as i32, Some(ICode::Kill)) },
                60..=66 => (r.bytes(5), Type::EVM as i32, Some(ICode::Kill)),
                67..=72 => { let n = 55 + r.below(3) as usize; (r.bytes(n), Type::EVM as i32, Some(ICode::Kill)) }
                73..=80 => (nonres(r), Type::Multisig as i32, None),
                81..=85 => (nonres(r), Type::PaymentChannel as i32, None),
                86..=90 => (nonres(r), Type::Placeholder as i32, None),
                91..=95 => (nonres(r), *r.pick(&[5, 2, 15, 1]), None),
                _ => (nonres(r), 0, None),
            };
            IOp::Exec4 { from: EAM_ACTOR_ID, sub, code, ic, variant: if r.chance(80) { 0 } else { 1 } }
        }
        _ => {
            let f410 = |b: &[u8]| Address::new_delegated(EAM_ACTOR_ID, b).unwrap().to_bytes();
            let to = match r.below(100) {
                0..=14 => { m.fresh_key += 1; let mut k = [0u8; 65]; k[..8].copy_from_slice(&m.fresh_key.to_be_bytes()); k[9] = r.below(3) as u8; Dest::Addr(Address::new_secp256k1(&k).unwrap().to_bytes()) }
                15..=21 => { let mut k = [0u8; 48]; k[..8].copy_from_slice(&r.below(4).to_be_bytes()); Dest::Addr(Address::new_bls(&k).unwrap().to_bytes()) }
                22..=31 => Dest::Addr(f410(&r.bytes(20))),
                32..=54 if !evm.is_empty() => {
                    // the address a contract will create next (CREATE at its current nonce, or CREATE2 with a pool salt)
                    let (cid, a) = r.pick(&evm);
                    let from = eth_of(a).unwrap_or(vec![0; 20]);
                    if r.chance(50) {
                        let n = a.evm.as_ref().unwrap().nonce + r.below(2);
                        m.planned.push(IOp::EamCreate { from: *cid, nonce: n, ic: ICode::Kill, force: None });
                        Dest::Addr(f410(&real_keccak(&rlp_addr_nonce(&from, n))[12..]))
                    } else {
                        let mut p = vec![0xff];
                        p.extend_from_slice(&from);
                        let sl: Vec<u8> = r.pick(&m.salts).clone();
                        p.extend_from_slice(&sl);
                        p.extend_from_slice(&real_keccak(&initcode(&ICode::Kill)));
                        m.planned.push(IOp::EamCreate2 { from: *cid, salt: sl, ic: ICode::Kill, force: None });
                        Dest::Addr(f410(&real_keccak(&p)[12..]))
                    }
                }
                55..=59 => {
                    // where an account's / eth account's next CreateExternal will land
                    let u = user(r);
                    let a = &s.actors[&u];
                    let stable = match eth_of(a) {
                        Some(e) => e,
                        None => real_keccak(&get_state::<fil_actor_account::State>(&w.v, &Address::new_id(u)).map(|s| s.address.to_bytes()).unwrap_or_default())[12..].to_vec(),
                    };
                    Dest::Addr(f410(&real_keccak(&rlp_addr_nonce(&stable, a.seq + r.below(2)))[12..]))
                }
                60..=63 => { let mut a = vec![0u8; 20]; a[19] = 1 + r.below(9) as u8; if r.chance(50) { a[0] = 0xfe } Dest::Addr(f410(&a)) }
                64..=69 => { let n = 1 + r.below(30) as usize; let ns = *r.pick(&[5u64, 1, 101, 7]); Dest::Addr(Address::new_delegated(ns, &r.bytes(n)).unwrap().to_bytes()) }
                70..=75 => Dest::Addr(Address::new_delegated(*r.pick(&[77u64, 5000, 1 << 40]), &r.bytes(20)).unwrap().to_bytes()),
                76..=80 => Dest::Addr(Address::new_actor(&r.bytes(8)).to_bytes()),
                81..=85 => Dest::Id(*r.pick(&[50u64, 98, 5000]) + r.below(3)),
                86..=92 => Dest::Id(*r.pick(&s.actors.keys().cloned().collect::<Vec<u64>>())),
                _ => Dest::Addr(r.pick(&s.amap.keys().cloned().collect::<Vec<_>>()).clone()),
            };
            IOp::Send { from: user(r), to }
        }
    }
}

// ------------------------------------------------------------------------------------------------
// monitor: the property's predicates evaluated on the implementation's own states
struct Mon {
    returned_new: HashSet<u64>,
    /// (address bytes, id) pairs a successful Exec / Exec4 / CreateMiner / Create* handed out
    promised: Vec<(Vec<u8>, u64)>,
}

fn monitor(op: &IOp, pre: &Snap, post: &Snap, o: &Outcome, m: &mut Mon) -> Vec<(String, String)> {
    let mut bad: Vec<(String, String)> = vec![];
    let mut fail = |c: &str, s: String| bad.push((c.to_string(), s));
    // stable addresses are permanent
    for (a, i) in &pre.amap {
        match post.amap.get(a) {
            Some(j) if j == i => {}
            other => fail("address-map-entry-changed", format!("address {} mapped to {} before, {:?} after", hex::encode(a), i, other)),
        }
    }
    if post.next_id < pre.next_id {
        fail("next-id-decreased", format!("{} -> {}", pre.next_id, post.next_id));
    }
    let pre_vals: HashSet<u64> = pre.amap.values().cloned().collect();
    for (a, i) in &post.amap {
        if !pre.amap.contains_key(a) {
            if *i >= post.next_id {
                fail("id-not-below-next-id", format!("{} -> {} with next_id {}", hex::encode(a), i, post.next_id));
            }
            if *i < pre.next_id && !pre_vals.contains(i) {
                fail("old-id-reassigned", format!("new entry {} -> {} reuses an id below the old next_id {} that no address had", hex::encode(a), i, pre.next_id));
            }
        }
    }
    // actor table: fresh ids, code transitions, delegated address stability, evm incarnations
    let cur = (op_from(op), o.seq);
    for (i, a) in &post.actors {
        match pre.actors.get(i) {
            None => {
                if *i < pre.next_id || *i >= post.next_id {
                    fail("new-actor-at-used-id", format!("actor {} appeared; next_id {} -> {}", i, pre.next_id, post.next_id));
                }
            }
            Some(b) => {
                let from_to_ok = a.code == b.code
                    || (b.code == Type::Placeholder as i32 && (a.code == Type::EVM as i32 || a.code == Type::EthAccount as i32));
                if !from_to_ok {
                    fail("illegal-code-transition", format!("actor {}: code {} -> {}", i, b.code, a.code));
                }
                if a.deleg != b.deleg {
                    fail("delegated-address-changed", format!("actor {}", i));
                }
                if let (Some(e0), Some(e1)) = (&b.evm, &a.evm) {
                    let was_dead = e0.tomb.map(|t| t != cur).unwrap_or(false);
                    let continued = e1.nonce >= e0.nonce && (e1.tomb == e0.tomb || e1.tomb == Some(cur)) && (e1.rt == e0.rt);
                    if !continued && !was_dead {
                        fail("live-contract-overwritten", format!("actor {}: {:?} -> {:?}", i, e0, e1));
                    }
                    if e1.nonce < e0.nonce && !was_dead {
                        fail("nonce-decreased", format!("actor {}: {} -> {}", i, e0.nonce, e1.nonce));
                    }
                }
                if b.evm.is_some() && a.evm.is_none() {
                    fail("contract-state-lost", format!("actor {}", i));
                }
            }
        }
        // reserved ranges are never assigned by the address manager
        if a.code == Type::EVM as i32 && !matches!(op, IOp::Exec4 { .. }) && pre.actors.get(i).map(|b| b.code != a.code).unwrap_or(true) {
            if let Some(e) = eth_of(a) {
                if is_reserved(&e) {
                    fail("reserved-address-assigned", format!("actor {} deployed at 0x{}", i, hex::encode(&e)));
                }
            }
        }
    }
    for i in pre.actors.keys() {
        if !post.actors.contains_key(i) {
            fail("actor-disappeared", format!("actor {}", i));
        }
    }
    // CREATE / CREATE2 consume a nonce whether or not the child's constructor succeeds
    if let (IOp::Invoke { target, cmd: Cmd::Fac { flags, .. }, .. }, 0) = (op, o.code) {
        if let (Some(e0), Some(e1)) = (pre.actors.get(target).and_then(|a| a.evm.as_ref()), post.actors.get(target).and_then(|a| a.evm.as_ref())) {
            if e0.rt == 2 && e0.tomb.is_none() && flags & 4 == 0 {
                let attempts = (if flags & 16 == 0 { 1 } else { 0 }) + (if flags & 2 != 0 { 1 } else { 0 });
                if e1.nonce < e0.nonce + attempts {
                    fail("nonce-not-consumed", format!("factory {}: nonce {} -> {} after {} creation attempts", target, e0.nonce, e1.nonce, attempts));
                }
                if flags & 16 != 0 && flags & 2 == 0 && e1.nonce != e0.nonce {
                    fail("nonce-consumed-without-funds", format!("factory {}: nonce {} -> {}", target, e0.nonce, e1.nonce));
                }
            }
        }
    }
    // every address returned together with an id resolves to that id in the init actor's map, from now on
    if o.code == 0 {
        match &o.ret {
            RetObs::Exec(id, robust) => m.promised.push((robust.clone(), *id)),
            RetObs::Eam(id, robust, eth) => {
                if let Some(rb) = robust { m.promised.push((rb.clone(), *id)) }
                m.promised.push((Address::new_delegated(EAM_ACTOR_ID, eth).unwrap().to_bytes(), *id));
            }
            _ => {}
        }
    }
    for (a, id) in &m.promised {
        if post.amap.get(a) != Some(id) {
            fail("stable-address-not-mapped", format!("address {} was returned for actor {} but resolves to {:?}", hex::encode(a), id, post.amap.get(a)));
        }
    }
    if o.code == 0 {
        match (op, &o.ret) {
            (IOp::Exec { from, code, .. }, RetObs::Exec(id, _)) => {
                let caller_code = pre.actors.get(from).map(|a| if a.code == Type::Placeholder as i32 { Type::EthAccount as i32 } else { a.code }).unwrap_or(0);
                let ok = *code == Type::Multisig as i32 || *code == Type::PaymentChannel as i32 || (*code == Type::Miner as i32 && caller_code == Type::Power as i32);
                if !ok {
                    fail("exec-matrix", format!("caller type {} created code type {}", caller_code, code));
                }
                if *id != pre.next_id {
                    fail("exec-id-not-next-id", format!("returned {} but next_id was {}", id, pre.next_id));
                }
                if !m.returned_new.insert(*id) {
                    fail("id-returned-twice", format!("{}", id));
                }
            }
            (IOp::CreateMiner { .. }, RetObs::Exec(id, _)) => {
                if *id != pre.next_id {
                    fail("exec-id-not-next-id", format!("returned {} but next_id was {}", id, pre.next_id));
                }
                if !m.returned_new.insert(*id) {
                    fail("id-returned-twice", format!("{}", id));
                }
            }
            (IOp::Exec4 { from, .. }, RetObs::Exec(id, _)) => {
                if *from != EAM_ACTOR_ID {
                    fail("exec4-caller", format!("Exec4 accepted from {}", from));
                }
                if !pre.actors.contains_key(id) && !m.returned_new.insert(*id) {
                    fail("id-returned-twice", format!("{}", id));
                }
            }
            (IOp::EamCreate { .. } | IOp::EamCreate2 { .. } | IOp::EamCreateExternal { .. }, RetObs::Eam(id, robust, eth)) => {
                if !pre.actors.contains_key(id) {
                    if *id < pre.next_id {
                        fail("new-actor-at-used-id", format!("EAM returned new id {} below next_id {}", id, pre.next_id));
                    }
                    if !m.returned_new.insert(*id) {
                        fail("id-returned-twice", format!("{}", id));
                    }
                }
                if let Some(b) = pre.actors.get(id) {
                    let dead = b.evm.as_ref().and_then(|e| e.tomb).map(|t| t != cur).unwrap_or(false);
                    if !(b.code == Type::Placeholder as i32 || (b.code == Type::EVM as i32 && dead)) {
                        fail("deployed-over-live-actor", format!("actor {} code {}", id, b.code));
                    }
                    if b.code == Type::EVM as i32 && robust.is_some() {
                        fail("resurrect-returned-robust", format!("{}", id));
                    }
                }
                if is_reserved(eth) {
                    fail("reserved-address-assigned", format!("EAM returned 0x{}", hex::encode(eth)));
                }
                // the address is the last 20 bytes of keccak of a pre-image hashed during this message
                let ok = o.log.iter().any(|p| TABLE.with(|t| t.borrow().get(p).map(|d| d[12..] == eth[..]).unwrap_or(false)));
                if !ok {
                    fail("address-not-derived", format!("0x{} is not keccak(pre-image)[12..] of any pre-image of this message", hex::encode(eth)));
                }
                // and the pre-image is the specified one
                let want: Option<Vec<u8>> = match op {
                    IOp::EamCreate { from, nonce, .. } => pre.actors.get(from).and_then(eth_of).map(|f| rlp_addr_nonce(&f, *nonce)),
                    IOp::EamCreate2 { from, salt, .. } => pre.actors.get(from).and_then(eth_of).map(|f| { let mut p = vec![0xff]; p.extend(f); p.extend(salt.clone()); p.extend(o.codehash.clone()); p }),
                    IOp::EamCreateExternal { from, .. } => {
                        let a = &pre.actors[from];
                        let st = if a.code == Type::Account as i32 { Some(real_keccak(&o.key)[12..].to_vec()) } else { eth_of(a) };
                        st.map(|s| rlp_addr_nonce(&s, o.seq))
                    }
                    _ => None,
                };
                if let Some(p) = want {
                    if o.log.first() != Some(&p) {
                        fail("preimage-not-as-specified", format!("expected {} got {:?}", hex::encode(&p), o.log.first().map(hex::encode)));
                    }
                }
            }
            _ => {}
        }
    }
    bad
}

// ------------------------------------------------------------------------------------------------
fn run_case(pc: &ICase, stats: &mut Stats, genr: Option<(&mut Prng, usize)>) -> (Case, ICase, Vec<serde_json::Value>) {
    let w = setup();
    let snap0 = snapshot(&w);
    let mut snap = snap0.clone();
    let mut steps = vec![];
    let mut ops_done = vec![];
    let mut mon = Mon { returned_new: HashSet::new(), promised: vec![] };
    let mut fails = vec![];
    let (mut acc, mut rej) = (false, false);
    let mut genr = genr;
    let n = match &genr { Some((_, n)) => *n, None => pc.ops.len() };
    let mut mem = GenMem { salts: (1u8..=3).map(|k| vec![k; 32]).collect(), fresh_key: 0, origin: BTreeMap::new(), planned: vec![] };
    for i in 0..n {
        let op = match &mut genr { Some((r, _)) => gen_op(r, &w, &snap, &mut mem), None => pc.ops[i].clone() };
        if !snap.actors.contains_key(&op_from(&op)) {
            continue;
        }
        // a panic of the VM itself (e.g. auto-creation over an id that is already taken) ends the history
        let out = match std::panic::catch_unwind(std::panic::AssertUnwindSafe(|| run_op(&w, &op, &snap))) {
            Ok(o) => o,
            Err(p) => {
                let msg = if let Some(s) = p.downcast_ref::<String>() { s.clone() } else if let Some(s) = p.downcast_ref::<&str>() { s.to_string() } else { "panic".to_string() };
                ops_done.push(op.clone());
                stats.op(kind(&op), 999);
                fails.push(serde_json::json!({"class": "vm-panic", "step": i, "what": [msg], "case": ICase { ops: ops_done.clone() }}));
                break;
            }
        };
        let post = snapshot(&w);
        stats.op(kind(&op), out.code);
        if out.code == 0 { acc = true } else { rej = true }
        let bad = monitor(&op, &snap, &post, &out, &mut mon);
        ops_done.push(op.clone());
        for (class, what) in bad {
            fails.push(serde_json::json!({"class": class, "step": i, "what": [what], "case": ICase { ops: ops_done.clone() }}));
        }
        for p in w.v.panics.borrow().iter() { stats.panics.push(p.clone()); }
        w.v.panics.borrow_mut().clear();
        // coverage counters
        let mut bump = |k: &str| { let e = stats.extra.entry(k.to_string()).or_insert(serde_json::json!(0)); *e = serde_json::json!(e.as_u64().unwrap() + 1); };
        for (id, a) in &post.actors {
            match snap.actors.get(id) {
                None => bump(&format!("new_actor_type_{}", a.code)),
                Some(b) => {
                    if b.code != a.code { bump(&format!("transition_{}_to_{}", b.code, a.code)) }
                    if let (Some(e0), Some(e1)) = (&b.evm, &a.evm) {
                        if e0.tomb.is_some() && e1.tomb.is_none() { bump("resurrected") }
                        if e0.tomb.is_none() && e1.tomb.is_some() { bump("selfdestructed") }
                        if e1.nonce > e0.nonce && out.code == 0 { bump("nonce_advanced") }
                        if e1.nonce < e0.nonce { bump("nonce_reset_by_resurrection") }
                    }
                }
            }
        }
        if let RetObs::Fac(a1, a2) = &out.ret {
            if a1.iter().any(|b| *b != 0) { bump("factory_child_created") } else { bump("factory_child_failed") }
            if a2.iter().any(|b| *b != 0) { bump("factory_second_child_created") }
        }
        match &op { IOp::EamCreate { force: Some(_), .. } | IOp::EamCreate2 { force: Some(_), .. } | IOp::EamCreateExternal { force: Some(_), .. } | IOp::Invoke { force: Some(_), .. } => bump(&format!("forced_digest_code_{}", out.code)), _ => {} }
        bump(&format!("preimages_{}", out.log.len().min(4)));
        if let (RetObs::Eam(id, _, _), IOp::EamCreate { .. } | IOp::EamCreate2 { .. }) = (&out.ret, &op) {
            let mut o2 = op.clone();
            match &mut o2 { IOp::EamCreate { force, .. } | IOp::EamCreate2 { force, .. } => *force = None, _ => {} }
            mem.origin.insert(*id, o2);
        }
        steps.push((coq_op(&op, &out), obs(&snap, &post, &out)));
        snap = post;
    }
    // final full dump
    let empty = Snap::default();
    let dump = Outcome { code: 0, ret: RetObs::None, ctor_exit: 0, key: vec![], seq: 0, robusts: vec![], log: vec![], codehash: vec![] };
    steps.push(("Dump".to_string(), obs(&empty, &snap, &dump)));
    let table = TABLE.with(|t| cf::list(t.borrow().iter().map(|(k, d)| format!("({}, {})", zl(k), zl(d)))));
    let init = format!("({}, {})", table, coq_world(&snap0));
    (Case { init, steps, nontrivial: acc && rej }, ICase { ops: ops_done }, fails)
}

fn main() {
    let a = cf::parse_args();
    let mut stats = Stats::default();
    let header = "From stdpp Require Import gmap.\nFrom VF Require Import Model.Init Model.Eam Base.Corr.\nFrom Coq Require Import ZArith NArith List Uint63.\nImport ListNotations.\nOpen Scope Z_scope.\n";
    let mut cw = CaseWriter::new(&a.out, header, "check_case", a.shards);
    if let Some(p) = &a.replay {
        let v: serde_json::Value = serde_json::from_str(&std::fs::read_to_string(p).unwrap()).unwrap();
        let cv = if v.get("case").is_some() { v["case"].clone() } else { v["violation"]["detail"]["case"].clone() };
        let pc: ICase = serde_json::from_value(cv).unwrap();
        let (c, _, fails) = run_case(&pc, &mut stats, None);
        cw.push(c);
        for f in fails { stats.monitor_fail(f); }
        cw.finish(&stats, "identity");
        return;
    }
    let corpus = std::path::Path::new(env!("CARGO_MANIFEST_DIR")).join("../corpus/C20");
    if let Ok(rd) = std::fs::read_dir(&corpus) {
        let mut files: Vec<_> = rd.filter_map(|e| e.ok()).map(|e| e.path()).collect();
        files.sort();
        for f in files {
            if f.extension().map(|x| x == "json").unwrap_or(false) {
                let v: serde_json::Value = serde_json::from_str(&std::fs::read_to_string(&f).unwrap()).unwrap();
                let pc: ICase = serde_json::from_value(v["case"].clone()).unwrap();
                let (c, _, fails) = run_case(&pc, &mut stats, None);
                cw.push(c);
                for f in fails { stats.monitor_fail(f); }
            }
        }
    }
    let mut root = Prng::new(a.seed);
    for k in 0..a.cases {
        let mut r = root.fork(k as u64);
        let pc = ICase { ops: vec![] };
        let (c, _, fails) = run_case(&pc, &mut stats, Some((&mut r, a.len)));
        cw.push(c);
        for f in fails { stats.monitor_fail(f); }
    }
    cw.finish(&stats, "identity");
}
