//! Power-claims correspondence + monitor harness: the real storage power actor (with the real init,
//! miner, reward and cron actors) on the harness VM against coq/Model/Power.v.
//!
//! Ops: CreateMiner through Power::CreateMiner, UpdateClaimedPower injected "from the miner actor"
//! (or from a plain account), and the claim deletion of the cron-failure path: garbage cron events
//! enrolled by miners followed by one Power::OnEpochTickEnd sent "from the cron actor".
//!
//! A tick with k > 1 garbage events deletes k claims (or one claim twice) inside ONE message; to
//! obtain a real observation after each of the k `PDeleteClaim` model steps the harness executes the
//! tick for every prefix of the event list from the same VM checkpoint (prefix j = the first j events
//! enrolled): observation j is the real state after the real tick with j failing callbacks.
use fil_actor_power::{
    Claim, EnrollCronEventParams, Method as PowerMethod, State as PowerState,
    UpdateClaimedPowerParams, CONSENSUS_MINER_MIN_MINERS,
};
use fil_actors_integration_tests::util::{create_accounts, create_miner};
use fil_actors_runtime::{CRON_ACTOR_ADDR, STORAGE_POWER_ACTOR_ADDR};
use fvm_ipld_encoding::RawBytes;
use fvm_shared::address::Address;
use fvm_shared::bigint::BigInt;
use fvm_shared::econ::TokenAmount;
use fvm_shared::sector::RegisteredPoStProof;
use num_traits::{Signed, ToPrimitive, Zero};
use serde::{Deserialize, Serialize};
use std::collections::BTreeMap;
use vharness::coqfmt::{self as cf, Case, CaseWriter, Stats};
use vharness::prng::Prng;
use vharness::util::*;
use vharness::vvm::Vvm;
use vm_api::trace::InvocationTrace;
use vm_api::util::get_state;
use vm_api::VM;

const MAX_MINERS: usize = 7;
const N_ACCOUNTS: u64 = 8; // 7 owners (= workers) + 1 plain account used as non-miner caller
const ON_DEFERRED_CRON_EVENT: u64 = fil_actor_miner::Method::OnDeferredCronEvent as u64;

#[derive(Clone, Debug, Serialize, Deserialize, PartialEq)]
enum Who {
    /// index into the miners of the case, in creation order
    Miner(usize),
    /// the plain account actor
    Account,
}

#[derive(Clone, Debug, Serialize, Deserialize)]
enum WOp {
    Create,
    /// deltas as decimal strings (may exceed 64 bits)
    Update { who: Who, dr: String, dq: String },
    /// garbage cron events enrolled by these miners (indexes, in this order), then one tick
    Delete { events: Vec<usize> },
}

#[derive(Clone, Debug, Serialize, Deserialize)]
struct WCase {
    min_power: i64,
    ops: Vec<WOp>,
}

struct World {
    v: Vvm,
    accts: Vec<Address>,
    miners: Vec<Address>,
}

#[derive(Clone, Debug, Default, PartialEq)]
struct Snap {
    total_raw: BigInt,
    total_bytes: BigInt,
    total_qa: BigInt,
    total_qa_bytes: BigInt,
    miner_count: i64,
    above: i64,
    ctp: (BigInt, BigInt),
    claims: BTreeMap<u64, (BigInt, BigInt)>,
}

fn snapshot(v: &Vvm) -> Snap {
    let st: PowerState = get_state(v, &STORAGE_POWER_ACTOR_ADDR).unwrap();
    let claims = st.load_claims(v.store.as_ref()).unwrap();
    let mut m = BTreeMap::new();
    claims
        .for_each(|k: Address, c: &Claim| {
            m.insert(k.id().unwrap(), (c.raw_byte_power.clone(), c.quality_adj_power.clone()));
            Ok(())
        })
        .unwrap();
    let ctp = st.current_total_power();
    Snap {
        total_raw: st.total_raw_byte_power,
        total_bytes: st.total_bytes_committed,
        total_qa: st.total_quality_adj_power,
        total_qa_bytes: st.total_qa_bytes_committed,
        miner_count: st.miner_count,
        above: st.miner_above_min_power_count,
        ctp,
        claims: m,
    }
}

fn setup(min_power: i64) -> World {
    let mut v = new_world();
    v.policy.minimum_consensus_power = BigInt::from(min_power);
    let s = snapshot(&v);
    if s != Snap::default() {
        panic!("genesis power state of new_world() is not empty/all-zero: {:?}", s);
    }
    let accts = create_accounts(&v, N_ACCOUNTS, &TokenAmount::from_whole(10_000));
    World { v, accts, miners: vec![] }
}

fn obs(s: &Snap, code: u32) -> Vec<String> {
    let mut o = vec![
        cf::z(code),
        cf::z(&s.total_raw),
        cf::z(&s.total_bytes),
        cf::z(&s.total_qa),
        cf::z(&s.total_qa_bytes),
        cf::z(s.miner_count),
        cf::z(s.above),
        cf::z(&s.ctp.0),
        cf::z(&s.ctp.1),
    ];
    for (k, (r, q)) in &s.claims {
        o.push(cf::z(k));
        o.push(cf::z(r));
        o.push(cf::z(q));
    }
    o
}

fn nlit(id: u64) -> String {
    format!("{}%N", id)
}

// ---------- monitor: the property's predicate evaluated on the implementation's state ----------
fn monitor_totals(s: &Snap, min_power: &BigInt) -> Vec<String> {
    let mut bad = vec![];
    let (mut sr, mut sq, mut ar, mut aq, mut cnt) = (BigInt::zero(), BigInt::zero(), BigInt::zero(), BigInt::zero(), 0i64);
    for (id, (r, q)) in &s.claims {
        if r.is_negative() || q.is_negative() {
            bad.push(format!("claim of {} negative: ({}, {})", id, r, q));
        }
        sr += r;
        sq += q;
        if r >= min_power {
            ar += r;
            aq += q;
            cnt += 1;
        }
    }
    if s.total_bytes != sr { bad.push(format!("total_bytes_committed {} != sum raw {}", s.total_bytes, sr)); }
    if s.total_qa_bytes != sq { bad.push(format!("total_qa_bytes_committed {} != sum qa {}", s.total_qa_bytes, sq)); }
    if s.total_raw != ar { bad.push(format!("total_raw_byte_power {} != sum raw above min {}", s.total_raw, ar)); }
    if s.total_qa != aq { bad.push(format!("total_quality_adj_power {} != sum qa above min {}", s.total_qa, aq)); }
    if s.above != cnt { bad.push(format!("miner_above_min_power_count {} != {}", s.above, cnt)); }
    let expect = if s.above < CONSENSUS_MINER_MIN_MINERS {
        (s.total_bytes.clone(), s.total_qa_bytes.clone())
    } else {
        (s.total_raw.clone(), s.total_qa.clone())
    };
    if s.ctp != expect { bad.push(format!("current_total_power {:?} != {:?}", s.ctp, expect)); }
    bad
}

/// failing OnDeferredCronEvent callbacks of a tick, in call order (miner ids), and the number of
/// succeeding ones
fn failed_callbacks(tr: &InvocationTrace) -> (Vec<u64>, usize) {
    let mut failed = vec![];
    let mut ok = 0;
    for s in &tr.subinvocations {
        if s.method == ON_DEFERRED_CRON_EVENT && s.from == STORAGE_POWER_ACTOR_ADDR.id().unwrap() {
            if s.exit_code.is_success() {
                ok += 1;
            } else {
                failed.push(s.to.id().unwrap());
            }
        }
    }
    (failed, ok)
}

/// enroll garbage events for `who` (in order) at the current epoch, then tick; returns the exit code
/// of OnEpochTickEnd, the failing callbacks and notes about anything unexpected
fn enroll_and_tick(w: &World, who: &[usize], notes: &mut Vec<String>) -> (u32, Vec<u64>) {
    let e = w.v.epoch();
    for i in who {
        let p = EnrollCronEventParams { event_epoch: e, payload: RawBytes::new(vec![0xff, 0xff]) };
        let r = exec(&w.v, &w.miners[*i], &STORAGE_POWER_ACTOR_ADDR, &TokenAmount::zero(), PowerMethod::EnrollCronEvent as u64, Some(p));
        if code(&r) != 0 {
            notes.push(format!("EnrollCronEvent by miner {} refused: {} {}", w.miners[*i], code(&r), r.message));
        }
    }
    w.v.take_invocations();
    let r = exec::<()>(&w.v, &CRON_ACTOR_ADDR, &STORAGE_POWER_ACTOR_ADDR, &TokenAmount::zero(), PowerMethod::OnEpochTickEnd as u64, None);
    let trs = w.v.take_invocations();
    let (failed, ok) = failed_callbacks(trs.last().expect("no trace for the tick"));
    if ok != 0 {
        notes.push(format!("{} OnDeferredCronEvent callback(s) with a garbage payload unexpectedly SUCCEEDED", ok));
    }
    if code(&r) != 0 {
        notes.push(format!("OnEpochTickEnd failed: {} {}", code(&r), r.message));
    }
    (code(&r), failed)
}

fn bump(stats: &mut Stats, key: &str) {
    let n = stats.extra.get(key).and_then(|x| x.as_u64()).unwrap_or(0);
    stats.extra.insert(key.to_string(), serde_json::json!(n + 1));
}

struct StepOut {
    op: String,
    kind: &'static str,
    code: u32,
    post: Snap,
    /// this step is the j-th (>= 2nd) deletion of one tick
    multi: bool,
}

fn run_op(w: &mut World, op: &WOp, notes: &mut Vec<String>, stats: &mut Stats) -> Vec<StepOut> {
    match op {
        WOp::Create => {
            let k = w.miners.len();
            assert!(k < MAX_MINERS, "harness bug: more than {} miners requested", MAX_MINERS);
            let owner = w.accts[k];
            // panics (harness bug) when Power::CreateMiner does not succeed
            let (id_addr, _) = create_miner(
                &w.v,
                &owner,
                &owner,
                RegisteredPoStProof::StackedDRGWindow32GiBV1P1,
                &TokenAmount::from_whole(10_000),
            );
            w.miners.push(id_addr);
            vec![StepOut { op: format!("PCreateMiner {}", nlit(id_addr.id().unwrap())), kind: "create_miner", code: 0, post: snapshot(&w.v), multi: false }]
        }
        WOp::Update { who, dr, dq } => {
            let (caller, is_miner) = match who {
                Who::Miner(i) => (w.miners[*i], true),
                Who::Account => (w.accts[N_ACCOUNTS as usize - 1], false),
            };
            let dr: BigInt = dr.parse().unwrap();
            let dq: BigInt = dq.parse().unwrap();
            let p = UpdateClaimedPowerParams { raw_byte_delta: dr.clone(), quality_adjusted_delta: dq.clone() };
            let r = exec(&w.v, &caller, &STORAGE_POWER_ACTOR_ADDR, &TokenAmount::zero(), PowerMethod::UpdateClaimedPower as u64, Some(p));
            // harness-VM quirk (inherited from test_vm): validate_immediate_caller_type answers
            // SYS_ASSERTION_FAILED (10) where the production runtime (runtime/src/runtime/fvm.rs)
            // answers USR_FORBIDDEN (18); the model follows the production runtime. Only this exact
            // rejection of the non-miner caller is translated.
            let mut c = code(&r);
            if c == 10 && !is_miner && r.message.ends_with("immediate caller actor type forbidden") {
                c = 18;
            }
            vec![StepOut {
                op: format!("PUpdateClaimedPower {} {} {} {}", nlit(caller.id().unwrap()), cf::b(is_miner), cf::z(&dr), cf::z(&dq)),
                kind: "update_claimed_power",
                code: c,
                post: snapshot(&w.v),
                multi: false,
            }]
        }
        WOp::Delete { events } => {
            w.v.set_epoch(w.v.epoch() + 1);
            let pre = snapshot(&w.v);
            let mut out = vec![];
            let k = events.len();
            let root = w.v.checkpoint();
            for j in 1..=k {
                if j > 1 {
                    w.v.rollback(root);
                }
                let (c, failed) = enroll_and_tick(w, &events[..j], notes);
                let post = snapshot(&w.v);
                // events of miners without a claim are skipped by the power actor: no model step
                let expect: Vec<u64> = events[..j]
                    .iter()
                    .map(|i| w.miners[*i].id().unwrap())
                    .filter(|id| pre.claims.contains_key(id))
                    .collect();
                if failed != expect {
                    notes.push(format!("tick with events {:?}: failing callbacks {:?}, expected {:?}", &events[..j], failed, expect));
                }
                if failed.len() == out.len() + 1 {
                    out.push(StepOut {
                        op: format!("PDeleteClaim {}", nlit(*failed.last().unwrap())),
                        kind: "delete_claim",
                        code: c,
                        post,
                        multi: out.len() >= 1,
                    });
                } else if failed.len() == out.len() {
                    // nothing failed in addition (skipped event): the state must not have moved
                    bump(stats, "ticks_with_skipped_event");
                    let reference = out.last().map(|s: &StepOut| &s.post).unwrap_or(&pre);
                    if &post != reference {
                        notes.push(format!("tick whose extra event was skipped changed the claims/totals: {:?} -> {:?}", reference, post));
                    }
                } else {
                    notes.push(format!("prefix {} of events {:?} produced {} failing callbacks after {} steps", j, events, failed.len(), out.len()));
                }
            }
            out
        }
    }
}

// ---------- generator ----------
fn to_i128(x: &BigInt) -> i128 {
    x.to_i128().expect("claim exceeds i128")
}

fn gen_update(r: &mut Prng, s: &Snap, w: &World, minp: i128) -> WOp {
    let alive: Vec<usize> = (0..w.miners.len()).filter(|i| s.claims.contains_key(&w.miners[*i].id().unwrap())).collect();
    let dead: Vec<usize> = (0..w.miners.len()).filter(|i| !s.claims.contains_key(&w.miners[*i].id().unwrap())).collect();
    let roll = r.below(100);
    let who = if roll < 6 {
        Who::Account
    } else if (roll < 9 && !dead.is_empty()) || alive.is_empty() {
        if dead.is_empty() { Who::Account } else { Who::Miner(*r.pick(&dead)) }
    } else {
        Who::Miner(*r.pick(&alive))
    };
    let (raw, qa) = match &who {
        Who::Miner(i) => s.claims.get(&w.miners[*i].id().unwrap()).map(|(a, b)| (to_i128(a), to_i128(b))).unwrap_or((0, 0)),
        Who::Account => (0, 0),
    };
    let small = |r: &mut Prng, n: i128| r.below(n.max(1) as u64) as i128;
    let (dr, dq) = match r.below(100) {
        // negative beyond the current claim (raw, qa or both)
        0..=7 => match r.below(3) {
            0 => (-(raw + 1 + small(r, minp)), small(r, minp)),
            1 => (small(r, minp), -(qa + 1 + small(r, 3 * minp))),
            _ => (-(raw + 1), -(qa + 1)),
        },
        8..=11 => (0, 0),
        12..=14 => (1i128 << 70, if r.chance(50) { 1i128 << 70 } else { small(r, minp) }),
        _ => {
            let target_raw = match r.below(100) {
                0..=11 => minp - 1,
                12..=25 => minp,
                26..=37 => minp + 1,
                38..=45 => 0,
                46..=52 => raw,
                53..=72 => minp + small(r, 3 * minp),
                73..=87 => small(r, minp),
                _ => raw + r.range(-3, 3) as i128,
            }
            .max(0);
            let target_qa = match r.below(100) {
                0..=9 => qa,
                10..=19 => 0,
                _ => small(r, 20 * minp + 1),
            };
            (target_raw - raw, target_qa - qa)
        }
    };
    WOp::Update { who, dr: dr.to_string(), dq: dq.to_string() }
}

fn gen_op(r: &mut Prng, s: &Snap, w: &World, minp: i128, double_case: bool) -> WOp {
    let n = w.miners.len();
    if n == 0 {
        return WOp::Create;
    }
    let alive: Vec<usize> = (0..n).filter(|i| s.claims.contains_key(&w.miners[*i].id().unwrap())).collect();
    let dead: Vec<usize> = (0..n).filter(|i| !s.claims.contains_key(&w.miners[*i].id().unwrap())).collect();
    let roll = r.below(100);
    let create_pct = if n < 5 { 30 } else if n < MAX_MINERS { 8 } else { 0 };
    if roll < create_pct {
        return WOp::Create;
    }
    if roll < create_pct + 6 {
        // cron-failure path
        if !dead.is_empty() && (alive.is_empty() || r.chance(10)) {
            // event of a miner without claim: skipped by the power actor
            return WOp::Delete { events: vec![*r.pick(&dead)] };
        }
        if !alive.is_empty() {
            let m = *r.pick(&alive);
            if double_case && r.chance(60) {
                return WOp::Delete { events: if r.chance(25) && alive.len() > 1 { vec![m, *r.pick(&alive), m] } else { vec![m, m] } };
            }
            if alive.len() > 1 && r.chance(12) {
                let m2 = *alive.iter().filter(|x| **x != m).nth(0).unwrap();
                return WOp::Delete { events: if !dead.is_empty() && r.chance(30) { vec![m, dead[0], m2] } else { vec![m, m2] } };
            }
            return WOp::Delete { events: vec![m] };
        }
    }
    gen_update(r, s, w, minp)
}

fn run_case(pc: &WCase, stats: &mut Stats, genr: Option<(&mut Prng, usize, bool)>) -> (Case, WCase, Vec<serde_json::Value>) {
    let mut w = setup(pc.min_power);
    let minp = BigInt::from(pc.min_power);
    let mut snap = snapshot(&w.v);
    let init = format!("pinit {} {}", cf::z(pc.min_power), cf::z(CONSENSUS_MINER_MIN_MINERS));
    let mut steps = vec![];
    let mut ops_done: Vec<WOp> = vec![];
    let mut fails = vec![];
    let (mut acc, mut rej) = (false, false);
    let mut genr = genr;
    let n = match &genr { Some((_, n, _)) => *n, None => pc.ops.len() };
    let mut i = 0;
    loop {
        let op = match &mut genr {
            Some((r, _, dbl)) => { if steps.len() >= n { break; } gen_op(r, &snap, &w, pc.min_power as i128, *dbl) }
            None => { if i >= n { break; } pc.ops[i].clone() }
        };
        i += 1;
        let mut notes = vec![];
        let outs = run_op(&mut w, &op, &mut notes, stats);
        ops_done.push(op.clone());
        let this_case = || WCase { min_power: pc.min_power, ops: ops_done.clone() };
        if !notes.is_empty() {
            fails.push(serde_json::json!({"class": "cron-callback-unexpected", "step": steps.len(), "op": format!("{:?}", op), "what": notes, "case": this_case()}));
        }
        for so in outs {
            stats.op(so.kind, so.code);
            if so.code == 0 { acc = true } else { rej = true }
            let post = &so.post;
            let bad = monitor_totals(post, &minp);
            if !bad.is_empty() {
                fails.push(serde_json::json!({"class": "power-totals", "step": steps.len(), "op": so.op, "what": bad, "case": this_case()}));
            }
            let (gap_pre, gap_post) = (snap.miner_count - snap.claims.len() as i64, post.miner_count - post.claims.len() as i64);
            if gap_post != gap_pre {
                // several failing callbacks of ONE miner in one tick: delete_claim answers Ok for the
                // already absent claim and the caller decrements miner_count again
                let class = if so.multi && so.kind == "delete_claim" && post.claims == snap.claims { "miner-count-double-decrement" } else { "miner-count" };
                fails.push(serde_json::json!({"class": class, "step": steps.len(), "op": so.op,
                    "what": [format!("miner_count {} but {} claims (before this step: miner_count {}, {} claims)", post.miner_count, post.claims.len(), snap.miner_count, snap.claims.len())],
                    "case": this_case()}));
            }
            if so.code != 0 && *post != snap {
                fails.push(serde_json::json!({"class": "rejected-changed-state", "step": steps.len(), "op": so.op,
                    "what": [format!("exit {} but state moved: {:?} -> {:?}", so.code, snap, post)], "case": this_case()}));
            }
            // coverage of the consensus-minimum rule
            if snap.above < CONSENSUS_MINER_MIN_MINERS && post.above >= CONSENSUS_MINER_MIN_MINERS { bump(stats, "consensus_miner_count_reached"); }
            if snap.above >= CONSENSUS_MINER_MIN_MINERS && post.above < CONSENSUS_MINER_MIN_MINERS { bump(stats, "consensus_miner_count_lost"); }
            if post.above > snap.above { bump(stats, "miner_crossed_min_power_up"); }
            if post.above < snap.above { bump(stats, if so.kind == "delete_claim" { "miner_above_min_deleted" } else { "miner_crossed_min_power_down" }); }
            steps.push((so.op.clone(), obs(post, so.code)));
            snap = so.post;
        }
        for p in w.v.panics.borrow().iter() { stats.panics.push(p.clone()); }
        w.v.panics.borrow_mut().clear();
        w.v.take_invocations();
    }
    (Case { init, steps, nontrivial: acc && rej }, WCase { min_power: pc.min_power, ops: ops_done }, fails)
}

/// the dedicated scenario: ONE miner, TWO pending garbage cron events in the same tick
fn unit_double_decrement() -> WCase {
    let u = |i: usize, dr: i64, dq: i64| WOp::Update { who: Who::Miner(i), dr: dr.to_string(), dq: dq.to_string() };
    WCase {
        min_power: 1000,
        ops: vec![
            WOp::Create,
            WOp::Create,
            u(0, 1500, 3000),
            u(1, 700, 900),
            WOp::Delete { events: vec![0, 0] },
            u(0, 1, 1),
            WOp::Create,
            u(1, 300, 0),
        ],
    }
}

/// miner_count is not part of the C02 statement (claims and totals are): the known double decrement
/// of miner_count (process_deferred_cron_events: delete_claim answers Ok for an absent claim and the
/// caller decrements again) is counted and kept as a replay in `extra`, not as a C02 monitor failure.
fn emit(stats: &mut Stats, f: serde_json::Value) {
    if f["class"] == "miner-count-double-decrement" {
        let n = stats.extra.get("miner_count_double_decrement_observed").and_then(|x| x.as_u64()).unwrap_or(0);
        stats.extra.insert("miner_count_double_decrement_observed".into(), serde_json::json!(n + 1));
        if n == 0 {
            stats.extra.insert("miner_count_double_decrement_example".into(), serde_json::json!({"step": f["step"], "op": f["op"], "what": f["what"]}));
        }
    } else {
        stats.monitor_fail(f);
    }
}

fn main() {
    let a = cf::parse_args();
    let mut stats = Stats::default();
    let header = "From VF Require Import Model.Power Base.Corr.\nFrom Coq Require Import ZArith List.\nImport ListNotations.\nOpen Scope Z_scope.\n";
    let mut cw = CaseWriter::new(&a.out, header, "pcheck_case", a.shards);
    if let Some(p) = &a.replay {
        let v: serde_json::Value = serde_json::from_str(&std::fs::read_to_string(p).unwrap()).unwrap();
        let pc: WCase = serde_json::from_value(v["case"].clone()).unwrap();
        let (c, _, fails) = run_case(&pc, &mut stats, None);
        cw.push(c);
        for f in fails { emit(&mut stats, f); }
        cw.finish(&stats, "power");
        return;
    }
    // corpus first
    let corpus = std::path::Path::new(env!("CARGO_MANIFEST_DIR")).join("../corpus/C02");
    if let Ok(rd) = std::fs::read_dir(&corpus) {
        let mut files: Vec<_> = rd.filter_map(|e| e.ok()).map(|e| e.path()).collect();
        files.sort();
        for f in files {
            if f.extension().map(|x| x == "json").unwrap_or(false) {
                let v: serde_json::Value = serde_json::from_str(&std::fs::read_to_string(&f).unwrap()).unwrap();
                let pc: WCase = serde_json::from_value(v["case"].clone()).unwrap();
                let (c, _, fails) = run_case(&pc, &mut stats, None);
                cw.push(c);
                for f in fails { emit(&mut stats, f); }
            }
        }
    }
    // dedicated double-decrement scenario
    {
        let pc = unit_double_decrement();
        let (c, _, fails) = run_case(&pc, &mut stats, None);
        let last = c.steps.last().map(|s| s.1.clone()).unwrap_or_default();
        let dd: Vec<&serde_json::Value> = fails.iter().filter(|f| f["class"] == "miner-count-double-decrement").collect();
        let n_claims = last.len().saturating_sub(9) / 3;
        stats.extra.insert(
            "double_decrement_scenario".into(),
            serde_json::json!({
                "final_miner_count": last.get(5),
                "final_claims": n_claims,
                "double_decrement_observed": !dd.is_empty(),
                "ops": c.steps.iter().map(|s| s.0.clone()).collect::<Vec<_>>(),
            }),
        );
        if let Some(f) = dd.first() {
            let dir = std::path::Path::new(env!("CARGO_MANIFEST_DIR")).join("../work/c04");
            let _ = std::fs::create_dir_all(&dir);
            let _ = std::fs::write(dir.join("power_minercount_replay.json"), serde_json::to_string_pretty(f).unwrap());
        }
        cw.push(c);
        for f in fails { emit(&mut stats, f); }
    }
    let mut root = Prng::new(a.seed);
    for k in 0..a.cases {
        let mut r = root.fork(k as u64);
        let min_power = *r.pick(&[1000i64, 1000, 5000, 1_000_000]);
        let double_case = r.below(20) == 0;
        let pc = WCase { min_power, ops: vec![] };
        let (c, _, fails) = run_case(&pc, &mut stats, Some((&mut r, a.len, double_case)));
        cw.push(c);
        for f in fails { emit(&mut stats, f); }
    }
    cw.finish(&stats, "power");
}
