//! C04 function-level correspondence + monitor harness: the real `fil_actor_miner::Partition` (and through
//! it `ExpirationQueue` / `BitFieldQueue`) on a MemoryBlockstore, driven method by method, against
//! coq/Model/Partition.v.  A `Sectors` AMT plays the miner's sector table (`st_tbl` of the model).
//! Failed calls are rolled back (partition clone + table root), as the actor's transaction would do.
use cid::Cid;
use fil_actor_miner::testing::PartitionStateSummary;
use fil_actor_miner::{
    power_for_sector, BitFieldQueue, ExpirationQueue, ExpirationSet, Partition, PowerPair, QuantSpec,
    SectorOnChainInfo, Sectors, NO_QUANTIZATION, SECTORS_AMT_BITWIDTH,
};
use fil_actors_runtime::runtime::Policy;
use fil_actors_runtime::test_blockstores::MemoryBlockstore;
use fil_actors_runtime::test_utils::make_sealed_cid;
use fil_actors_runtime::{ActorError, Array, MessageAccumulator};
use fvm_ipld_bitfield::BitField;
use fvm_shared::bigint::BigInt;
use fvm_shared::econ::TokenAmount;
use fvm_shared::sector::SectorSize;
use num_traits::Zero;
use serde::{Deserialize, Serialize};
use serde_json::json;
use std::collections::{BTreeMap, BTreeSet};
use std::panic::{catch_unwind, AssertUnwindSafe};
use vharness::coqfmt::{self as cf, Case, CaseWriter, Stats};
use vharness::prng::Prng;

// ---------- replayable case description ----------
#[derive(Clone, Debug, Serialize, Deserialize)]
struct Sec {
    num: u64,
    exp: i64,
    /// power_base_epoch (< exp)
    pbe: i64,
    dw: u64,
    vdw: u64,
    pledge: u64,
    fee: u64,
}

#[derive(Clone, Debug, Serialize, Deserialize)]
enum Op {
    AddSectors { proven: bool, secs: Vec<Sec> },
    RecordFaults { nums: Vec<u64>, fault_exp: i64 },
    DeclareFaultsRecovered { nums: Vec<u64> },
    RecoverFaults,
    ActivateUnproven,
    RecordSkippedFaults { fault_exp: i64, nums: Vec<u64> },
    RecordMissedPost { fault_exp: i64 },
    TerminateSectors { epoch: i64, nums: Vec<u64> },
    PopExpiredSectors { until: i64 },
    ReplaceSectors { old: Vec<u64>, new: Vec<Sec> },
    RescheduleExpirations { new_exp: i64, nums: Vec<u64> },
    PopEarlyTerminations { max: u64 },
}

#[derive(Clone, Debug, Serialize, Deserialize)]
struct PCase {
    unit: i64,
    offset: i64,
    /// index into SIZES
    size: u8,
    ops: Vec<Op>,
}

const SIZES: [SectorSize; 5] =
    [SectorSize::_2KiB, SectorSize::_8MiB, SectorSize::_512MiB, SectorSize::_32GiB, SectorSize::_64GiB];

fn kind(op: &Op) -> &'static str {
    match op {
        Op::AddSectors { .. } => "add_sectors",
        Op::RecordFaults { .. } => "record_faults",
        Op::DeclareFaultsRecovered { .. } => "declare_recovered",
        Op::RecoverFaults => "recover_faults",
        Op::ActivateUnproven => "activate_unproven",
        Op::RecordSkippedFaults { .. } => "record_skipped",
        Op::RecordMissedPost { .. } => "record_missed_post",
        Op::TerminateSectors { .. } => "terminate",
        Op::PopExpiredSectors { .. } => "pop_expired",
        Op::ReplaceSectors { .. } => "replace",
        Op::RescheduleExpirations { .. } => "reschedule",
        Op::PopEarlyTerminations { .. } => "pop_early",
    }
}

// ---------- the driven world ----------
struct World<'a> {
    store: &'a MemoryBlockstore,
    part: Partition,
    /// root of the Sectors AMT (the miner's sector table)
    root: Cid,
    quant: QuantSpec,
    size: SectorSize,
}

fn mk_info(s: &Sec) -> SectorOnChainInfo {
    SectorOnChainInfo {
        sector_number: s.num,
        expiration: s.exp,
        power_base_epoch: s.pbe,
        activation: s.pbe,
        deal_weight: BigInt::from(s.dw),
        verified_deal_weight: BigInt::from(s.vdw),
        initial_pledge: TokenAmount::from_atto(s.pledge),
        daily_fee: TokenAmount::from_atto(s.fee),
        sealed_cid: make_sealed_cid(format!("commr-{}", s.num).as_bytes()),
        ..Default::default()
    }
}

fn bf(nums: &[u64]) -> BitField {
    BitField::try_from_bits(nums.iter().copied()).unwrap()
}

fn code_of(e: &anyhow::Error) -> u32 {
    match e.downcast_ref::<ActorError>() {
        Some(ae) => ae.exit_code().value(),
        None => 20,
    }
}

fn load_table<'a>(w: &World<'a>) -> Sectors<'a, MemoryBlockstore> {
    Sectors::load(w.store, &w.root).unwrap()
}

fn store_table(w: &mut World, infos: Vec<SectorOnChainInfo>) -> Result<(), u32> {
    let mut t = load_table(w);
    t.store(infos).map_err(|e| code_of(&e))?;
    w.root = t.amt.flush().unwrap();
    Ok(())
}

// ---------- observation encoding (same order as the model's enc_*) ----------
fn enc_set(b: &BitField) -> Vec<String> {
    let mut v = vec![cf::z(b.len())];
    v.extend(b.iter().map(cf::z));
    v
}
fn enc_pp(p: &PowerPair) -> Vec<String> {
    vec![cf::z(&p.raw), cf::z(&p.qa)]
}
fn enc_es(es: &ExpirationSet) -> Vec<String> {
    let mut v = enc_set(&es.on_time_sectors);
    v.extend(enc_set(&es.early_sectors));
    v.push(cf::z(es.on_time_pledge.atto()));
    v.extend(enc_pp(&es.active_power));
    v.extend(enc_pp(&es.faulty_power));
    v.push(cf::z(es.fee_deduction.atto()));
    v
}
fn enc_bfmap(m: &BTreeMap<i64, BitField>) -> Vec<String> {
    let mut v = vec![cf::z(m.len())];
    for (k, b) in m {
        v.push(cf::z(k));
        v.extend(enc_set(b));
    }
    v
}
fn read_queue(w: &World) -> Vec<(i64, ExpirationSet)> {
    let q = ExpirationQueue::new(w.store, &w.part.expirations_epochs, w.quant).unwrap();
    let mut v = vec![];
    q.amt
        .for_each(|k, es| {
            v.push((k as i64, es.clone()));
            Ok(())
        })
        .unwrap();
    v
}
fn read_early(w: &World) -> BTreeMap<i64, BitField> {
    let q = BitFieldQueue::new(w.store, &w.part.early_terminated, NO_QUANTIZATION).unwrap();
    let mut m = BTreeMap::new();
    q.amt
        .for_each(|k, b| {
            m.insert(k as i64, b.clone());
            Ok(())
        })
        .unwrap();
    m
}
fn enc_part(w: &World) -> Vec<String> {
    let p = &w.part;
    let mut v = enc_set(&p.sectors);
    v.extend(enc_set(&p.unproven));
    v.extend(enc_set(&p.faults));
    v.extend(enc_set(&p.recoveries));
    v.extend(enc_set(&p.terminated));
    v.extend(enc_pp(&p.live_power));
    v.extend(enc_pp(&p.unproven_power));
    v.extend(enc_pp(&p.faulty_power));
    v.extend(enc_pp(&p.recovering_power));
    let q = read_queue(w);
    v.push(cf::z(q.len()));
    for (k, es) in &q {
        v.push(cf::z(k));
        v.extend(enc_es(es));
    }
    v.extend(enc_bfmap(&read_early(w)));
    v
}

// ---------- executing one op on the real code ----------
fn exec_op(w: &mut World, op: &Op) -> Result<Vec<String>, u32> {
    let (store, size, quant) = (w.store, w.size, w.quant);
    let ae = |e: anyhow::Error| code_of(&e);
    match op {
        Op::AddSectors { proven, secs } => {
            let infos: Vec<SectorOnChainInfo> = secs.iter().map(mk_info).collect();
            store_table(w, infos.clone())?;
            let (pw, fee) = w.part.add_sectors(store, *proven, &infos, size, quant).map_err(ae)?;
            let mut r = enc_pp(&pw);
            r.push(cf::z(fee.atto()));
            Ok(r)
        }
        Op::RecordFaults { nums, fault_exp } => {
            let t = load_table(w);
            let (nf, delta, nfp) =
                w.part.record_faults(store, &t, &bf(nums), *fault_exp, size, quant).map_err(ae)?;
            let mut r = enc_set(&nf);
            r.extend(enc_pp(&delta));
            r.extend(enc_pp(&nfp));
            Ok(r)
        }
        Op::DeclareFaultsRecovered { nums } => {
            let t = load_table(w);
            w.part.declare_faults_recovered(&t, size, &bf(nums)).map_err(ae)?;
            Ok(vec![])
        }
        Op::RecoverFaults => {
            let t = load_table(w);
            let pw = w.part.recover_faults(store, &t, size, quant).map_err(ae)?;
            Ok(enc_pp(&pw))
        }
        Op::ActivateUnproven => {
            let pw = w.part.activate_unproven();
            Ok(enc_pp(&pw))
        }
        Op::RecordSkippedFaults { fault_exp, nums } => {
            let t = load_table(w);
            let (delta, nfp, rrp, hnf) =
                w.part.record_skipped_faults(store, &t, size, quant, *fault_exp, &bf(nums)).map_err(ae)?;
            let mut r = enc_pp(&delta);
            r.extend(enc_pp(&nfp));
            r.extend(enc_pp(&rrp));
            r.push(cf::z(hnf as u8));
            Ok(r)
        }
        Op::RecordMissedPost { fault_exp } => {
            let (delta, pen, nfp) = w.part.record_missed_post(store, *fault_exp, quant).map_err(ae)?;
            let mut r = enc_pp(&delta);
            r.extend(enc_pp(&pen));
            r.extend(enc_pp(&nfp));
            Ok(r)
        }
        Op::TerminateSectors { epoch, nums } => {
            let t = load_table(w);
            let (removed, unp) = w
                .part
                .terminate_sectors(&Policy::default(), store, &t, *epoch, &bf(nums), size, quant)
                .map_err(ae)?;
            let mut r = enc_es(&removed);
            r.extend(enc_pp(&unp));
            Ok(r)
        }
        Op::PopExpiredSectors { until } => {
            let popped = w.part.pop_expired_sectors(store, *until, quant).map_err(ae)?;
            Ok(enc_es(&popped))
        }
        Op::ReplaceSectors { old, new } => {
            let t = load_table(w);
            let old_infos = t.load_sectors(&bf(old)).map_err(|e| e.exit_code().value())?;
            let new_infos: Vec<SectorOnChainInfo> = new.iter().map(mk_info).collect();
            let (dp, dpl, dfee) =
                w.part.replace_sectors(store, &old_infos, &new_infos, size, quant).map_err(ae)?;
            store_table(w, new_infos)?;
            let mut r = enc_pp(&dp);
            r.push(cf::z(dpl.atto()));
            r.push(cf::z(dfee.atto()));
            Ok(r)
        }
        Op::RescheduleExpirations { new_exp, nums } => {
            let t = load_table(w);
            let infos =
                w.part.reschedule_expirations(store, &t, *new_exp, &bf(nums), size, quant).map_err(ae)?;
            let moved = bf(&infos.iter().map(|i| i.sector_number).collect::<Vec<_>>());
            // the caller re-stores the moved sectors with the new expiration; the power base epoch moves
            // with it so that the (duration-dependent) QA power stays what the queue recorded
            let upd: Vec<SectorOnChainInfo> = infos
                .into_iter()
                .map(|mut i| {
                    i.power_base_epoch += *new_exp - i.expiration;
                    i.expiration = *new_exp;
                    i
                })
                .collect();
            store_table(w, upd)?;
            Ok(enc_set(&moved))
        }
        Op::PopEarlyTerminations { max } => {
            let (res, more) = w.part.pop_early_terminations(store, *max).map_err(ae)?;
            let mut r = enc_bfmap(&res.sectors);
            r.push(cf::z(res.sectors_processed));
            r.push(cf::z(more as u8));
            Ok(r)
        }
    }
}

fn run_op(w: &mut World, op: &Op, stats: &mut Stats) -> (u32, Vec<String>) {
    let saved_part = w.part.clone();
    let saved_root = w.root;
    let res = catch_unwind(AssertUnwindSafe(|| exec_op(w, op)));
    match res {
        Ok(Ok(rets)) => (0, rets),
        Ok(Err(c)) => {
            w.part = saved_part;
            w.root = saved_root;
            (c, vec![])
        }
        Err(p) => {
            w.part = saved_part;
            w.root = saved_root;
            let msg = p
                .downcast_ref::<String>()
                .cloned()
                .or_else(|| p.downcast_ref::<&str>().map(|s| s.to_string()))
                .unwrap_or_else(|| "panic".to_string());
            if stats.panics.len() < 20 {
                stats.panics.push(format!("{}: {}", kind(op), msg));
            }
            (24, vec![])
        }
    }
}

// ---------- Gallina printing ----------
fn nlist(xs: &[u64]) -> String {
    if xs.is_empty() { "[]".to_string() } else { format!("{}%N", cf::zlist(xs.iter())) }
}
fn coq_sector(size: SectorSize, s: &Sec) -> String {
    let pw = power_for_sector(size, &mk_info(s));
    format!(
        "{{| s_num := {}%N; s_exp := {}; s_raw := {}; s_qa := {}; s_pledge := {}; s_fee := {} |}}",
        s.num,
        cf::z(s.exp),
        cf::z(&pw.raw),
        cf::z(&pw.qa),
        cf::z(s.pledge),
        cf::z(s.fee)
    )
}
fn coq_sectors(size: SectorSize, v: &[Sec]) -> String {
    cf::list(v.iter().map(|s| coq_sector(size, s)))
}
fn coq_op(size: SectorSize, op: &Op) -> String {
    match op {
        Op::AddSectors { proven, secs } => format!("AddSectors {} {}", cf::b(*proven), coq_sectors(size, secs)),
        Op::RecordFaults { nums, fault_exp } => format!("RecordFaults {} {}", nlist(nums), cf::z(fault_exp)),
        Op::DeclareFaultsRecovered { nums } => format!("DeclareFaultsRecovered {}", nlist(nums)),
        Op::RecoverFaults => "RecoverFaults".to_string(),
        Op::ActivateUnproven => "ActivateUnproven".to_string(),
        Op::RecordSkippedFaults { fault_exp, nums } => {
            format!("RecordSkippedFaults {} {}", cf::z(fault_exp), nlist(nums))
        }
        Op::RecordMissedPost { fault_exp } => format!("RecordMissedPost {}", cf::z(fault_exp)),
        Op::TerminateSectors { epoch, nums } => format!("TerminateSectors {} {}", cf::z(epoch), nlist(nums)),
        Op::PopExpiredSectors { until } => format!("PopExpiredSectors {}", cf::z(until)),
        Op::ReplaceSectors { old, new } => format!("ReplaceSectors {} {}", nlist(old), coq_sectors(size, new)),
        Op::RescheduleExpirations { new_exp, nums } => {
            format!("RescheduleExpirations {} {}", cf::z(new_exp), nlist(nums))
        }
        Op::PopEarlyTerminations { max } => format!("PopEarlyTerminations {}", max),
    }
}

// ---------- abstract view of the real structures (generator + monitor) ----------
struct View {
    sectors: BTreeSet<u64>,
    unproven: BTreeSet<u64>,
    faults: BTreeSet<u64>,
    recoveries: BTreeSet<u64>,
    terminated: BTreeSet<u64>,
    table: BTreeMap<u64, SectorOnChainInfo>,
    queue: Vec<(i64, ExpirationSet)>,
    early: BTreeMap<i64, BitField>,
}
fn bset(b: &BitField) -> BTreeSet<u64> {
    b.iter().collect()
}
fn view(w: &World) -> View {
    let mut table = BTreeMap::new();
    load_table(w)
        .amt
        .for_each(|k, i| {
            table.insert(k, i.clone());
            Ok(())
        })
        .unwrap();
    View {
        sectors: bset(&w.part.sectors),
        unproven: bset(&w.part.unproven),
        faults: bset(&w.part.faults),
        recoveries: bset(&w.part.recoveries),
        terminated: bset(&w.part.terminated),
        table,
        queue: read_queue(w),
        early: read_early(w),
    }
}
impl View {
    fn live(&self) -> BTreeSet<u64> {
        &self.sectors - &self.terminated
    }
    fn active(&self) -> BTreeSet<u64> {
        &(&self.live() - &self.faults) - &self.unproven
    }
}

// ---------- generator ----------
const UNIVERSE: u64 = 12;

fn subset(r: &mut Prng, pool: &BTreeSet<u64>, maxn: u64) -> Vec<u64> {
    let mut p: Vec<u64> = pool.iter().copied().collect();
    if p.is_empty() {
        return vec![];
    }
    let n = 1 + r.below(maxn.min(p.len() as u64));
    let mut out = vec![];
    for _ in 0..n {
        let i = r.below(p.len() as u64) as usize;
        out.push(p.swap_remove(i));
    }
    out
}
fn unknown_num(r: &mut Prng, v: &View) -> u64 {
    if r.chance(50) {
        return 13 + r.below(3);
    }
    let outside: Vec<u64> = (1..=UNIVERSE).filter(|n| !v.sectors.contains(n)).collect();
    if outside.is_empty() { 13 + r.below(3) } else { *r.pick(&outside) }
}
fn fresh_nums(v: &View) -> Vec<u64> {
    (1..=UNIVERSE).filter(|n| !v.sectors.contains(n)).collect()
}
fn gen_exp(r: &mut Prng, cur: i64) -> i64 {
    match r.below(100) {
        0..=64 => r.range(5, 120),
        65..=89 => cur.max(0) + r.range(1, 40),
        _ => *r.pick(&[10i64, 20, 30, 60, 61, 119, 120]),
    }
}
fn gen_sector(r: &mut Prng, num: u64, exp: i64, size: SectorSize) -> Sec {
    let exp = exp.max(1);
    let pbe = if r.chance(60) { 0 } else { r.range(0, (exp - 1).min(4)) };
    let duration = (exp - pbe) as u64;
    let maxw = (size as u64) * duration;
    let vdw = match r.below(100) {
        0..=29 => 0,
        30..=39 => maxw,
        _ => r.below(maxw + 1),
    };
    let dw = if r.chance(50) { 0 } else { r.below(maxw - vdw + 1) };
    let pledge = if r.chance(20) { 0 } else { r.below(5000) };
    let fee = if r.chance(30) { 0 } else { r.below(300) };
    Sec { num, exp, pbe, dw, vdw, pledge, fee }
}
fn gen_fault_exp(r: &mut Prng, v: &View, cur: i64) -> i64 {
    match r.below(100) {
        0..=64 => cur + r.range(1, 30),
        65..=74 => 200 + r.range(0, 50),
        75..=84 => cur - r.range(0, 10),
        85..=92 if !v.queue.is_empty() => r.pick(&v.queue).0 + r.range(-1, 1),
        85..=95 => r.range(0, 130),
        _ => -1 - r.range(0, 80),
    }
}
fn sprinkle(r: &mut Prng, out: &mut Vec<u64>, pool: &BTreeSet<u64>, pct: u64, maxn: u64) {
    if r.chance(pct) {
        out.extend(subset(r, pool, maxn));
    }
}

fn gen_op(r: &mut Prng, v: &View, cur: &mut i64, size: SectorSize) -> Op {
    *cur += *r.pick(&[0i64, 0, 1, 1, 2, 3, 5, 10]);
    let cur = *cur;
    let live = v.live();
    let active = v.active();
    // an empty (or fully terminated) partition makes every other op trivial: mostly add sectors then
    let roll = if live.is_empty() && !fresh_nums(v).is_empty() && r.chance(65) { 0 } else { r.below(100) };
    match roll {
        0..=13 => {
            let mut fresh = fresh_nums(v);
            let n = 1 + r.below(4);
            let mut secs: Vec<Sec> = vec![];
            // several sectors of a batch often share an expiration
            let shared = gen_exp(r, cur);
            for _ in 0..n {
                if fresh.is_empty() {
                    break;
                }
                let i = r.below(fresh.len() as u64) as usize;
                let num = fresh.swap_remove(i);
                let exp = if r.chance(40) { shared } else { gen_exp(r, cur) };
                secs.push(gen_sector(r, num, exp, size));
            }
            if (r.chance(10) || secs.is_empty()) && !v.sectors.is_empty() {
                let num = *r.pick(&v.sectors.iter().copied().collect::<Vec<_>>());
                let exp = gen_exp(r, cur);
                secs.push(gen_sector(r, num, exp, size));
            }
            if r.below(1000) < 12 && !secs.is_empty() {
                // caller misuse: a sector number twice in one batch
                let num = r.pick(&secs).num;
                let exp = gen_exp(r, cur);
                secs.push(gen_sector(r, num, exp, size));
            }
            if r.chance(2) {
                secs.clear();
            }
            if r.chance(1) {
                // a negative (possibly negatively quantised) expiration: AMT keys are u64
                if let Some(s) = secs.last_mut() {
                    s.exp = -r.range(1, 80);
                    s.pbe = s.exp - 3;
                }
            }
            Op::AddSectors { proven: r.chance(50), secs }
        }
        14..=20 => Op::ActivateUnproven,
        21..=32 => {
            let mut nums = subset(r, &(&live - &v.faults), 3);
            if r.chance(35) {
                nums = subset(r, &live, 4);
            }
            sprinkle(r, &mut nums, &v.faults, 20, 2);
            sprinkle(r, &mut nums, &v.recoveries, 20, 2);
            sprinkle(r, &mut nums, &v.terminated, 10, 2);
            if r.chance(6) {
                nums.push(unknown_num(r, v));
            }
            if r.chance(3) {
                nums.clear();
            }
            Op::RecordFaults { nums, fault_exp: gen_fault_exp(r, v, cur) }
        }
        33..=42 => {
            let mut nums = subset(r, &v.faults, 3);
            sprinkle(r, &mut nums, &(&live - &v.faults), 15, 2);
            sprinkle(r, &mut nums, &v.terminated, 6, 2);
            if r.chance(6) || (nums.is_empty() && r.chance(50)) {
                nums.push(unknown_num(r, v));
            }
            if r.chance(3) {
                nums.clear();
            }
            Op::DeclareFaultsRecovered { nums }
        }
        43..=50 => Op::RecoverFaults,
        51..=59 => {
            let mut nums = subset(r, &(&live - &v.faults), 3);
            sprinkle(r, &mut nums, &v.recoveries, 35, 2);
            sprinkle(r, &mut nums, &v.faults, 15, 2);
            sprinkle(r, &mut nums, &v.terminated, 8, 2);
            if r.chance(6) {
                nums.push(unknown_num(r, v));
            }
            if r.chance(5) {
                nums.clear();
            }
            Op::RecordSkippedFaults { fault_exp: gen_fault_exp(r, v, cur), nums }
        }
        60..=65 => Op::RecordMissedPost { fault_exp: gen_fault_exp(r, v, cur) },
        66..=74 => {
            let mut nums = subset(r, &live, 3);
            sprinkle(r, &mut nums, &v.terminated, 8, 2);
            if r.chance(6) {
                nums.push(unknown_num(r, v));
            }
            if r.chance(3) {
                nums.clear();
            }
            let epoch = match r.below(100) {
                0..=89 => cur,
                90..=94 => -1 - r.range(0, 5),
                _ => r.range(0, 200),
            };
            Op::TerminateSectors { epoch, nums }
        }
        75..=82 => {
            if !v.unproven.is_empty() && r.chance(60) {
                return Op::ActivateUnproven;
            }
            if !v.recoveries.is_empty() && r.chance(60) {
                return Op::RecoverFaults;
            }
            let until = match r.below(100) {
                0..=34 => cur,
                35..=69 if !v.queue.is_empty() => r.pick(&v.queue).0 + r.range(-1, 1),
                35..=79 => cur + r.range(0, 60),
                80..=89 => 1i64 << 40,
                _ => -r.range(0, 3),
            };
            Op::PopExpiredSectors { until }
        }
        83..=90 => {
            let mut old = subset(r, &active, 3);
            match r.below(100) {
                0..=7 => old.extend(subset(r, &(&v.sectors - &active), 1)),
                8..=13 => old.push(if r.chance(50) {
                    13 + r.below(3)
                } else {
                    // in the table but possibly no longer in the partition
                    let t: Vec<u64> = v.table.keys().copied().collect();
                    if t.is_empty() { 14 } else { *r.pick(&t) }
                }),
                _ => {}
            }
            let mut new: Vec<Sec> = vec![];
            for n in &old {
                let exp = match (v.table.get(n), r.below(100)) {
                    (Some(i), 0..=39) => i.expiration,
                    (Some(i), 40..=59) => (i.expiration + r.range(-6, 6)).max(1),
                    _ => gen_exp(r, cur),
                };
                new.push(gen_sector(r, *n, exp, size));
            }
            match r.below(100) {
                0..=9 => {
                    let fresh = fresh_nums(v);
                    if !fresh.is_empty() && !new.is_empty() {
                        let i = r.below(new.len() as u64) as usize;
                        new[i].num = *r.pick(&fresh);
                    }
                }
                10..=17 => {
                    if r.chance(30) {
                        new.clear();
                    } else {
                        new.pop();
                    }
                }
                18..=19 => {
                    // caller misuse: a replacement number that is already in the partition
                    // (preferably a faulty one: the table then disagrees with the queue's faulty power, the
                    // only way to make recover_faults fail)
                    let mut others: Vec<u64> = v.faults.iter().copied().filter(|n| !old.contains(n)).collect();
                    if others.is_empty() || r.chance(30) {
                        others = v.sectors.iter().copied().filter(|n| !old.contains(n)).collect();
                    }
                    if !others.is_empty() {
                        let exp = gen_exp(r, cur);
                        let num = *r.pick(&others);
                        new.push(gen_sector(r, num, exp, size));
                    }
                }
                20 => {
                    if let Some(s) = new.last().cloned() {
                        let exp = gen_exp(r, cur);
                        new.push(gen_sector(r, s.num, exp, size));
                    }
                }
                _ => {}
            }
            Op::ReplaceSectors { old, new }
        }
        91..=93 => {
            let mut nums = subset(r, &v.sectors, 4);
            if r.chance(20) {
                nums.push(unknown_num(r, v));
            }
            let new_exp = if r.chance(8) { -r.range(1, 80) } else { gen_exp(r, cur) };
            Op::RescheduleExpirations { new_exp, nums }
        }
        _ => Op::PopEarlyTerminations { max: *r.pick(&[0u64, 1, 2, 3, 100]) },
    }
}

/// Does the op break an obligation of the CALLER (deadline_state.rs / lib.rs never do this)?  Such ops
/// are still compared with the model, but once one is accepted the invariant monitor stops for the case.
fn caller_misuse(v: &View, op: &Op) -> bool {
    fn dup(s: &[Sec]) -> bool {
        let mut seen = BTreeSet::new();
        s.iter().any(|x| !seen.insert(x.num))
    }
    match op {
        Op::AddSectors { secs, .. } => dup(secs),
        Op::ReplaceSectors { old, new } => {
            dup(new) || new.iter().any(|s| v.sectors.contains(&s.num) && !old.contains(&s.num))
        }
        _ => false,
    }
}

// ---------- monitor ----------
type Pw = (BigInt, BigInt);
struct TRow {
    exp: i64,
    pw: Pw,
    pledge: BigInt,
    fee: BigInt,
}
fn sum_pw<'a, I: IntoIterator<Item = &'a u64>>(tbl: &BTreeMap<u64, TRow>, xs: I) -> Option<Pw> {
    let mut a = (BigInt::zero(), BigInt::zero());
    for n in xs {
        let r = tbl.get(n)?;
        a.0 += &r.pw.0;
        a.1 += &r.pw.1;
    }
    Some(a)
}
fn pp(p: &PowerPair) -> Pw {
    (p.raw.clone(), p.qa.clone())
}

/// independent implementation of PartInv over the abstract projection
fn partinv(w: &World, v: &View) -> Vec<String> {
    let mut bad = vec![];
    let tbl: BTreeMap<u64, TRow> = v
        .table
        .iter()
        .map(|(k, i)| {
            let p = power_for_sector(w.size, i);
            (*k, TRow { exp: i.expiration, pw: (p.raw, p.qa), pledge: i.initial_pledge.atto().clone(), fee: i.daily_fee.atto().clone() })
        })
        .collect();
    let (s, u, f, rc, t) = (&v.sectors, &v.unproven, &v.faults, &v.recoveries, &v.terminated);
    if !rc.is_subset(f) { bad.push("recoveries not within faults".into()); }
    if !f.is_subset(s) { bad.push("faults not within sectors".into()); }
    if !u.is_subset(s) { bad.push("unproven not within sectors".into()); }
    if !t.is_subset(s) { bad.push("terminated not within sectors".into()); }
    if !u.is_disjoint(f) { bad.push("unproven meets faults".into()); }
    if !u.is_disjoint(t) { bad.push("unproven meets terminated".into()); }
    if !f.is_disjoint(t) { bad.push("faults meets terminated".into()); }
    if let Some(n) = s.iter().find(|n| !tbl.contains_key(n)) {
        bad.push(format!("sector {} of the partition is not in the sector table", n));
        return bad;
    }
    let live = v.live();
    let p = &w.part;
    for (name, got, set) in [
        ("live_power", pp(&p.live_power), &live),
        ("unproven_power", pp(&p.unproven_power), u),
        ("faulty_power", pp(&p.faulty_power), f),
        ("recovering_power", pp(&p.recovering_power), rc),
    ] {
        let want = sum_pw(&tbl, set.iter()).unwrap();
        if got != want {
            bad.push(format!("{} is ({}, {}), the sectors sum to ({}, {})", name, got.0, got.1, want.0, want.1));
        }
    }
    // expiration queue
    let mut seen: BTreeSet<u64> = BTreeSet::new();
    for (k, es) in &v.queue {
        let k = *k;
        let ot = bset(&es.on_time_sectors);
        let ea = bset(&es.early_sectors);
        if k < 0 || w.quant.quantize_up(k) != k { bad.push(format!("queue key {} is not a quantised epoch", k)); }
        if ot.is_empty() && ea.is_empty() { bad.push(format!("queue entry {} is empty", k)); }
        for n in ot.iter().chain(ea.iter()) {
            if !seen.insert(*n) { bad.push(format!("sector {} is scheduled twice", n)); }
        }
        if !ea.is_subset(f) { bad.push(format!("entry {}: early sectors not all faulty", k)); }
        let all: BTreeSet<u64> = &ot | &ea;
        if !all.is_subset(&live) {
            bad.push(format!("entry {}: schedules sectors that are not live", k));
            continue;
        }
        for n in &ot {
            let q = w.quant.quantize_up(tbl[n].exp);
            if q != k { bad.push(format!("entry {}: on-time sector {} expires (quantised) at {}", k, n, q)); }
        }
        for n in &ea {
            let q = w.quant.quantize_up(tbl[n].exp);
            if !(k < q) { bad.push(format!("entry {}: early sector {} has on-time expiration {} <= entry", k, n, q)); }
        }
        let pledge: BigInt = ot.iter().map(|n| tbl[n].pledge.clone()).sum();
        if es.on_time_pledge.atto() != &pledge { bad.push(format!("entry {}: on_time_pledge {} != {}", k, es.on_time_pledge.atto(), pledge)); }
        let act = sum_pw(&tbl, ot.difference(f)).unwrap();
        if pp(&es.active_power) != act { bad.push(format!("entry {}: active_power ({}, {}) != ({}, {})", k, es.active_power.raw, es.active_power.qa, act.0, act.1)); }
        let fl: BTreeSet<u64> = &(&ot & f) | &ea;
        let flp = sum_pw(&tbl, fl.iter()).unwrap();
        if pp(&es.faulty_power) != flp { bad.push(format!("entry {}: faulty_power ({}, {}) != ({}, {})", k, es.faulty_power.raw, es.faulty_power.qa, flp.0, flp.1)); }
        let fee: BigInt = all.iter().map(|n| tbl[n].fee.clone()).sum();
        if es.fee_deduction.atto() != &fee { bad.push(format!("entry {}: fee_deduction {} != {}", k, es.fee_deduction.atto(), fee)); }
    }
    if seen != live { bad.push(format!("scheduled sectors {:?} != live sectors {:?}", seen, live)); }
    // early-termination queue
    let mut seen_et: BTreeSet<u64> = BTreeSet::new();
    for (k, b) in &v.early {
        if b.is_empty() { bad.push(format!("early-termination entry {} is empty", k)); }
        for n in b.iter() {
            if !seen_et.insert(n) { bad.push(format!("sector {} is in two early-termination entries", n)); }
            if !t.contains(&n) { bad.push(format!("early-terminated sector {} is not terminated", n)); }
        }
    }
    bad
}

fn monitor(w: &World, v: &View) -> Vec<(String, Vec<String>)> {
    let mut out = vec![];
    if let Err(e) = w.part.validate_state() {
        out.push(("validate-state".to_string(), vec![e.to_string()]));
    }
    let acc = MessageAccumulator::default();
    PartitionStateSummary::check_partition_state_invariants(&w.part, w.store, w.quant, w.size, &v.table, &acc);
    if !acc.is_empty() {
        out.push(("repo-checker".to_string(), acc.messages()));
    }
    let bad = partinv(w, v);
    if !bad.is_empty() {
        out.push(("partinv".to_string(), bad));
    }
    out
}

fn bump(stats: &mut Stats, key: &str) {
    let n = stats.extra.get(key).and_then(|x| x.as_u64()).unwrap_or(0);
    stats.extra.insert(key.to_string(), json!(n + 1));
}

/// generator-coverage counters over accepted ops (reported in stats.extra)
fn coverage(stats: &mut Stats, op: &Op, rets: &[String], v: &View) {
    if v.queue.iter().any(|(_, es)| !es.early_sectors.is_empty()) {
        bump(stats, "cov_states_with_early_queue_entries");
    }
    if v.queue.len() >= 3 {
        bump(stats, "cov_states_with_3plus_queue_entries");
    }
    if !v.early.is_empty() {
        bump(stats, "cov_states_with_pending_early_terminations");
    }
    if !v.recoveries.is_empty() {
        bump(stats, "cov_states_with_recoveries");
    }
    let nz = |i: usize| rets.get(i).map(|s| s != "0").unwrap_or(false);
    match op {
        Op::PopExpiredSectors { .. } => {
            if nz(0) {
                bump(stats, "cov_pop_expired_with_on_time");
            }
            let n_ot: usize = rets[0].parse().unwrap_or(0);
            if nz(1 + n_ot) {
                bump(stats, "cov_pop_expired_with_early");
            }
        }
        Op::TerminateSectors { .. } => {
            let n_ot: usize = rets[0].parse().unwrap_or(0);
            if nz(1 + n_ot) {
                bump(stats, "cov_terminate_removed_early");
            }
            if nz(rets.len() - 2) {
                bump(stats, "cov_terminate_removed_unproven");
            }
        }
        Op::PopEarlyTerminations { .. } => {
            if nz(rets.len() - 1) {
                bump(stats, "cov_pop_early_has_more");
            }
            if nz(rets.len() - 2) {
                bump(stats, "cov_pop_early_processed_some");
            }
        }
        Op::RecoverFaults => {
            if nz(0) {
                bump(stats, "cov_recover_faults_nonzero_power");
            }
        }
        Op::RecordFaults { .. } => {
            if nz(0) {
                bump(stats, "cov_record_faults_new_faults");
            }
        }
        Op::RecordSkippedFaults { .. } => {
            if nz(4) {
                bump(stats, "cov_record_skipped_retracted_recovery");
            }
        }
        Op::RecordMissedPost { .. } => {
            if nz(2) {
                bump(stats, "cov_missed_post_penalized_power");
            }
        }
        Op::ReplaceSectors { old, new } => {
            if !old.is_empty() && !new.is_empty() {
                bump(stats, "cov_replace_nonempty");
            }
        }
        Op::RescheduleExpirations { .. } => {
            if nz(0) {
                bump(stats, "cov_reschedule_moved_some");
            }
        }
        _ => {}
    }
}

// ---------- one case ----------
fn run_case(pc: &PCase, stats: &mut Stats, genr: Option<(&mut Prng, usize)>) -> (Case, Vec<serde_json::Value>) {
    let store = MemoryBlockstore::new();
    let root = Array::<SectorOnChainInfo, MemoryBlockstore>::new_with_bit_width(&store, SECTORS_AMT_BITWIDTH)
        .flush()
        .unwrap();
    let size = SIZES[pc.size as usize % SIZES.len()];
    let mut w = World {
        store: &store,
        part: Partition::new(&store).unwrap(),
        root,
        quant: QuantSpec { unit: pc.unit, offset: pc.offset },
        size,
    };
    let init = format!("init {} {}", cf::z(pc.unit), cf::z(pc.offset));
    let mut steps = vec![];
    let mut ops_done: Vec<Op> = vec![];
    let mut fails = vec![];
    let (mut acc, mut rej) = (false, false);
    let mut genr = genr;
    let n = match &genr { Some((_, n)) => *n, None => pc.ops.len() };
    let mut cur: i64 = match &mut genr { Some((r, _)) => r.range(0, 10), None => 0 };
    let mut tainted = false;
    let mut v = view(&w);
    for i in 0..n {
        let op = match &mut genr { Some((r, _)) => gen_op(r, &v, &mut cur, size), None => pc.ops[i].clone() };
        let misuse = caller_misuse(&v, &op);
        let (c, rets) = run_op(&mut w, &op, stats);
        stats.op(kind(&op), c);
        if c == 0 { acc = true } else { rej = true }
        ops_done.push(op.clone());
        v = view(&w);
        if c == 0 {
            if misuse && !tainted {
                tainted = true;
                bump(stats, "cases_with_accepted_caller_misuse");
            }
            if !tainted {
                for (class, what) in monitor(&w, &v) {
                    fails.push(json!({"class": class, "what": what, "step": i, "op": kind(&op),
                        "case": PCase { unit: pc.unit, offset: pc.offset, size: pc.size, ops: ops_done.clone() }}));
                }
            } else {
                // not failures (the caller broke its obligations), but evidence that each monitor can fire
                for (class, _) in monitor(&w, &v) {
                    bump(stats, &format!("after_caller_misuse_{}_fires", class));
                }
            }
            coverage(stats, &op, &rets, &v);
        }
        let mut o = vec![cf::z(c), cf::z(rets.len())];
        o.extend(rets);
        o.extend(enc_part(&w));
        steps.push((coq_op(size, &op), o));
    }
    (Case { init, steps, nontrivial: acc && rej }, fails)
}

fn main() {
    let a = cf::parse_args();
    let mut stats = Stats::default();
    std::panic::set_hook(Box::new(|_| {}));
    let header = "From stdpp Require Import gmap.\nFrom VF Require Import Model.Partition Base.Corr.\nFrom Coq Require Import ZArith List.\nImport ListNotations.\nOpen Scope Z_scope.\n";
    let mut cw = CaseWriter::new(&a.out, header, "check_case", a.shards);
    if let Some(p) = &a.replay {
        let v: serde_json::Value = serde_json::from_str(&std::fs::read_to_string(p).unwrap()).unwrap();
        let pc: PCase = serde_json::from_value(v["case"].clone()).unwrap();
        let (c, fails) = run_case(&pc, &mut stats, None);
        cw.push(c);
        for f in fails { stats.monitor_fail(f); }
        cw.finish(&stats, "partition");
        return;
    }
    // corpus first
    let corpus = std::path::Path::new(env!("CARGO_MANIFEST_DIR")).join("../corpus/C04");
    if let Ok(rd) = std::fs::read_dir(&corpus) {
        let mut files: Vec<_> = rd.filter_map(|e| e.ok()).map(|e| e.path()).collect();
        files.sort();
        for f in files {
            if f.extension().map(|x| x == "json").unwrap_or(false) {
                let v: serde_json::Value = serde_json::from_str(&std::fs::read_to_string(&f).unwrap()).unwrap();
                let pc: PCase = serde_json::from_value(v["case"].clone()).unwrap();
                let (c, fails) = run_case(&pc, &mut stats, None);
                cw.push(c);
                for f in fails { stats.monitor_fail(f); }
            }
        }
    }
    let mut root = Prng::new(a.seed);
    for k in 0..a.cases {
        let mut r = root.fork(k as u64);
        let unit = *r.pick(&[1i64, 2, 3, 4, 5, 7, 10, 16, 60]);
        let offset = if r.chance(10) { 100_000 + r.range(0, 1000) } else { r.range(0, 3 * unit - 1) };
        let size = r.below(SIZES.len() as u64) as u8;
        let pc = PCase { unit, offset, size, ops: vec![] };
        let (c, fails) = run_case(&pc, &mut stats, Some((&mut r, a.len)));
        cw.push(c);
        for f in fails { stats.monitor_fail(f); }
    }
    cw.finish(&stats, "partition");
}
