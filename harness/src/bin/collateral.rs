//! C03 harness: 1-3 REAL miners created through the real Power::CreateMiner (creation deposit left in
//! place), onboarding (pre-commit, prove-commit), expiring pre-commits, block rewards with penalties,
//! consensus-fault penalties, withdrawals, debt repayment, terminations, window PoSts, epoch advances from
//! minutes to 220 days with the cron -- against coq/Model/Collateral.v.
//!
//! Every top-level message is one model step.  What the model takes as INPUT is read from the real trace /
//! state difference (which sectors were pre-committed / activated / expired / terminated, their deposit or
//! pledge, the reward, the fee debt to repay); what the model must PREDICT is compared after every message:
//! per miner initial_pledge, pre_commit_deposits, locked_funds, the vesting table (sum, length, checksum),
//! sum and size of the pre-commit table, of the live sectors (sectors AMT x partition bitfields) and of the
//! sectors awaiting early-termination processing, the claim bit; the power actor's
//! total_pledge_collateral; every UpdatePledgeTotal delta in the invocation trace and its exit code.
use fil_actor_miner::{
    ExpirationExtension2, ExtendSectorExpiration2Params, PieceActivationManifest, ProveReplicaUpdates3Params,
    SectorUpdateManifest, ApplyRewardParams, BitFieldQueue, CompactCommD, CronEventPayload, DeferredCronEventParams,
    Method as MM, PoStPartition, PreCommitMap, PreCommitSectorBatchParams2, ProveCommitSectors3Params,
    ReportConsensusFaultParams, SectorActivationManifest, SectorPreCommitInfo, Sectors,
    State as MinerState, SubmitWindowedPoStParams, TerminateSectorsParams, TerminationDeclaration,
    WithdrawBalanceParams, CRON_EVENT_PROCESS_EARLY_TERMINATIONS, CRON_EVENT_PROVING_DEADLINE,
    NO_QUANTIZATION, PRECOMMIT_CONFIG,
};
use fil_actor_power::{CreateMinerParams, CreateMinerReturn, Method as PowerMethod, State as PowerState};
use fil_actor_reward::{AwardBlockRewardParams, Method as RewardMethod};
use fil_actors_integration_tests::expects::Expect;
use fil_actors_integration_tests::util::{create_accounts, create_miner_deposit_for_test};
use fil_actors_runtime::runtime::Policy;
use fil_actors_runtime::test_utils::{make_piece_cid, make_sealed_cid};
use fil_actors_runtime::{
    BURNT_FUNDS_ACTOR_ADDR, CRON_ACTOR_ADDR, REWARD_ACTOR_ADDR, STORAGE_POWER_ACTOR_ADDR,
    SYSTEM_ACTOR_ADDR,
};
use fvm_ipld_bitfield::BitField;
use fvm_ipld_encoding::{BytesDe, RawBytes};
use fvm_shared::address::Address;
use fvm_shared::bigint::BigInt;
use fvm_shared::econ::TokenAmount;
use fvm_shared::randomness::Randomness;
use fvm_shared::sector::{PoStProof, RegisteredPoStProof, RegisteredSealProof};
use fvm_shared::METHOD_SEND;
use num_traits::{Signed, Zero};
use serde::{Deserialize, Serialize};
use serde_json::json;
use std::collections::{BTreeMap, BTreeSet};
use vharness::coqfmt::{self as cf, Case, CaseWriter, Stats};
use vharness::prng::Prng;
use vharness::util::*;
use vharness::vvm::{Vvm, TEST_VM_RAND_ARRAY};
use vm_api::trace::InvocationTrace;
use vm_api::util::get_state;
use vm_api::VM;

const DAY: i64 = 2880;

#[derive(Clone, Debug, Serialize, Deserialize)]
enum GOp {
    /// Power::CreateMiner from account pair `k` with `extra` whole FIL above the deposit
    Create { k: usize, extra: i64 },
    /// plain send from the owner to the miner actor
    Fund { m: usize, fil: i64 },
    /// `dup`: the first sector is listed twice in the batch
    PreCommit { m: usize, count: usize, #[serde(default)] dup: bool },
    /// prove the first `n` pending pre-commits in one batch
    /// `dup`: the first sector is named twice (another pre-commit stays outstanding)
    ProveCommit { m: usize, n: usize, #[serde(default)] dup: bool },
    /// move the clock by `epochs`; then one cron tick (or none)
    Jump { epochs: i64, tick: bool },
    /// `n` times: (optionally submit the window PoSt of miner m's open deadline), go to the deadline's last
    /// epoch, cron tick, next epoch
    Deadlines { m: usize, n: usize, post: bool },
    /// penalty = `penalty` * `pscale` attoFIL
    Award { m: usize, penalty: i64, pscale: i64, gas: i64, wins: i64 },
    Withdraw { m: usize, stranger: bool, fil: i64 },
    /// terminate up to `n` live sectors, starting with the `pick`-th
    Terminate { m: usize, pick: usize, n: usize },
    RepayDebt { m: usize },
    ReportFault { m: usize },
    Post { m: usize },
    /// extend the expiration of one live sector by `days`
    Extend { m: usize, pick: usize, days: i64 },
    /// snap data into one live sector (pledge top-up)
    ReplicaUpdate { m: usize, pick: usize },
}

#[derive(Clone, Debug, Serialize, Deserialize)]
struct GCase {
    /// policy.addressed_sectors_max override (0 = default): forces the early-termination queue to be
    /// drained over several cron callbacks
    sectors_max: u64,
    ops: Vec<GOp>,
}

struct MinerH {
    id: Address,
    k: usize,
    next_sector: u64,
    pending: Vec<(u64, i64)>, // pre-committed sector, pre-commit epoch
    deposit: TokenAmount,     // creation deposit (ghost)
}

struct W {
    v: Vvm,
    accts: Vec<Address>,
    miners: Vec<MinerH>,
}

fn owner(w: &W, m: usize) -> Address { w.accts[2 * w.miners[m].k] }
fn worker(w: &W, m: usize) -> Address { w.accts[2 * w.miners[m].k + 1] }

#[derive(Clone, Default, Debug)]
struct MSnap {
    ip: TokenAmount,
    pcd: TokenAmount,
    locked: TokenAmount,
    fee_debt: TokenAmount,
    vest: Vec<(i64, BigInt)>,
    pc: BTreeMap<u64, TokenAmount>,
    live: BTreeMap<u64, (TokenAmount, i64)>, // pledge, expiration
    awaiting: BTreeMap<u64, TokenAmount>,
    claim: bool,
}

#[derive(Clone, Default, Debug)]
struct Snap {
    total: TokenAmount,
    miners: Vec<MSnap>,
}

fn snap_miner(v: &Vvm, id: &Address, pst: &PowerState) -> MSnap {
    let st: MinerState = get_state(v, id).unwrap();
    let store = v.store.as_ref();
    let vest: Vec<(i64, BigInt)> =
        st.vesting_funds.load(store).unwrap().into_iter().map(|f| (f.epoch, f.amount.atto().clone())).collect();
    let mut pc = BTreeMap::new();
    let pcm = PreCommitMap::load(store, &st.pre_committed_sectors, PRECOMMIT_CONFIG, "precommits").unwrap();
    pcm.for_each(|k, v| {
        pc.insert(k, v.pre_commit_deposit.clone());
        Ok(())
    })
    .unwrap();
    let sectors = Sectors::load(&store, &st.sectors).unwrap();
    let mut live = BTreeMap::new();
    let mut awaiting = BTreeMap::new();
    let dls = st.load_deadlines(store).unwrap();
    dls.for_each(store, |_i, dl| {
        dl.for_each(store, |_p, part| {
            let l = &part.sectors - &part.terminated;
            for s in l.iter() {
                let info = sectors.must_get(s).unwrap();
                live.insert(s, (info.initial_pledge.clone(), info.expiration));
            }
            let q = BitFieldQueue::new(store, &part.early_terminated, NO_QUANTIZATION).unwrap();
            q.amt
                .for_each(|_e, bf| {
                    for s in bf.iter() {
                        let info = sectors.must_get(s).unwrap();
                        awaiting.insert(s, info.initial_pledge.clone());
                    }
                    Ok(())
                })
                .unwrap();
            Ok(())
        })
    })
    .unwrap();
    let claim = pst.get_claim(store, id).unwrap().is_some();
    MSnap {
        ip: st.initial_pledge,
        pcd: st.pre_commit_deposits,
        locked: st.locked_funds,
        fee_debt: st.fee_debt,
        vest,
        pc,
        live,
        awaiting,
        claim,
    }
}

fn snapshot(w: &W) -> Snap {
    let pst: PowerState = get_state(&w.v, &STORAGE_POWER_ACTOR_ADDR).unwrap();
    Snap { total: pst.total_pledge_collateral.clone(), miners: w.miners.iter().map(|m| snap_miner(&w.v, &m.id, &pst)).collect() }
}

fn sum<'a, I: Iterator<Item = &'a TokenAmount>>(it: I) -> TokenAmount {
    let mut t = TokenAmount::zero();
    for x in it { t += x; }
    t
}

fn tbl_hash(t: &[(i64, BigInt)]) -> BigInt {
    let mut h = BigInt::zero();
    for (k, (e, a)) in t.iter().enumerate() {
        let i = BigInt::from(k as u64 + 1);
        h += (&i * &i * 1000003 + &i) * (a + BigInt::from(7919) * BigInt::from(*e));
    }
    h
}

fn obs(w: &W, s: &Snap, codes: &[u32], sends: &[(BigInt, u32)]) -> Vec<String> {
    let mut o = vec![cf::z(codes.len())];
    for c in codes { o.push(cf::z(c)); }
    o.push(cf::z(sends.len()));
    for (d, c) in sends { o.push(cf::z(d)); o.push(cf::z(c)); }
    o.push(cf::z(s.total.atto()));
    let mut order: Vec<usize> = (0..w.miners.len()).collect();
    order.sort_by_key(|i| w.miners[*i].id.id().unwrap());
    for i in order {
        let m = &s.miners[i];
        o.push(cf::z(w.miners[i].id.id().unwrap()));
        o.push(cf::z(m.claim as u8));
        o.push(cf::z(m.ip.atto()));
        o.push(cf::z(m.pcd.atto()));
        o.push(cf::z(m.locked.atto()));
        let vs: BigInt = m.vest.iter().map(|x| x.1.clone()).sum();
        o.push(cf::z(vs));
        o.push(cf::z(m.vest.len()));
        o.push(cf::z(tbl_hash(&m.vest)));
        o.push(cf::z(sum(m.pc.values()).atto()));
        o.push(cf::z(m.pc.len()));
        o.push(cf::z(sum(m.live.values().map(|x| &x.0)).atto()));
        o.push(cf::z(m.live.len()));
        o.push(cf::z(sum(m.awaiting.values()).atto()));
        o.push(cf::z(m.awaiting.len()));
    }
    o
}

// ---------- reading the invocation trace ----------
fn is_miner(w: &W, a: &Address) -> Option<usize> {
    w.miners.iter().position(|m| m.id == *a)
}

/// maximal nodes that are method invocations on one of our miner actors
fn miner_calls<'a>(w: &W, t: &'a InvocationTrace, out: &mut Vec<(usize, &'a InvocationTrace)>) {
    if let Some(i) = is_miner(w, &t.to) {
        if t.method != METHOD_SEND && t.method != MM::Constructor as u64 {
            out.push((i, t));
            return;
        }
    }
    for s in &t.subinvocations { miner_calls(w, s, out); }
}

/// UpdatePledgeTotal sends made directly by this invocation: (delta, exit code)
fn pledge_sends(t: &InvocationTrace) -> Vec<(BigInt, u32)> {
    let mut v = vec![];
    for s in &t.subinvocations {
        if s.to == STORAGE_POWER_ACTOR_ADDR && s.method == PowerMethod::UpdatePledgeTotal as u64 {
            let d: TokenAmount = s.params.as_ref().unwrap().deserialize().unwrap();
            v.push((d.atto().clone(), s.exit_code.value()));
        }
    }
    v
}

/// values burnt by this invocation, split at the first EnrollCronEvent (handle_proving_deadline enrols the
/// next deadline before it processes early terminations)
fn burns(t: &InvocationTrace) -> (TokenAmount, TokenAmount) {
    let (mut a, mut b) = (TokenAmount::zero(), TokenAmount::zero());
    let mut after = false;
    for s in &t.subinvocations {
        if s.to == STORAGE_POWER_ACTOR_ADDR && s.method == PowerMethod::EnrollCronEvent as u64 { after = true; }
        if s.to == BURNT_FUNDS_ACTOR_ADDR && s.exit_code.is_success() {
            if after { b += &s.value } else { a += &s.value }
        }
    }
    (a, b)
}

/// UpdatePledgeTotal sends before / after the first EnrollCronEvent
fn pledge_sends_split(t: &InvocationTrace) -> (Vec<(BigInt, u32)>, Vec<(BigInt, u32)>) {
    let (mut a, mut b) = (vec![], vec![]);
    let mut after = false;
    for s in &t.subinvocations {
        if s.to == STORAGE_POWER_ACTOR_ADDR && s.method == PowerMethod::EnrollCronEvent as u64 { after = true; }
        if s.to == STORAGE_POWER_ACTOR_ADDR && s.method == PowerMethod::UpdatePledgeTotal as u64 {
            let d: TokenAmount = s.params.as_ref().unwrap().deserialize().unwrap();
            if after { b.push((d.atto().clone(), s.exit_code.value())) } else { a.push((d.atto().clone(), s.exit_code.value())) }
        }
    }
    (a, b)
}

fn all_events<'a>(t: &'a InvocationTrace, out: &mut Vec<&'a vm_api::trace::EmittedEvent>) {
    for e in &t.events { out.push(e); }
    for s in &t.subinvocations { all_events(s, out); }
}

fn terminated_events(t: &InvocationTrace, miner_id: u64, cands: &BTreeSet<u64>) -> Vec<u64> {
    let mut ev = vec![];
    all_events(t, &mut ev);
    cands.iter().filter(|s| {
        let e = Expect::build_miner_event("sector-terminated", miner_id, **s);
        ev.iter().any(|x| **x == e)
    }).cloned().collect()
}

/// the fee debt that unlock_vested_and_unvested_funds must have been given to unlock `x` in total from the
/// (loaded) table `t` at epoch `cur`; used only where the debt is not observable (rolled-back calls)
fn infer_target(t: &[(i64, BigInt)], cur: i64, x: &BigInt) -> BigInt {
    let v0: BigInt = t.iter().filter(|e| e.0 < cur).map(|e| e.1.clone()).sum();
    let u: BigInt = t.iter().filter(|e| e.0 >= cur).map(|e| e.1.clone()).sum();
    if x.is_zero() { return BigInt::zero(); }
    let rest = x - &v0;
    if rest < u && rest.is_positive() { rest } else if rest.is_positive() { u.max(BigInt::from(1)) } else { BigInt::from(1) }
}

fn nlist<I: IntoIterator<Item = u64>>(xs: I) -> String {
    cf::list(xs.into_iter().map(|s| format!("{}%N", s)))
}
fn plist<'a, I: IntoIterator<Item = (u64, &'a TokenAmount)>>(xs: I) -> String {
    cf::list(xs.into_iter().map(|(s, a)| format!("({}%N, {})", s, cf::z(a.atto()))))
}

struct Derived {
    ext: u32,
    mop: String,
    kind: &'static str,
}

/// model inputs of one miner invocation.  `later` = the same miner has another callback later in this message
fn derive(w: &W, i: usize, t: &InvocationTrace, pre: &MSnap, post: &MSnap, epoch: i64, later: bool, stats: &mut Stats) -> Derived {
    let code = t.exit_code.value();
    let ok = code == 0;
    let sends = pledge_sends(t);
    let failed_upt = sends.iter().find(|s| s.1 != 0).cloned();
    let mid = w.miners[i].id.id().unwrap();
    let (burn1, burn2) = burns(t);
    let m = t.method;
    let mut ext = if ok || failed_upt.is_some() { 0 } else { code };
    let mut note = |k: &str| { *stats.extra.entry(k.to_string()).or_insert(json!(0)) = json!(stats.extra.get(k).and_then(|x| x.as_u64()).unwrap_or(0) + 1); };
    let (kind, mop): (&'static str, String) = if m == MM::PreCommitSectorBatch2 as u64 {
        let p: PreCommitSectorBatchParams2 = t.params.as_ref().unwrap().deserialize().unwrap();
        let secs: Vec<(u64, TokenAmount)> = p.sectors.iter().map(|s| (s.sector_number, post.pc.get(&s.sector_number).cloned().unwrap_or_default())).collect();
        // a sector number listed twice: the model rejects the batch itself (illegal_argument)
        let distinct: BTreeSet<u64> = secs.iter().map(|x| x.0).collect();
        if code == 16 && distinct.len() < secs.len() { ext = 0; }
        ("precommit", format!("MPreCommit {}", plist(secs.iter().map(|(s, a)| (*s, a)))))
    } else if m == MM::ProveCommitSectors3 as u64 {
        let p: ProveCommitSectors3Params = t.params.as_ref().unwrap().deserialize().unwrap();
        let nums: Vec<u64> = p.sector_activations.iter().map(|a| a.sector_number).collect();
        // a pre-committed sector named twice: the model must reject the batch itself (illegal_state from
        // delete_precommitted_sectors), it is not an input
        let distinct: BTreeSet<u64> = nums.iter().cloned().collect();
        if code == 20 && failed_upt.is_none() && distinct.len() < nums.len() && nums.iter().all(|s| pre.pc.contains_key(s)) { ext = 0; }
        let secs: Vec<(u64, TokenAmount)> = if ok {
            nums.iter().filter(|s| pre.pc.contains_key(s) && post.live.contains_key(s)).map(|s| (*s, post.live[s].0.clone())).collect()
        } else if let Some((d, _)) = &failed_upt {
            // rolled back: the split of the pledge over the batch is not observable, only its total
            note("inferred_inputs");
            nums.iter().enumerate().map(|(k, s)| (*s, if k == 0 { TokenAmount::from_atto(d.clone()) } else { TokenAmount::zero() })).collect()
        } else {
            nums.iter().map(|s| (*s, TokenAmount::zero())).collect()
        };
        ("provecommit", format!("MProveCommit {}", plist(secs.iter().map(|(s, a)| (*s, a)))))
    } else if m == MM::ApplyRewards as u64 {
        let p: ApplyRewardParams = t.params.as_ref().unwrap().deserialize().unwrap();
        let target = &pre.fee_debt + &p.penalty;
        ("apply_rewards", format!("MApplyRewards {} {}", cf::z(p.reward.atto()), cf::z(target.atto())))
    } else if m == MM::WithdrawBalance as u64 {
        if code == 18 && t.from == owner(w, i).id().unwrap() && !pre.awaiting.is_empty() { ext = 0; }
        ("withdraw", "MWithdraw".to_string())
    } else if m == MM::RepayDebt as u64 {
        ("repay_debt", format!("MRepay {}", cf::z(pre.fee_debt.atto())))
    } else if m == MM::ReportConsensusFault as u64 {
        let target: BigInt = if ok {
            // fee debt before the repayment = what is left + what was burnt + what went to the reporter
            let mut paid = burn1.clone() + burn2.clone();
            for s in &t.subinvocations { if s.method == METHOD_SEND && s.to != BURNT_FUNDS_ACTOR_ADDR && s.exit_code.is_success() { paid += &s.value; } }
            (&post.fee_debt + paid).atto().clone()
        } else if let Some((d, _)) = &failed_upt {
            note("inferred_inputs");
            infer_target(&pre.vest, epoch, &(-d))
        } else { BigInt::zero() };
        ("report_fault", format!("MRepay {}", cf::z(target)))
    } else if m == MM::TerminateSectors as u64 {
        let p: TerminateSectorsParams = t.params.as_ref().unwrap().deserialize().unwrap();
        let named: BTreeSet<u64> = p.terminations.iter().flat_map(|d| d.sectors.iter()).collect();
        let (secs, processed, target): (Vec<u64>, Vec<u64>, BigInt) = if ok {
            let secs: Vec<u64> = pre.live.keys().filter(|s| !post.live.contains_key(s)).cloned().collect();
            let cands: BTreeSet<u64> = pre.awaiting.keys().cloned().chain(secs.iter().cloned()).collect();
            let processed: Vec<u64> = cands.iter().filter(|s| !post.awaiting.contains_key(s)).cloned().collect();
            (secs, processed, (&post.fee_debt + &burn1 + &burn2).atto().clone())
        } else if let Some((d, _)) = &failed_upt {
            note("inferred_inputs");
            let secs: Vec<u64> = named.iter().filter(|s| pre.live.contains_key(s)).cloned().collect();
            let processed: Vec<u64> = pre.awaiting.keys().cloned().chain(secs.iter().cloned()).collect();
            let pl: BigInt = processed.iter().map(|s| pre.awaiting.get(s).map(|a| a.atto().clone()).unwrap_or_else(|| pre.live[s].0.atto().clone())).sum();
            let x = -d - pl;
            (secs, processed, infer_target(&pre.vest, epoch, &x))
        } else { (vec![], vec![], BigInt::zero()) };
        ("terminate", format!("MTerminate {} {} {}", nlist(secs), nlist(processed), cf::z(target)))
    } else if m == MM::OnDeferredCronEvent as u64 {
        let p: DeferredCronEventParams = t.params.as_ref().unwrap().deserialize().unwrap();
        let pl: CronEventPayload = fvm_ipld_encoding::from_slice(&p.event_payload).unwrap();
        if pl.event_type == CRON_EVENT_PROVING_DEADLINE {
            if ok {
                let expired: Vec<u64> = pre.pc.keys().filter(|s| !post.pc.contains_key(s)).cloned().collect();
                let gone: BTreeSet<u64> = pre.live.keys().filter(|s| !post.live.contains_key(s)).cloned().collect();
                let cands: BTreeSet<u64> = pre.awaiting.keys().cloned().chain(gone.iter().cloned()).collect();
                let processed = terminated_events(t, mid, &cands);
                let early: Vec<u64> = gone.iter().filter(|s| post.awaiting.contains_key(s) || processed.contains(s)).cloned().collect();
                let ontime: Vec<u64> = gone.iter().filter(|s| !early.contains(s)).cloned().collect();
                let rel: BigInt = ontime.iter().map(|s| pre.live[s].0.atto().clone()).sum();
                let (s1, s2) = pledge_sends_split(t);
                let d1 = s1.first().map(|s| s.0.clone()).unwrap_or_default();
                let (t1, t2): (BigInt, BigInt) = if processed.is_empty() {
                    if later { note("inferred_inputs"); (infer_cron_target(&pre.vest, epoch, &(-&d1 - &rel)), BigInt::zero()) }
                    else { ((&post.fee_debt + &burn1 + &burn2).atto().clone(), BigInt::zero()) }
                } else {
                    // two repayments in one callback.  The second debt is observable (what is left + what was
                    // burnt).  The first is observable when funds stayed locked in between (then the debt was
                    // repaid in full = burn1); that is the case if the second repayment unlocked something or
                    // funds are still locked now.  Otherwise everything was unlocked by the first one.
                    let ppl: BigInt = processed.iter().map(|s| pre.awaiting.get(s).map(|a| a.atto().clone()).unwrap_or_else(|| pre.live[s].0.atto().clone())).sum();
                    let d2 = s2.first().map(|s| s.0.clone()).unwrap_or_default();
                    let tu2 = -&d2 - &ppl;
                    let t2 = (&post.fee_debt + &burn2).atto().clone();
                    if (tu2.is_positive() || post.locked.is_positive()) && !later { (burn1.atto().clone(), t2) }
                    else { note("inferred_inputs"); (infer_cron_target(&pre.vest, epoch, &(-&d1 - &rel)), t2) }
                };
                ("cron_deadline", format!("MCronDeadline {} {} {} {} {} {}", nlist(expired), nlist(ontime), nlist(early), cf::z(t1), nlist(processed), cf::z(t2)))
            } else if let Some((d, _)) = &failed_upt {
                // rolled back: assume no expirations in this callback (checked by the model: it must then
                // send exactly the refused delta)
                note("inferred_inputs");
                ("cron_deadline", format!("MCronDeadline [] [] [] {} [] 0", cf::z(infer_cron_target(&pre.vest, epoch, &(-d)))))
            } else {
                ("cron_deadline", "MCronDeadline [] [] [] 0 [] 0".to_string())
            }
        } else if pl.event_type == CRON_EVENT_PROCESS_EARLY_TERMINATIONS {
            let cands: BTreeSet<u64> = pre.awaiting.keys().cloned().collect();
            let processed = if ok { terminated_events(t, mid, &cands) } else { vec![] };
            let target = (&post.fee_debt + &burn1 + &burn2).atto().clone();
            ("cron_early", format!("MCronEarly {} {}", nlist(processed), cf::z(target)))
        } else {
            ("cron_other", "MOther".to_string())
        }
    } else if m == MM::ProveReplicaUpdates3 as u64 {
        let p: ProveReplicaUpdates3Params = t.params.as_ref().unwrap().deserialize().unwrap();
        let nums: Vec<u64> = p.sector_updates.iter().map(|u| u.sector).collect();
        // the pledge computed for the new power is visible only through max(old, computed) = the new pledge
        let ups: Vec<(u64, TokenAmount)> = if ok {
            nums.iter().filter(|s| post.live.contains_key(s)).map(|s| (*s, post.live[s].0.clone())).collect()
        } else if let Some((d, _)) = &failed_upt {
            note("inferred_inputs");
            nums.iter().enumerate().filter(|(_, s)| pre.live.contains_key(s)).map(|(k, s)| (*s, if k == 0 { &pre.live[s].0 + TokenAmount::from_atto(d.clone()) } else { pre.live[s].0.clone() })).collect()
        } else { vec![] };
        ("replica_update", format!("MReplicaUpdate {}", plist(ups.iter().map(|(s, a)| (*s, a)))))
    } else if m == MM::ExtendSectorExpiration2 as u64 {
        ("extend", "MOther".to_string())
    } else if m == MM::SubmitWindowedPoSt as u64 {
        ("post", "MOther".to_string())
    } else {
        ("other", "MOther".to_string())
    };
    if ext != 0 {
        note(&format!("ext:{}:{}", kind, ext));
        if !sends.is_empty() { note("ext_after_notify"); }
    }
    Derived { ext, mop, kind }
}

/// like infer_target, for handle_proving_deadline: repay (target) then unlock_vested; with target = 0 the
/// vested funds are released by the second step
fn infer_cron_target(t: &[(i64, BigInt)], cur: i64, x: &BigInt) -> BigInt {
    let v0: BigInt = t.iter().filter(|e| e.0 < cur).map(|e| e.1.clone()).sum();
    if *x == v0 { BigInt::zero() } else { infer_target(t, cur, x) }
}

// ---------- monitors ----------
fn monitors(w: &W, s: &Snap, traces: &[InvocationTrace]) -> Vec<(String, String)> {
    let mut bad = vec![];
    let mut net = TokenAmount::zero();
    let mut deps = TokenAmount::zero();
    for (i, m) in s.miners.iter().enumerate() {
        let id = w.miners[i].id;
        let sl = sum(m.live.values().map(|x| &x.0)) + sum(m.awaiting.values());
        if m.ip != sl {
            bad.push(("ip-ledger-mismatch".to_string(), format!("miner {}: initial_pledge {} != pledge of live + awaiting-termination sectors {}", id, m.ip.atto(), sl.atto())));
        }
        let sp = sum(m.pc.values());
        if m.pcd != sp {
            bad.push(("pcd-ledger-mismatch".to_string(), format!("miner {}: pre_commit_deposits {} != deposits of outstanding pre-commits {}", id, m.pcd.atto(), sp.atto())));
        }
        let sv: BigInt = m.vest.iter().map(|x| x.1.clone()).sum();
        if *m.locked.atto() != sv {
            bad.push(("locked-ledger-mismatch".to_string(), format!("miner {}: locked_funds {} != vesting table sum {}", id, m.locked.atto(), sv)));
        }
        net += &m.ip + &m.locked;
        deps += &w.miners[i].deposit;
    }
    if s.total != net {
        let short = &net - &s.total;
        if short == deps && deps.is_positive() {
            bad.push(("F1-pledge-total-short-by-creation-deposit".to_string(), format!("total_pledge_collateral {} = sum(ip+locked) {} - creation deposits {}", s.total.atto(), net.atto(), deps.atto())));
        } else {
            bad.push(("network-pledge-mismatch".to_string(), format!("total_pledge_collateral {} != sum(ip+locked) {} (difference {}, creation deposits {})", s.total.atto(), net.atto(), short.atto(), deps.atto())));
        }
    }
    if s.total.is_negative() {
        bad.push(("network-pledge-negative".to_string(), format!("total_pledge_collateral {}", s.total.atto())));
    }
    // an otherwise valid operation refused because the total would become negative
    fn walk(t: &InvocationTrace, out: &mut Vec<(u64, u64, BigInt)>) {
        if t.to == STORAGE_POWER_ACTOR_ADDR && t.method == PowerMethod::UpdatePledgeTotal as u64 && t.exit_code.value() == 20 {
            let d: TokenAmount = t.params.as_ref().unwrap().deserialize().unwrap();
            out.push((t.from, t.method, d.atto().clone()));
        }
        for s in &t.subinvocations { walk(s, out); }
    }
    let mut rej = vec![];
    for t in traces { walk(t, &mut rej); }
    for (from, _, d) in rej {
        // with the creation deposits counted the total would have stayed non-negative: this is F1
        if (s.total.atto() + deps.atto() + &d).is_negative() || !deps.is_positive() {
            bad.push(("pledge-update-blocked".to_string(), format!("UpdatePledgeTotal({}) from {} refused at total {}", d, from, s.total.atto())));
        } else {
            bad.push(("F1-pledge-total-negative".to_string(), format!("UpdatePledgeTotal({}) from miner {} refused with exit 20 at total {} (creation deposits never added: {})", d, from, s.total.atto(), deps.atto())));
        }
    }
    bad
}

// ---------- executing one generated op ----------
struct Ctx<'a> {
    steps: Vec<(String, Vec<String>)>,
    fails: Vec<serde_json::Value>,
    seen: BTreeSet<String>,
    stats: &'a mut Stats,
    done: Vec<GOp>,
    sectors_max: u64,
    accepted: bool,
    rejected: bool,
    /// number of miner invocations in the last message
    last_calls: usize,
}

/// executes one top-level message, derives the model op, records the step, runs the monitors
fn message<P: Serialize>(w: &mut W, cx: &mut Ctx, label: &'static str, from: &Address, to: &Address, value: &TokenAmount, method: u64, params: Option<P>) -> u32 {
    let pre = snapshot(w);
    let epoch = w.v.epoch();
    w.v.take_invocations();
    let root0 = w.v.checkpoint();
    let r = exec(&w.v, from, to, value, method, params);
    let traces = w.v.take_invocations();
    let c = code(&r);
    let r_message = r.message.clone();
    // A cron callback whose UpdatePledgeTotal was refused is rolled back, so what it WOULD have expired /
    // repaid (inputs of the model) is not visible in the state.  Re-run the same tick from the same state
    // with a power actor whose pledge total is large enough, read the inputs there, and restore the real
    // post-state.  Only the inputs come from this run; codes, sends and states compared are the real ones.
    let mut cf: Option<(Vec<InvocationTrace>, Snap)> = None;
    if *to == CRON_ACTOR_ADDR {
        let mut calls = vec![];
        for t in &traces { miner_calls(w, t, &mut calls); }
        if calls.iter().any(|(_, t)| pledge_sends(t).iter().any(|s| s.1 == 20)) {
            let root1 = w.v.checkpoint();
            w.v.rollback(root0);
            vm_api::util::mutate_state(&w.v, &STORAGE_POWER_ACTOR_ADDR, |st: &mut PowerState| {
                st.total_pledge_collateral += TokenAmount::from_whole(1_000_000_000);
            });
            let _ = exec::<()>(&w.v, from, to, value, method, None);
            let tr = w.v.take_invocations();
            let sn = snapshot(w);
            w.v.rollback(root1);
            w.v.panics.borrow_mut().clear();
            cf = Some((tr, sn));
            *cx.stats.extra.entry("counterfactual_ticks".into()).or_insert(json!(0)) = json!(cx.stats.extra.get("counterfactual_ticks").and_then(|x| x.as_u64()).unwrap_or(0) + 1);
        }
    }
    // a new miner?
    let mut created = None;
    if *to == STORAGE_POWER_ACTOR_ADDR && method == PowerMethod::CreateMiner as u64 {
        if c == 0 {
            let ret: CreateMinerReturn = r.ret.unwrap().deserialize().unwrap();
            created = Some(ret.id_address);
        }
    }
    if let Some(id) = created {
        let st: MinerState = get_state(&w.v, &id).unwrap();
        w.miners.push(MinerH { id, k: usize::MAX, next_sector: 100, pending: vec![], deposit: st.locked_funds.clone() });
    }
    let post = snapshot(w);
    let mut codes = vec![];
    let mut sends = vec![];
    let op_text;
    if *to == STORAGE_POWER_ACTOR_ADDR && method == PowerMethod::CreateMiner as u64 {
        codes.push(c);
        if let Some(id) = created {
            let st: MinerState = get_state(&w.v, &id).unwrap();
            op_text = format!("CreateMiner {}%N {} {} {} 0", id.id().unwrap(), cf::z(epoch), cf::z(st.locked_funds.atto()), cf::z(st.proving_period_start));
        } else {
            op_text = format!("CreateMiner 0%N {} 0 0 {}", cf::z(epoch), c);
        }
        cx.stats.op("create_miner", c);
    } else {
        let mut calls = vec![];
        for t in &traces { miner_calls(w, t, &mut calls); }
        let is_cron = *to == CRON_ACTOR_ADDR;
        cx.last_calls = calls.len();
        if calls.is_empty() {
            // nothing reached a miner: the model state must be unchanged
            op_text = format!("Tick {} []", cf::z(epoch));
            cx.stats.op(label, c);
        } else if is_cron {
            let mut cbs = vec![];
            for (k, (i, t)) in calls.iter().enumerate() {
                let later = calls[k + 1..].iter().any(|(j, _)| j == i);
                let earlier = calls[..k].iter().any(|(j, _)| j == i);
                if earlier { *cx.stats.extra.entry("second_callback_same_tick".into()).or_insert(json!(0)) = json!(1); }
                let mut d = derive(w, *i, t, &pre.miners[*i], &post.miners[*i], epoch, later, cx.stats);
                if let Some((tr, sn)) = &cf {
                    if pledge_sends(t).iter().any(|s| s.1 == 20) {
                        // the same callback (same miner, same occurrence) in the counterfactual run
                        let occ = calls[..k].iter().filter(|(j, _)| j == i).count();
                        let mut ccalls = vec![];
                        for x in tr { miner_calls(w, x, &mut ccalls); }
                        if let Some((_, ct)) = ccalls.iter().filter(|(j, _)| j == i).nth(occ) {
                            if ct.exit_code.is_success() {
                                let dd = derive(w, *i, ct, &pre.miners[*i], &sn.miners[*i], epoch, later || earlier, cx.stats);
                                d.mop = dd.mop;
                            }
                        }
                    }
                }
                let cc = t.exit_code.value();
                codes.push(cc);
                sends.extend(if d.ext != 0 { vec![] } else { pledge_sends(t) });
                cx.stats.op(d.kind, cc);
                if cc == 0 { cx.accepted = true } else { cx.rejected = true }
                cbs.push(format!("({}%N, {}, {})", w.miners[*i].id.id().unwrap(), d.ext, d.mop));
            }
            op_text = format!("Tick {} {}", cf::z(epoch), cf::list(cbs));
        } else {
            let (i, t) = calls[0];
            let d = derive(w, i, t, &pre.miners[i], &post.miners[i], epoch, false, cx.stats);
            if d.ext != 0 {
                // keep one sample message per (kind, code) of the rejections that are inputs of the model
                let key = format!("extmsg:{}:{}", d.kind, d.ext);
                if !cx.stats.extra.contains_key(&key) { cx.stats.extra.insert(key, json!(r_message.chars().take(300).collect::<String>())); }
            }
            let cc = t.exit_code.value();
            codes.push(cc);
            sends.extend(if d.ext != 0 { vec![] } else { pledge_sends(t) });
            cx.stats.op(d.kind, cc);
            if cc == 0 { cx.accepted = true } else { cx.rejected = true }
            op_text = format!("Call {}%N {} {} ({})", w.miners[i].id.id().unwrap(), cf::z(epoch), d.ext, d.mop);
        }
    }
    cx.steps.push((op_text, obs(w, &post, &codes, &sends)));
    for (cls, msg) in monitors(w, &post, &traces) {
        // one report per class and case
        if cx.seen.insert(cls.clone()) {
            cx.fails.push(json!({"class": cls, "what": [msg], "step": cx.steps.len() - 1,
                "case": GCase { sectors_max: cx.sectors_max, ops: cx.done.clone() }}));
        }
    }
    for p in w.v.panics.borrow_mut().drain(..) { cx.stats.panics.push(p); }
    c
}

fn tick(w: &mut W, cx: &mut Ctx) {
    message::<()>(w, cx, "cron_tick", &SYSTEM_ACTOR_ADDR, &CRON_ACTOR_ADDR, &TokenAmount::zero(), fil_actor_cron::Method::EpochTick as u64, None);
}

fn submit_post(w: &mut W, cx: &mut Ctx, m: usize) {
    let id = w.miners[m].id;
    let st: MinerState = get_state(&w.v, &id).unwrap();
    let store = w.v.store.clone();
    let dl_info = st.deadline_info(&w.v.policy, w.v.epoch());
    if !dl_info.period_started() || w.v.epoch() < dl_info.open { return; }
    let dls = st.load_deadlines(store.as_ref()).unwrap();
    let dl = dls.load_deadline(store.as_ref(), dl_info.index).unwrap();
    let mut parts = vec![];
    dl.for_each(store.as_ref(), |p, part| {
        let l = &part.sectors - &part.terminated;
        if !l.is_empty() { parts.push(PoStPartition { index: p, skipped: BitField::new() }); }
        Ok(())
    }).unwrap();
    if parts.is_empty() { return; }
    let params = SubmitWindowedPoStParams {
        deadline: dl_info.index,
        partitions: parts,
        proofs: vec![PoStProof { post_proof: RegisteredPoStProof::StackedDRGWindow32GiBV1P1, proof_bytes: vec![] }],
        chain_commit_epoch: dl_info.challenge,
        chain_commit_rand: Randomness(TEST_VM_RAND_ARRAY.into()),
    };
    let wk = worker(w, m);
    message(w, cx, "post", &wk, &id, &TokenAmount::zero(), MM::SubmitWindowedPoSt as u64, Some(params));
}

fn miner_of(op: &GOp) -> Option<usize> {
    match op {
        GOp::Fund { m, .. } | GOp::PreCommit { m, .. } | GOp::ProveCommit { m, .. } | GOp::Deadlines { m, .. }
        | GOp::Award { m, .. } | GOp::Withdraw { m, .. } | GOp::Terminate { m, .. } | GOp::RepayDebt { m }
        | GOp::ReportFault { m } | GOp::Post { m } | GOp::Extend { m, .. } | GOp::ReplicaUpdate { m, .. } => Some(*m),
        _ => None,
    }
}

fn run_gop(w: &mut W, cx: &mut Ctx, op: &GOp) {
    let seal = RegisteredSealProof::StackedDRG32GiBV1P1;
    if let Some(m) = miner_of(op) { if m >= w.miners.len() || w.miners[m].k == usize::MAX { return; } }
    match op {
        GOp::Create { k, extra } => {
            let (o, wk) = (w.accts[2 * k], w.accts[2 * k + 1]);
            let deposit = create_miner_deposit_for_test(&w.v);
            let params = CreateMinerParams {
                owner: o,
                worker: wk,
                window_post_proof_type: RegisteredPoStProof::StackedDRGWindow32GiBV1P1,
                peer: b"miner".to_vec(),
                multiaddrs: vec![BytesDe(b"multiaddr".to_vec())],
            };
            let n0 = w.miners.len();
            let value = if *extra < 0 { TokenAmount::from_whole(1) } else { deposit + TokenAmount::from_whole(*extra) };
            message(w, cx, "create_miner", &o, &STORAGE_POWER_ACTOR_ADDR, &value, PowerMethod::CreateMiner as u64, Some(params));
            if w.miners.len() > n0 { w.miners[n0].k = *k; }
        }
        GOp::Fund { m, fil } => {
            let (o, id) = (owner(w, *m), w.miners[*m].id);
            message::<()>(w, cx, "fund", &o, &id, &TokenAmount::from_whole(*fil), METHOD_SEND, None);
        }
        GOp::PreCommit { m, count, dup } => {
            let (wk, id) = (worker(w, *m), w.miners[*m].id);
            let pol = Policy::default();
            let exp = w.v.epoch() + pol.min_sector_expiration + fil_actor_miner::max_prove_commit_duration(&pol, seal).unwrap() + 100;
            let base = w.miners[*m].next_sector;
            let sectors: Vec<SectorPreCommitInfo> = (0..*count as u64).map(|j| SectorPreCommitInfo {
                seal_proof: seal,
                sector_number: base + j,
                sealed_cid: make_sealed_cid(format!("sn: {}", base + j).as_bytes()),
                seal_rand_epoch: w.v.epoch() - 1,
                deal_ids: vec![],
                expiration: exp,
                unsealed_cid: CompactCommD::default(),
            }).collect();
            let mut sectors = sectors;
            if *dup { let first = sectors[0].clone(); sectors.push(first); }
            let e = w.v.epoch();
            let c = message(w, cx, "precommit", &wk, &id, &TokenAmount::zero(), MM::PreCommitSectorBatch2 as u64, Some(PreCommitSectorBatchParams2 { sectors }));
            w.miners[*m].next_sector += *count as u64;
            if c == 0 { for j in 0..*count as u64 { w.miners[*m].pending.push((base + j, e)); } }
        }
        GOp::ProveCommit { m, n, dup } => {
            let (wk, id) = (worker(w, *m), w.miners[*m].id);
            let np = w.miners[*m].pending.len();
            // with a duplicate entry another pre-commit must stay outstanding (its deposit keeps
            // pre_commit_deposits large enough for a double release to go unnoticed by the actor's own checks)
            let dup = *dup && np >= 2;
            let n = (*n).min(if dup { np - 1 } else { np });
            if n == 0 { return; }
            let batch: Vec<(u64, i64)> = if dup { w.miners[*m].pending[..n].to_vec() } else { w.miners[*m].pending.drain(..n).collect() };
            let mut sector_activations: Vec<SectorActivationManifest> = batch.iter().map(|(s, _)| SectorActivationManifest { sector_number: *s, pieces: vec![] }).collect();
            if dup { sector_activations.push(SectorActivationManifest { sector_number: batch[0].0, pieces: vec![] }); }
            let params = ProveCommitSectors3Params {
                sector_proofs: sector_activations.iter().map(|sa| RawBytes::new(vec![sa.sector_number as u8; 4])).collect(),
                sector_activations,
                aggregate_proof: vec![].into(),
                aggregate_proof_type: None,
                require_activation_success: true,
                require_notification_success: false,
            };
            message(w, cx, "provecommit", &wk, &id, &TokenAmount::zero(), MM::ProveCommitSectors3 as u64, Some(params));
        }
        GOp::Jump { epochs, tick: t } => {
            w.v.set_epoch(w.v.epoch() + epochs);
            if *t { tick(w, cx); }
        }
        GOp::Deadlines { m, n, post } => {
            for _ in 0..*n {
                let id = w.miners[*m].id;
                if *post { submit_post(w, cx, *m); }
                let st: MinerState = get_state(&w.v, &id).unwrap();
                let dl = st.deadline_info(&w.v.policy, w.v.epoch());
                let last = dl.last().max(w.v.epoch());
                w.v.set_epoch(last);
                tick(w, cx);
                w.v.set_epoch(last + 1);
                if cx.last_calls == 0 { break; }   // nobody is on the cron any more
            }
        }
        GOp::Award { m, penalty, pscale, gas, wins } => {
            let p = AwardBlockRewardParams { miner: w.miners[*m].id, penalty: TokenAmount::from_atto(*penalty as i128 * *pscale as i128), gas_reward: TokenAmount::from_atto(*gas), win_count: *wins };
            message(w, cx, "award", &SYSTEM_ACTOR_ADDR, &REWARD_ACTOR_ADDR, &TokenAmount::zero(), RewardMethod::AwardBlockReward as u64, Some(p));
        }
        GOp::Withdraw { m, stranger, fil } => {
            let who = if *stranger { w.accts[w.accts.len() - 1] } else { owner(w, *m) };
            let id = w.miners[*m].id;
            message(w, cx, "withdraw", &who, &id, &TokenAmount::zero(), MM::WithdrawBalance as u64, Some(WithdrawBalanceParams { amount_requested: TokenAmount::from_whole(*fil) }));
        }
        GOp::Terminate { m, pick, n } => {
            let id = w.miners[*m].id;
            let pst: PowerState = get_state(&w.v, &STORAGE_POWER_ACTOR_ADDR).unwrap();
            let s = snap_miner(&w.v, &id, &pst);
            let live: Vec<u64> = s.live.keys().cloned().collect();
            if live.is_empty() { return; }
            let st: MinerState = get_state(&w.v, &id).unwrap();
            let mut by: BTreeMap<(u64, u64), Vec<u64>> = BTreeMap::new();
            for j in 0..(*n).min(live.len()) {
                let sn = live[(pick + j) % live.len()];
                if let Ok((d, p)) = st.find_sector(w.v.store.as_ref(), sn) { let e = by.entry((d, p)).or_default(); if !e.contains(&sn) { e.push(sn); } }
            }
            let terminations: Vec<TerminationDeclaration> = by.into_iter().map(|((d, p), ss)| TerminationDeclaration { deadline: d, partition: p, sectors: BitField::try_from_bits(ss).unwrap() }).collect();
            let wk = worker(w, *m);
            message(w, cx, "terminate", &wk, &id, &TokenAmount::zero(), MM::TerminateSectors as u64, Some(TerminateSectorsParams { terminations }));
        }
        GOp::RepayDebt { m } => {
            let (o, id) = (owner(w, *m), w.miners[*m].id);
            message::<()>(w, cx, "repay_debt", &o, &id, &TokenAmount::zero(), MM::RepayDebt as u64, None);
        }
        GOp::ReportFault { m } => {
            let id = w.miners[*m].id;
            let reporter = w.accts[w.accts.len() - 1];
            w.v.consensus_fault.replace(Some(fvm_shared::consensus::ConsensusFault { target: id, epoch: w.v.epoch() - 1, fault_type: fvm_shared::consensus::ConsensusFaultType::DoubleForkMining }));
            let p = ReportConsensusFaultParams { header1: vec![1], header2: vec![2], header_extra: vec![] };
            message(w, cx, "report_fault", &reporter, &id, &TokenAmount::zero(), MM::ReportConsensusFault as u64, Some(p));
            w.v.consensus_fault.replace(None);
        }
        GOp::Post { m } => submit_post(w, cx, *m),
        GOp::Extend { m, pick, days } => {
            let id = w.miners[*m].id;
            let pst: PowerState = get_state(&w.v, &STORAGE_POWER_ACTOR_ADDR).unwrap();
            let sn = snap_miner(&w.v, &id, &pst);
            let live: Vec<(u64, i64)> = sn.live.iter().map(|(k, v)| (*k, v.1)).collect();
            if live.is_empty() { return; }
            let (s, exp) = live[pick % live.len()];
            let st: MinerState = get_state(&w.v, &id).unwrap();
            let Ok((d, p)) = st.find_sector(w.v.store.as_ref(), s) else { return };
            let params = ExtendSectorExpiration2Params { extensions: vec![ExpirationExtension2 {
                deadline: d, partition: p, sectors: BitField::try_from_bits([s]).unwrap(), sectors_with_claims: vec![], new_expiration: exp + days * DAY }] };
            let wk = worker(w, *m);
            message(w, cx, "extend", &wk, &id, &TokenAmount::zero(), MM::ExtendSectorExpiration2 as u64, Some(params));
        }
        GOp::ReplicaUpdate { m, pick } => {
            let id = w.miners[*m].id;
            let pst: PowerState = get_state(&w.v, &STORAGE_POWER_ACTOR_ADDR).unwrap();
            let sn = snap_miner(&w.v, &id, &pst);
            let live: Vec<u64> = sn.live.keys().cloned().collect();
            if live.is_empty() { return; }
            let s = live[pick % live.len()];
            let st: MinerState = get_state(&w.v, &id).unwrap();
            let Ok((d, p)) = st.find_sector(w.v.store.as_ref(), s) else { return };
            let params = ProveReplicaUpdates3Params {
                sector_updates: vec![SectorUpdateManifest { sector: s, deadline: d, partition: p, new_sealed_cid: make_sealed_cid(format!("replica {}", s).as_bytes()),
                    pieces: vec![PieceActivationManifest { cid: make_piece_cid(format!("piece {}", s).as_bytes()), size: fvm_shared::piece::PaddedPieceSize(1 << 30), verified_allocation_key: None, notify: vec![] }] }],
                sector_proofs: vec![RawBytes::new(vec![1, 2, 3, 4])],
                aggregate_proof: RawBytes::default(),
                update_proofs_type: seal.registered_update_proof().unwrap(),
                aggregate_proof_type: None,
                require_activation_success: true,
                require_notification_success: false,
            };
            let wk = worker(w, *m);
            message(w, cx, "replica_update", &wk, &id, &TokenAmount::zero(), MM::ProveReplicaUpdates3 as u64, Some(params));
        }
    }
}

// ---------- generator ----------
/// `plan` holds the rest of a macro (onboarding, a faulty month, ...) that was started earlier
fn gen_op(r: &mut Prng, w: &W, ops_so_far: usize, plan: &mut std::collections::VecDeque<GOp>, rich: bool) -> GOp {
    if let Some(op) = plan.pop_front() { return op; }
    let nm = w.miners.len();
    if nm == 0 || (nm < 3 && ops_so_far > 2 && r.chance(5)) {
        let used: Vec<usize> = w.miners.iter().map(|m| m.k).collect();
        let k = (0..3).find(|k| !used.contains(k)).unwrap_or(0);
        if rich {
            // enough sectors that the pledge total outweighs the creation deposits (the miner survives F1)
            let cnt = 34 + r.below(10) as usize;
            plan.push_back(GOp::PreCommit { m: nm, count: cnt, dup: false });
            plan.push_back(GOp::Jump { epochs: 151 + r.range(0, 30), tick: r.chance(50) });
            plan.push_back(GOp::ProveCommit { m: nm, n: cnt, dup: false });
        }
        return GOp::Create { k, extra: if r.chance(95) { if rich { r.range(1500, 6000) } else { r.range(0, 3000) } } else { -1 } };
    }
    let m = r.below(nm as u64) as usize;
    let mh = &w.miners[m];
    let e = w.v.epoch();
    let ready = mh.pending.iter().take_while(|(_, pe)| e > pe + 150).count();
    match r.below(100) {
        0..=9 => {
            let count = 1 + r.below(4) as usize;
            if r.chance(60) {
                plan.push_back(GOp::Jump { epochs: 151 + r.range(0, 60), tick: r.chance(50) });
                plan.push_back(GOp::ProveCommit { m, n: if r.chance(70) { count } else { 1 }, dup: false });
            }
            GOp::PreCommit { m, count, dup: r.chance(4) }
        }
        10..=19 if ready > 0 => GOp::ProveCommit { m, n: 1 + r.below(ready as u64) as usize, dup: r.chance(15) },
        10..=13 if !mh.pending.is_empty() => GOp::Jump { epochs: 151 + r.range(0, 40), tick: r.chance(50) },
        14..=19 => GOp::Fund { m, fil: r.range(1, 500) },
        20..=31 => GOp::Award { m, penalty: if r.chance(60) { 0 } else { r.below(1 << 58) as i64 }, pscale: if r.chance(70) { 1 } else { 200 }, gas: r.below(1 << 50) as i64, wins: if r.chance(95) { r.range(1, 3) } else { 0 } },
        32..=43 => GOp::Withdraw { m, stranger: r.chance(8), fil: if r.chance(25) { 0 } else if r.chance(70) { r.range(1, 40) } else { 1_000_000 } },
        44..=51 => GOp::Jump { epochs: *r.pick(&[5i64, 30, 120, 600, 1500, DAY, DAY + 77, 2 * DAY, 5 * DAY, 31 * DAY, 43 * DAY, 100 * DAY, 215 * DAY]), tick: r.chance(85) },
        52..=63 => GOp::Deadlines { m, n: *r.pick(&[1usize, 1, 2, 3, 6, 12, 24, 48, 49]), post: r.chance(75) },
        64..=67 => {
            // a long stretch: jump, then walk through a whole proving period so that every deadline is
            // processed (faults detected / expirations popped)
            plan.push_back(GOp::Deadlines { m, n: 49, post: r.chance(50) });
            GOp::Jump { epochs: *r.pick(&[31 * DAY, 43 * DAY, 215 * DAY, 100 * DAY]), tick: true }
        }
        68..=79 => GOp::Terminate { m, pick: r.below(50) as usize, n: 1 + r.below(4) as usize },
        80..=83 => GOp::RepayDebt { m },
        84..=88 => GOp::ReportFault { m },
        89..=91 => GOp::Post { m },
        92..=93 => GOp::Extend { m, pick: r.below(50) as usize, days: r.range(1, 60) },
        94..=96 => {
            // the sector must have been proven once: post first
            plan.push_back(GOp::ReplicaUpdate { m, pick: r.below(50) as usize });
            GOp::Deadlines { m, n: *r.pick(&[1usize, 3, 12, 48]), post: true }
        }
        97 => {
            // let everything go faulty and stay faulty for more than fault_max_age: early terminations out of cron
            plan.push_back(GOp::Deadlines { m, n: 49, post: false });
            plan.push_back(GOp::Jump { epochs: 42 * DAY, tick: true });
            plan.push_back(GOp::Deadlines { m, n: 49, post: false });
            for _ in 0..(2 + r.below(6)) { plan.push_back(GOp::Jump { epochs: 1, tick: true }); }
            GOp::Jump { epochs: 2 * DAY, tick: true }
        }
        _ => GOp::Jump { epochs: r.range(1, 20), tick: true },
    }
}

fn setup(sectors_max: u64) -> W {
    let mut v = new_world();
    if sectors_max > 0 { v.policy.addressed_sectors_max = sectors_max; }
    let accts = create_accounts(&v, 7, &TokenAmount::from_whole(50_000));
    v.set_epoch(1);
    W { v, accts, miners: vec![] }
}

fn run_case(gc: &GCase, stats: &mut Stats, genr: Option<(&mut Prng, usize)>) -> (Case, GCase, Vec<serde_json::Value>) {
    let mut w = setup(gc.sectors_max);
    let mut cx = Ctx { steps: vec![], fails: vec![], seen: BTreeSet::new(), stats, done: vec![], sectors_max: gc.sectors_max, accepted: false, rejected: false, last_calls: 0 };
    let mut genr = genr;
    let n = match &genr { Some((_, n)) => *n, None => gc.ops.len() };
    let mut plan = std::collections::VecDeque::new();
    let rich = match &mut genr { Some((r, _)) => r.chance(60), None => false };
    for i in 0..n {
        let op = match &mut genr { Some((r, _)) => gen_op(r, &w, i, &mut plan, rich), None => gc.ops[i].clone() };
        cx.done.push(op.clone());
        run_gop(&mut w, &mut cx, &op);
        if cx.steps.len() > 600 { break; }
    }
    let nontrivial = cx.accepted && cx.rejected;
    (Case { init: "init".to_string(), steps: cx.steps, nontrivial }, GCase { sectors_max: gc.sectors_max, ops: cx.done }, cx.fails)
}

/// the F1 witness, always run first
fn witness() -> GCase {
    GCase { sectors_max: 0, ops: vec![
        GOp::Create { k: 0, extra: 100 },
        GOp::Withdraw { m: 0, stranger: false, fil: 1 },
        GOp::Jump { epochs: DAY, tick: false },
        GOp::Withdraw { m: 0, stranger: false, fil: 1 },
        GOp::Jump { epochs: DAY + 10, tick: false },
        GOp::Withdraw { m: 0, stranger: false, fil: 1 },
        GOp::Award { m: 0, penalty: 0, pscale: 1, gas: 1000, wins: 1 },
        GOp::PreCommit { m: 0, count: 2, dup: false },
        GOp::Jump { epochs: 200, tick: true },
        GOp::ProveCommit { m: 0, n: 2, dup: false },
        GOp::Withdraw { m: 0, stranger: false, fil: 1 },
        GOp::Deadlines { m: 0, n: 3, post: true },
    ] }
}

fn main() {
    if std::env::var("COLL_DEBUG").is_err() { std::panic::set_hook(Box::new(|_| {})); }
    let a = cf::parse_args();
    let mut stats = Stats::default();
    let header = "From stdpp Require Import gmap.\nFrom VF Require Import Model.Collateral Base.Corr.\nFrom Coq Require Import ZArith List.\nImport ListNotations.\nOpen Scope Z_scope.\n";
    let mut cw = CaseWriter::new(&a.out, header, "check_case", a.shards);
    if let Some(p) = &a.replay {
        let v: serde_json::Value = serde_json::from_str(&std::fs::read_to_string(p).unwrap()).unwrap();
        let c = if v.get("case").is_some() { v["case"].clone() } else { v["violation"]["detail"]["case"].clone() };
        let gc: GCase = serde_json::from_value(c).unwrap();
        let (c, _, fails) = run_case(&gc, &mut stats, None);
        cw.push(c);
        for f in fails { stats.monitor_fail(f); }
        cw.finish(&stats, "collateral");
        return;
    }
    let mut all = vec![witness()];
    let corpus = std::path::Path::new(env!("CARGO_MANIFEST_DIR")).join("../corpus/C03");
    if let Ok(rd) = std::fs::read_dir(&corpus) {
        let mut files: Vec<_> = rd.filter_map(|e| e.ok()).map(|e| e.path()).collect();
        files.sort();
        for f in files {
            if f.extension().map(|x| x == "json").unwrap_or(false) {
                let v: serde_json::Value = serde_json::from_str(&std::fs::read_to_string(&f).unwrap()).unwrap();
                all.push(serde_json::from_value(v["case"].clone()).unwrap());
            }
        }
    }
    let mut all_fails: Vec<serde_json::Value> = vec![];
    for gc in &all {
        let (c, _, fails) = run_case(gc, &mut stats, None);
        cw.push(c);
        all_fails.extend(fails);
    }
    let mut root = Prng::new(a.seed);
    for k in 0..a.cases {
        let mut r = root.fork(k as u64);
        let gc = GCase { sectors_max: if r.chance(25) { 1 + r.below(2) } else { 0 }, ops: vec![] };
        let (c, _, fails) = run_case(&gc, &mut stats, Some((&mut r, a.len)));
        cw.push(c);
        all_fails.extend(fails);
    }
    // Stats keeps at most 20 monitor failures: report every class once, unknown classes first, so that the
    // (expected, known) F1 reports of every case cannot crowd out anything else
    let mut per_class: BTreeMap<String, usize> = BTreeMap::new();
    all_fails.sort_by_key(|f| f["class"].as_str().map(|c| c.starts_with("F1-")).unwrap_or(false));
    for f in all_fails {
        let c = f["class"].as_str().unwrap_or("?").to_string();
        let n = per_class.entry(c.clone()).or_insert(0);
        *n += 1;
        if *n <= 2 { stats.monitor_fail(f); }
    }
    stats.extra.insert("monitor_failures_per_class".into(), json!(per_class));
    cw.finish(&stats, "collateral");
}
