//! C18 (and the program-level half of C17) correspondence + monitor harness: generated EVM bytecode
//! deployed through the real EAM / Init / EVM actors on the harness VM and invoked with
//! fil_actor_evm::Method::InvokeContract, against `run spec_ops` of coq/Model/EvmMachine.v.
//!
//! Everything the interpreter obtains from outside the contract is recorded on the implementation
//! side and handed to the model as its environment / oracle stream:
//!  * keccak pre-images and digests (hook on the VM's hash_64 primitive),
//!  * the results of the messages the contract sends (from the VM's invocation trace),
//!  * context values (computed by the harness from the VM's configuration).
//! Precompile calls are detected through the `log` facade (call.rs logs them) and such cases are
//! dropped and counted (precompiles are outside the modelled instruction set).
use fil_actor_evm::interpreter::{execute, Bytecode, ExecutionState, Outcome, System};
use fil_actor_evm::{DelegateCallParams, State as EvmState};
use fil_actors_evm_shared::address::EthAddress;
use fil_actors_evm_shared::uints::U256;
use fil_actors_runtime::runtime::Runtime;
use fil_actors_runtime::{EAM_ACTOR_ADDR, EAM_ACTOR_ID, INIT_ACTOR_ADDR};
use fvm_ipld_blockstore::Blockstore;
use fvm_ipld_encoding::ipld_block::IpldBlock;
use fvm_ipld_encoding::{BytesDe, BytesSer};
use fvm_ipld_kamt::{AsHashedKey, Config as KamtConfig, HashedKey, Kamt};
use fvm_shared::address::{Address, Payload};
use fvm_shared::bigint::BigUint;
use fvm_shared::crypto::hash::SupportedHashes;
use fvm_shared::econ::TokenAmount;
use fvm_shared::error::ExitCode;
use multihash_codetable::{Code, MultihashDigest};
use num_traits::Zero;
use serde::{Deserialize, Serialize};
use std::borrow::Cow;
use std::cell::{Cell, RefCell};
use std::collections::BTreeMap;
use std::sync::mpsc;
use std::time::Duration;
use vharness::coqfmt::{self as cf, Case, CaseWriter, Stats};
use vharness::prng::Prng;
use vharness::util::*;
use vharness::vvm::{InternalMessage, InvocationCtx, TopCtx, Vvm};
use vm_api::trace::{EmittedEvent, InvocationTrace};
use vm_api::util::get_state;
use vm_api::VM;

const INVOKE: u64 = fil_actor_evm::Method::InvokeContract as u64;
const MAX_BYTES: usize = 4096; // observed byte strings longer than this: the case is dropped

// ------------------------------------------------------------------------------------------------
// recording hooks
// ------------------------------------------------------------------------------------------------
thread_local! {
    static HASH_LOG: RefCell<Vec<(Vec<u8>, Vec<u8>)>> = RefCell::new(vec![]);
    static PRECOMPILE_CALLS: Cell<u64> = Cell::new(0);
}

/// the real digests (multihash code table), recording keccak-256 pre-images
fn hash64_hook(h: SupportedHashes, data: &[u8]) -> ([u8; 64], usize) {
    let hasher = Code::try_from(h as u64).unwrap();
    let (_code, buf, size) = hasher.digest(data).into_inner();
    if matches!(h, SupportedHashes::Keccak256) {
        HASH_LOG.with(|l| l.borrow_mut().push((data.to_vec(), buf[..size as usize].to_vec())));
    }
    (buf, size as usize)
}

fn keccak(data: &[u8]) -> Vec<u8> {
    Code::Keccak256.digest(data).digest().to_vec()
}

struct EvmLogger;
impl log::Log for EvmLogger {
    fn enabled(&self, m: &log::Metadata) -> bool {
        m.target() == "evm" && m.level() <= log::Level::Info
    }
    fn log(&self, r: &log::Record) {
        if r.target() == "evm" && r.args().to_string().starts_with("Call Precompile") {
            PRECOMPILE_CALLS.with(|c| c.set(c.get() + 1));
        }
    }
    fn flush(&self) {}
}
static LOGGER: EvmLogger = EvmLogger;

// ------------------------------------------------------------------------------------------------
// Gallina printing
// ------------------------------------------------------------------------------------------------
fn words32(bs: &[u8]) -> Vec<String> {
    bs.chunks(32)
        .map(|c| {
            let mut w = c.to_vec();
            w.resize(32, 0);
            let h = hex::encode(&w);
            let t = h.trim_start_matches('0');
            if t.is_empty() { "0".to_string() } else { format!("0x{}", t) }
        })
        .collect()
}
/// a byte string as `bw len [32-byte words]` (decoded by the model)
fn coq_bytes(bs: &[u8]) -> String {
    if bs.is_empty() {
        "[]".to_string()
    } else {
        format!("(bw {} [{}])", bs.len(), words32(bs).join("; "))
    }
}
/// Gallina literal of a natural number: hexadecimal when large (Coq parses long decimal literals slowly)
fn zs(x: &BigUint) -> String {
    if x.bits() <= 32 { x.to_string() } else { format!("0x{}", x.to_str_radix(16)) }
}
fn big(bs: &[u8]) -> BigUint {
    BigUint::from_bytes_be(bs)
}
fn u256_big(x: &U256) -> BigUint {
    BigUint::from_bytes_be(&x.to_big_endian())
}
fn tok_big(t: &TokenAmount) -> BigUint {
    t.atto().to_biguint().unwrap_or_default()
}
fn obs_bytes(o: &mut Vec<String>, bs: &[u8]) {
    o.push(bs.len().to_string());
    o.extend(words32(bs));
}

// ------------------------------------------------------------------------------------------------
// tiny assembler
// ------------------------------------------------------------------------------------------------
#[derive(Default, Clone)]
struct Asm {
    code: Vec<u8>,
    fix: Vec<(usize, usize)>,
    labels: Vec<Option<usize>>,
}
impl Asm {
    fn op(&mut self, b: u8) -> &mut Self {
        self.code.push(b);
        self
    }
    fn ops(&mut self, bs: &[u8]) -> &mut Self {
        self.code.extend_from_slice(bs);
        self
    }
    /// minimal-width push of a big-endian value
    fn push_be(&mut self, bytes: &[u8]) -> &mut Self {
        let t: Vec<u8> = bytes.iter().cloned().skip_while(|b| *b == 0).collect();
        assert!(t.len() <= 32);
        if t.is_empty() {
            self.code.push(0x5f);
        } else {
            self.code.push(0x5f + t.len() as u8);
            self.code.extend_from_slice(&t);
        }
        self
    }
    fn push(&mut self, v: u64) -> &mut Self {
        self.push_be(&v.to_be_bytes())
    }
    fn push_big(&mut self, v: &BigUint) -> &mut Self {
        self.push_be(&v.to_bytes_be())
    }
    /// PUSHn with exactly these n data bytes
    fn push_raw(&mut self, data: &[u8]) -> &mut Self {
        assert!(!data.is_empty() && data.len() <= 32);
        self.code.push(0x5f + data.len() as u8);
        self.code.extend_from_slice(data);
        self
    }
    fn new_label(&mut self) -> usize {
        self.labels.push(None);
        self.labels.len() - 1
    }
    fn place(&mut self, l: usize) -> &mut Self {
        self.labels[l] = Some(self.code.len());
        self.code.push(0x5b);
        self
    }
    fn push_label(&mut self, l: usize) -> &mut Self {
        self.code.push(0x61);
        self.fix.push((self.code.len(), l));
        self.code.extend_from_slice(&[0, 0]);
        self
    }
    fn here(&self) -> usize {
        self.code.len()
    }
    fn finish(mut self) -> Vec<u8> {
        for (pos, l) in &self.fix {
            let t = self.labels[*l].unwrap_or(0xffff);
            self.code[*pos] = (t >> 8) as u8;
            self.code[*pos + 1] = t as u8;
        }
        self.code
    }
}

/// init code that returns `runtime` as the contract's code
fn wrap_initcode(runtime: &[u8]) -> Vec<u8> {
    let n = runtime.len();
    let mut c = vec![0x61, (n >> 8) as u8, n as u8, 0x80, 0x61, 0, 11, 0x5f, 0x39, 0x5f, 0xf3];
    c.extend_from_slice(runtime);
    c
}

// ------------------------------------------------------------------------------------------------
// world
// ------------------------------------------------------------------------------------------------
#[derive(Clone)]
struct Contract {
    id: Address,
    eth: [u8; 20],
    code: Vec<u8>,
}

struct World {
    v: Vvm,
    acct: Address,
    echo: Contract,
    reverter: Contract,
    sproxy: Contract,
    cproxy: Contract,
    /// an f410 address that exists as a placeholder actor (calls to it fail, but it resolves)
    ghost: [u8; 20],
    deployed: usize,
    /// ID -> eth address of f410 actors seen alive (placeholders created by a call disappear again
    /// when the message is rolled back, but their ID stays in the trace)
    id_cache: RefCell<std::collections::HashMap<u64, [u8; 20]>>,
    unresolved: Cell<bool>,
    /// (0xff.. ID form, Ethereum address) of the f410 actors the current parse resolved
    canon: RefCell<Vec<([u8; 20], [u8; 20])>>,
}

const EPOCH: i64 = 100_000;

fn eth_from_id(id: u64) -> [u8; 20] {
    EthAddress::from_id(id).0
}

struct BeKey;
impl AsHashedKey<U256, 32> for BeKey {
    fn as_hashed_key(key: &U256) -> Cow<'_, HashedKey<32>> {
        Cow::Owned(key.to_big_endian())
    }
}
const KAMT_CONFIG: KamtConfig = KamtConfig { min_data_depth: 0, bit_width: 5, max_array_width: 1 };

fn read_kamt(v: &Vvm, root: &cid::Cid) -> BTreeMap<BigUint, BigUint> {
    let kamt: Kamt<_, U256, U256, BeKey> = Kamt::load_with_config(root, v.store.clone(), KAMT_CONFIG).unwrap();
    let mut m = BTreeMap::new();
    kamt.for_each(|k, val| {
        m.insert(u256_big(k), u256_big(val));
        Ok(())
    })
    .unwrap();
    m
}

/// (storage, transient storage written by the message with this (origin, nonce))
fn read_state(v: &Vvm, c: &Address, origin: u64, nonce: u64) -> (BTreeMap<BigUint, BigUint>, BTreeMap<BigUint, BigUint>) {
    match v.actor(c) {
        None => (BTreeMap::new(), BTreeMap::new()),
        Some(_) => {
            let st: EvmState = match get_state(v, c) {
                Some(s) => s,
                None => return (BTreeMap::new(), BTreeMap::new()),
            };
            let storage = read_kamt(v, &st.contract_state);
            let transient = match st.transient_data {
                Some(td) if td.transient_data_lifespan.origin == origin && td.transient_data_lifespan.nonce == nonce => {
                    read_kamt(v, &td.transient_data_state)
                }
                _ => BTreeMap::new(),
            };
            (storage, transient)
        }
    }
}

fn deploy_raw(v: &Vvm, from: &Address, initcode: &[u8], value: u64) -> vm_api::MessageResult {
    exec(
        v,
        from,
        &EAM_ACTOR_ADDR,
        &TokenAmount::from_atto(value),
        fil_actor_eam::Method::CreateExternal as u64,
        Some(fil_actor_eam::CreateExternalParams(initcode.to_vec())),
    )
}

fn deploy_helper(v: &Vvm, from: &Address, runtime: &[u8]) -> Contract {
    let r = deploy_raw(v, from, &wrap_initcode(runtime), 0);
    assert_eq!(code(&r), 0, "helper deployment failed: {}", r.message);
    let ret: fil_actor_eam::CreateExternalReturn = r.ret.unwrap().deserialize().unwrap();
    Contract { id: Address::new_id(ret.actor_id), eth: ret.eth_address.0, code: runtime.to_vec() }
}

fn proxy_code(static_call: bool) -> Vec<u8> {
    let mut a = Asm::default();
    a.op(0x5f).op(0x5f); // osz, ooff
    a.push(32).op(0x36).op(0x03); // isz = calldatasize - 32
    a.op(0x80).push(32).op(0x5f).op(0x37); // calldatacopy(0, 32, isz)
    a.op(0x5f); // ioff
    if !static_call {
        a.op(0x5f); // value
    }
    a.op(0x5f).op(0x35); // dst = calldataload(0)
    a.op(0x5a); // gas
    a.op(if static_call { 0xfa } else { 0xf1 });
    a.op(0x5f).op(0x52); // mem[0..32) = flag
    a.op(0x3d).op(0x5f).push(32).op(0x3e); // returndatacopy(32, 0, rds)
    a.op(0x3d).push(32).op(0x01).op(0x5f).op(0xf3); // return(0, 32 + rds)
    a.finish()
}

fn new_evm_world() -> World {
    let v = new_world();
    v.primitives.hash_64.replace(Some(hash64_hook));
    v.set_epoch(EPOCH);
    let accts = fil_actors_integration_tests::util::create_accounts(&v, 1, &TokenAmount::from_whole(1_000_000));
    let acct = accts[0];
    let echo = deploy_helper(&v, &acct, &[0x36, 0x5f, 0x5f, 0x37, 0x36, 0x5f, 0xf3]);
    let reverter = deploy_helper(&v, &acct, &[0x36, 0x5f, 0x5f, 0x37, 0x36, 0x5f, 0xfd]);
    let sproxy = deploy_helper(&v, &acct, &proxy_code(true));
    let cproxy = deploy_helper(&v, &acct, &proxy_code(false));
    let ghost: [u8; 20] = hex::decode("77aa00000000000000000000000000000000beef").unwrap().try_into().unwrap();
    let r = v
        .execute_message(&acct, &Address::new_delegated(EAM_ACTOR_ID, &ghost).unwrap(), &TokenAmount::from_atto(1), 0, None)
        .unwrap();
    assert_eq!(code(&r), 0, "ghost creation failed: {}", r.message);
    v.take_invocations();
    World { v, acct, echo, reverter, sproxy, cproxy, ghost, deployed: 0, id_cache: RefCell::new(Default::default()), unresolved: Cell::new(false), canon: RefCell::new(vec![]) }
}

// ------------------------------------------------------------------------------------------------
// cases
// ------------------------------------------------------------------------------------------------
#[derive(Clone, Debug, Serialize, Deserialize)]
struct Inv {
    calldata: String, // hex
    value: u64,
    /// 0: direct InvokeContract; 1..=3: beneath that many proxies, the outermost a STATICCALL proxy
    depth: u8,
    /// inner proxies (depth >= 2) use CALL instead of STATICCALL
    inner_call: bool,
}
#[derive(Clone, Debug, Serialize, Deserialize)]
struct PCase {
    genr: String,
    initcode: String, // hex
    deploy_value: u64,
    invokes: Vec<Inv>,
}

#[derive(Default)]
struct ExtRes {
    ok: bool,
    val: BigUint,
    ret: Vec<u8>,
}
enum Msg {
    Call { delegate: bool, dst: [u8; 20], value: BigUint, input: Vec<u8> },
    Create { two: bool, value: BigUint, salt: BigUint, init: Vec<u8> },
    Selfdestruct { b: [u8; 20] },
}
#[derive(Default)]
struct Parsed {
    ext: Vec<ExtRes>,
    msgs: Vec<Msg>,
    logs: Vec<(Vec<BigUint>, Vec<u8>)>,
    skip: Option<String>,
    canon: Vec<([u8; 20], [u8; 20])>,
}

fn eth_of(w: &World, a: &Address) -> [u8; 20] {
    match a.payload() {
        Payload::ID(id) => {
            match w.v.actor(a) {
                Some(act) => {
                    if let Some(d) = act.delegated_address {
                        if let Payload::Delegated(da) = d.payload() {
                            if da.namespace() == EAM_ACTOR_ID && da.subaddress().len() == 20 {
                                let e: [u8; 20] = da.subaddress().try_into().unwrap();
                                w.id_cache.borrow_mut().insert(*id, e);
                                w.canon.borrow_mut().push((eth_from_id(*id), e));
                                return e;
                            }
                        }
                    }
                }
                None => {
                    if let Some(e) = w.id_cache.borrow().get(id) {
                        w.canon.borrow_mut().push((eth_from_id(*id), *e));
                        return *e;
                    }
                    if *id >= 100 {
                        if std::env::var("EVM_PROG_DEBUG").is_ok() {
                            eprintln!("unresolved id {} (cache: {:?})", id, w.id_cache.borrow().keys().collect::<Vec<_>>());
                        }
                        w.unresolved.set(true);
                    }
                }
            }
            eth_from_id(*id)
        }
        Payload::Delegated(da) if da.namespace() == EAM_ACTOR_ID && da.subaddress().len() == 20 => {
            da.subaddress().try_into().unwrap()
        }
        _ => [0xee; 20],
    }
}

fn cache_ids(w: &World, ts: &[InvocationTrace]) {
    for t in ts {
        let _ = eth_of(w, &t.to);
        cache_ids(w, &t.subinvocations);
    }
}

fn block_bytes(b: &Option<IpldBlock>) -> Vec<u8> {
    match b {
        None => vec![],
        Some(r) => r.deserialize::<BytesDe>().map(|BytesDe(d)| d).unwrap_or_else(|_| r.data.clone()),
    }
}

/// what the contract execution `node` asked of the outside world, and the answers it got
fn parse_node(w: &World, me: &Address, subs: &[InvocationTrace], events: &[EmittedEvent]) -> Parsed {
    let mut p = Parsed::default();
    w.unresolved.set(false);
    w.canon.borrow_mut().clear();
    let mut i = 0;
    while i < subs.len() {
        let t = &subs[i];
        let raw_params = t.params.as_ref().map(|b| b.data.clone()).unwrap_or_default();
        if t.to == EAM_ACTOR_ADDR && (t.method == 2 || t.method == 3) {
            let (two, init, salt) = if t.method == 2 {
                let cp: fil_actor_eam::CreateParams = t.params.as_ref().unwrap().deserialize().unwrap();
                (false, cp.initcode, BigUint::zero())
            } else {
                let cp: fil_actor_eam::Create2Params = t.params.as_ref().unwrap().deserialize().unwrap();
                (true, cp.initcode, big(&cp.salt))
            };
            let ok = t.exit_code.is_success();
            let (val, ret) = if ok {
                let r: fil_actor_eam::CreateReturn = t.return_value.as_ref().unwrap().deserialize().unwrap();
                (big(&r.eth_address.0), vec![])
            } else {
                if t.exit_code.value() == 33 {
                    p.skip = Some("unknown-revert-data".into());
                }
                (BigUint::zero(), vec![])
            };
            p.msgs.push(Msg::Create { two, value: tok_big(&t.value), salt, init });
            p.ext.push(ExtRes { ok: true, val, ret });
            i += 1;
        } else if t.method == INVOKE {
            let input = raw_params;
            let ok = t.exit_code.is_success();
            let ret = if ok {
                block_bytes(&t.return_value)
            } else if t.exit_code.value() == 33 {
                if t.to == w.reverter.id {
                    input.clone()
                } else {
                    p.skip = Some("unknown-revert-data".into());
                    vec![]
                }
            } else {
                vec![]
            };
            p.msgs.push(Msg::Call { delegate: false, dst: eth_of(w, &t.to), value: tok_big(&t.value), input });
            p.ext.push(ExtRes { ok: true, val: BigUint::from(ok as u8), ret });
            i += 1;
        } else if t.method == fil_actor_evm::Method::GetBytecode as u64 {
            if i + 1 < subs.len()
                && subs[i + 1].method == fil_actor_evm::Method::InvokeContractDelegate as u64
                && subs[i + 1].to == *me
            {
                let d = &subs[i + 1];
                let dp: Result<DelegateCallParams, _> = d.params.as_ref().unwrap().deserialize();
                let input = dp.map(|x| x.input).unwrap_or_default();
                let ok = d.exit_code.is_success();
                let ret = if ok {
                    block_bytes(&d.return_value)
                } else if d.exit_code.value() == 33 {
                    if t.to == w.reverter.id {
                        input.clone()
                    } else {
                        p.skip = Some("unknown-revert-data".into());
                        vec![]
                    }
                } else {
                    vec![]
                };
                p.msgs.push(Msg::Call { delegate: true, dst: eth_of(w, &t.to), value: BigUint::zero(), input });
                p.ext.push(ExtRes { ok: true, val: BigUint::from(ok as u8), ret });
                i += 2;
            } else {
                i += 1; // EXTCODESIZE / EXTCODECOPY
            }
        } else if t.method == fil_actor_evm::Method::GetBytecodeHash as u64 {
            i += 1; // EXTCODEHASH
        } else if t.method == 0 {
            p.msgs.push(Msg::Selfdestruct { b: eth_of(w, &t.to) });
            p.ext.push(ExtRes { ok: t.exit_code.is_success(), val: BigUint::zero(), ret: vec![] });
            i += 1;
        } else {
            p.skip = Some(format!("unexpected-send-method-{}", t.method));
            i += 1;
        }
    }
    if w.unresolved.get() {
        w.unresolved.set(false);
        p.skip = Some("unresolvable-dst".into());
    }
    p.canon = w.canon.borrow().clone();
    p.canon.sort();
    p.canon.dedup();
    for e in events {
        let mut topics = vec![];
        let mut data = vec![];
        for en in &e.event.entries {
            if en.key == "d" {
                data = en.value.clone();
            } else {
                topics.push(big(&en.value));
            }
        }
        p.logs.push((topics, data));
    }
    p
}

fn coq_ext(e: &ExtRes) -> String {
    format!("Build_ext_res {} {} {}", cf::b(e.ok), zs(&e.val), coq_bytes(&e.ret))
}

fn obs_msgs(o: &mut Vec<String>, p: &Parsed) {
    o.push(p.msgs.len().to_string());
    for m in &p.msgs {
        match m {
            Msg::Call { delegate, dst, value, input } => {
                o.push("1".into());
                o.push((*delegate as u8).to_string());
                o.push(zs(&big(dst)));
                o.push(zs(value));
                obs_bytes(o, input);
            }
            Msg::Create { two, value, salt, init } => {
                o.push("2".into());
                o.push((*two as u8).to_string());
                o.push(zs(value));
                o.push(zs(salt));
                obs_bytes(o, init);
            }
            Msg::Selfdestruct { b } => {
                o.push("3".into());
                o.push(zs(&big(b)));
            }
        }
    }
    o.push(p.logs.len().to_string());
    for (topics, data) in &p.logs {
        o.push("4".into());
        o.push(topics.len().to_string());
        for t in topics {
            o.push(zs(t));
        }
        obs_bytes(o, data);
    }
}
fn obs_map(o: &mut Vec<String>, m: &BTreeMap<BigUint, BigUint>) {
    o.push(m.len().to_string());
    for (k, v) in m {
        o.push(zs(k));
        o.push(zs(v));
    }
}

/// the `call_in` record handed to the model
struct CallIn<'a> {
    calldata: &'a [u8],
    balance: BigUint,
    me: Option<&'a Contract>,
    address: [u8; 20],
    caller: [u8; 20],
    value: u64,
    hashes: Vec<(Vec<u8>, Vec<u8>)>,
    canon: &'a [([u8; 20], [u8; 20])],
    ext: &'a [ExtRes],
}
fn coq_call_in(w: &World, c: &CallIn) -> String {
    let acct_id = w.acct.id().unwrap();
    let extra = match c.me {
        Some(me) => zs(&big(&keccak(&me.code))),
        None => "0".to_string(),
    };
    let mut seen = std::collections::HashSet::new();
    let mut hs = vec![];
    for (pre, dig) in &c.hashes {
        if seen.insert(pre.clone()) {
            hs.push(format!("({}, {})", coq_bytes(pre), zs(&big(dig))));
        }
    }
    format!(
        "(mkci {} {} {} {} {} {} {} {} {} {} {} {} {} {} {})",
        coq_bytes(c.calldata),
        zs(&c.balance),
        zs(&big(&c.address)),
        zs(&big(&eth_from_id(acct_id))),
        zs(&big(&c.caller)),
        c.value,
        zs(&tok_big(&w.v.balance(&w.acct))),
        zs(&big(&w.echo.eth)),
        zs(&big(&w.reverter.eth)),
        zs(&big(&keccak(&w.echo.code))),
        zs(&big(&keccak(&w.reverter.code))),
        cf::list(hs),
        extra,
        cf::list(c.canon.iter().map(|(a, b)| format!("({}, {})", zs(&big(a)), zs(&big(b))))),
        cf::list(c.ext.iter().map(|e| format!("({})", coq_ext(e)))),
    )
}

fn too_big(p: &Parsed, hashes: &[(Vec<u8>, Vec<u8>)], data: &[u8]) -> bool {
    data.len() > MAX_BYTES
        || hashes.iter().any(|(a, _)| a.len() > MAX_BYTES)
        || p.logs.iter().any(|(_, d)| d.len() > MAX_BYTES)
        || p.ext.iter().any(|e| e.ret.len() > MAX_BYTES)
        || p.msgs.iter().any(|m| match m {
            Msg::Call { input, .. } => input.len() > MAX_BYTES,
            Msg::Create { init, .. } => init.len() > MAX_BYTES,
            _ => false,
        })
}

fn reset_hooks() {
    HASH_LOG.with(|l| l.borrow_mut().clear());
    PRECOMPILE_CALLS.with(|c| c.set(0));
}
fn take_hashes() -> Vec<(Vec<u8>, Vec<u8>)> {
    HASH_LOG.with(|l| l.borrow_mut().drain(..).collect())
}

/// snapshot of every actor (for the read-only monitor); the sender's call sequence number is the
/// only thing a top-level message may change
fn snapshot(w: &World) -> Vec<(Address, cid::Cid, cid::Cid, TokenAmount, u64)> {
    w.v.actor_states()
        .into_iter()
        .map(|(a, s)| (a, s.code, s.state, s.balance, if a == w.acct { 0 } else { s.sequence }))
        .collect()
}

fn count_events(t: &InvocationTrace) -> usize {
    t.events.len() + t.subinvocations.iter().map(count_events).sum::<usize>()
}

struct CaseOut {
    case: Option<Case>,
    fails: Vec<serde_json::Value>,
    skip: Option<String>,
    codes: Vec<(String, u32)>,
    panics: Vec<String>,
    max_depth: usize,
    /// per executed op: (kind, exit code or STATICCALL flag, length of the returned / revert data)
    results: Vec<(String, u32, usize, bool)>,
}

const FAIL_PLAN_K: u64 = 60;

/// the interpreter run directly (fil_actor_evm::interpreter::execute) on a hand-built invocation
/// context, to read the final ExecutionState (stack depth, memory size); rolled back afterwards
fn direct_preview(w: &World, c: &Contract, calldata: &[u8], value: u64) -> Option<(u32, Vec<u8>, usize, usize)> {
    let v = &w.v;
    let root = v.checkpoint();
    let acct_id = w.acct.id().unwrap();
    let seq = v.actor(&w.acct).unwrap().sequence;
    // the value transfer the VM performs before invoking the actor
    if value > 0 {
        let mut a = v.actor(&w.acct).unwrap();
        a.balance -= TokenAmount::from_atto(value);
        v.set_actor(&w.acct, a);
        let mut t = v.actor(&c.id).unwrap();
        t.balance += TokenAmount::from_atto(value);
        v.set_actor(&c.id, t);
    }
    let ctx = InvocationCtx {
        v,
        top: TopCtx {
            originator_stable_addr: w.acct,
            originator_call_seq: seq,
            new_actor_addr_count: RefCell::new(0).into(),
            circ_supply: v.circulating_supply(),
        },
        msg: InternalMessage {
            from: acct_id,
            to: c.id,
            value: TokenAmount::from_atto(value),
            method: INVOKE,
            params: None,
        },
        allow_side_effects: RefCell::new(true),
        caller_validated: RefCell::new(true),
        read_only: false,
        policy: &v.policy,
        subinvocations: RefCell::new(vec![]),
        events: RefCell::new(vec![]),
    };
    v.fail_plan.replace(Some((FAIL_PLAN_K, ExitCode::USR_FORBIDDEN)));
    let res = std::panic::catch_unwind(std::panic::AssertUnwindSafe(|| {
        let mut sys = match System::load(&ctx) {
            Ok(s) => s,
            Err(_) => return None,
        };
        let st: EvmState = ctx.state().ok()?;
        let codeb = ctx.store().get(&st.bytecode).ok()??;
        if codeb.is_empty() {
            return None;
        }
        let bc = Bytecode::new(codeb);
        let mut es = ExecutionState::new(
            EthAddress(eth_from_id(acct_id)),
            EthAddress(c.eth),
            TokenAmount::from_atto(value),
            calldata.to_vec(),
        );
        let r = execute(&bc, &mut es, &mut sys);
        let (code, data) = match r {
            Ok(o) => match o.outcome {
                Outcome::Return => (0, o.return_data),
                Outcome::Revert => (33, o.return_data),
            },
            Err(e) => (e.exit_code().value(), vec![]),
        };
        Some((code, data, es.stack.len(), es.memory.len()))
    }));
    v.fail_plan.replace(None);
    cache_ids(w, &ctx.subinvocations.borrow());
    w.unresolved.set(false);
    v.rollback(root);
    match res {
        Ok(x) => x,
        Err(_) => {
            v.panics.borrow_mut().push("panic in direct interpreter run".into());
            None
        }
    }
}

fn run_case(w: &mut World, pc: &PCase) -> CaseOut {
    let mut out = CaseOut { case: None, fails: vec![], skip: None, codes: vec![], panics: vec![], max_depth: 0, results: vec![] };
    let initcode = hex::decode(&pc.initcode).unwrap();
    let acct_id = w.acct.id().unwrap();
    let mut steps: Vec<(String, Vec<String>)> = vec![];
    let mut mon = |out: &mut CaseOut, class: &str, what: String| {
        out.fails.push(serde_json::json!({"class": class, "what": [what], "case": pc}));
    };
    let (mut acc, mut rej) = (false, false);
    w.v.panics.borrow_mut().clear();

    // ---- deploy
    reset_hooks();
    w.v.take_invocations();
    w.v.fail_plan.replace(Some((FAIL_PLAN_K, ExitCode::USR_FORBIDDEN)));
    let r = deploy_raw(&w.v, &w.acct, &initcode, pc.deploy_value);
    w.v.fail_plan.replace(None);
    w.deployed += 1;
    let dcode = code(&r);
    out.codes.push(("deploy".into(), dcode));
    let traces = w.v.take_invocations();
    let root = traces.last().unwrap();
    // locate Init.Exec4 and the constructor invocation
    let exec4 = root.subinvocations.iter().find(|t| t.to == INIT_ACTOR_ADDR && t.method == 3);
    let (ctor, new_eth) = match exec4 {
        Some(e) => {
            let ep: fil_actor_init::Exec4Params = e.params.as_ref().unwrap().deserialize().unwrap();
            let eth: [u8; 20] = ep.subaddress.bytes().try_into().unwrap();
            (e.subinvocations.iter().find(|t| t.method == 1), eth)
        }
        None => (None, [0u8; 20]),
    };
    let ctor = match ctor {
        Some(c) => c,
        None => {
            out.skip = Some("no-constructor-invocation".into());
            return out;
        }
    };
    let parsed = parse_node(w, &ctor.to, &ctor.subinvocations, &ctor.events);
    let hashes = take_hashes();
    if PRECOMPILE_CALLS.with(|c| c.get()) > 0 {
        out.skip = Some("precompile-call".into());
        return out;
    }
    if let Some(s) = &parsed.skip {
        out.skip = Some(s.clone());
        return out;
    }
    let mut contract = Contract { id: Address::new_id(0), eth: new_eth, code: vec![] };
    let ddata = if dcode == 33 { block_bytes(&r.ret) } else { vec![] };
    let mut alive = false;
    let (storage, transient) = if dcode == 0 {
        let ret: fil_actor_eam::CreateExternalReturn = r.ret.as_ref().unwrap().deserialize().unwrap();
        contract.id = Address::new_id(ret.actor_id);
        let st: EvmState = get_state(&w.v, &contract.id).unwrap();
        contract.code = w.v.store.get(&st.bytecode).unwrap().unwrap();
        alive = st.tombstone.is_none();
        read_state(&w.v, &contract.id, acct_id, root_nonce(w) - 1)
    } else {
        (BTreeMap::new(), BTreeMap::new())
    };
    if too_big(&parsed, &hashes, &contract.code) {
        out.skip = Some("huge-byte-string".into());
        return out;
    }
    if ![0u32, 16, 33, 34, 35, 36, 37, 38, 39, 40].contains(&dcode) {
        mon(&mut out, "undefined-exit-code", format!("deploy exit code {}", dcode));
    }
    {
        let ci = CallIn {
            calldata: &[],
            balance: BigUint::from(pc.deploy_value),
            me: None,
            address: new_eth,
            caller: eth_from_id(acct_id),
            value: pc.deploy_value,
            hashes,
            canon: &parsed.canon,
            ext: &parsed.ext,
        };
        let mut o = vec![dcode.to_string()];
        // on success the "data" of the model's outcome is the deployed code
        obs_bytes(&mut o, if dcode == 0 { &contract.code } else { &ddata });
        obs_map(&mut o, &storage);
        obs_map(&mut o, &transient);
        obs_msgs(&mut o, &parsed);
        steps.push((format!("Deploy {} {}", coq_bytes(&initcode), coq_call_in(w, &ci)), o));
        if dcode == 0 { acc = true } else { rej = true }
    }

    // ---- invocations
    if dcode == 0 {
        for inv in &pc.invokes {
            let calldata = hex::decode(&inv.calldata).unwrap();
            let bal_before = tok_big(&w.v.balance(&contract.id));
            if inv.depth == 0 {
                let preview = if alive && !contract.code.is_empty() { direct_preview(w, &contract, &calldata, inv.value) } else { None };
                reset_hooks();
                w.v.take_invocations();
                let nonce = root_nonce(w);
                w.v.fail_plan.replace(Some((FAIL_PLAN_K, ExitCode::USR_FORBIDDEN)));
                let r = w.v
                    .execute_message(&w.acct, &contract.id, &TokenAmount::from_atto(inv.value), INVOKE, IpldBlock::serialize_cbor(&BytesSer(&calldata)).unwrap())
                    .unwrap();
                w.v.fail_plan.replace(None);
                let c = code(&r);
                out.codes.push(("invoke".into(), c));
                let traces = w.v.take_invocations();
                let node = traces.last().unwrap();
                let parsed = parse_node(w, &contract.id, &node.subinvocations, &node.events);
                let hashes = take_hashes();
                if PRECOMPILE_CALLS.with(|c| c.get()) > 0 {
                    out.skip = Some("precompile-call".into());
                    return out;
                }
                if let Some(s) = &parsed.skip {
                    out.skip = Some(s.clone());
                    return out;
                }
                let data = if c == 0 || c == 33 { block_bytes(&r.ret) } else { vec![] };
                if too_big(&parsed, &hashes, &data) {
                    out.skip = Some("huge-byte-string".into());
                    return out;
                }
                if ![0u32, 33, 34, 35, 36, 37, 38, 39, 40].contains(&c) {
                    mon(&mut out, "undefined-exit-code", format!("invoke exit code {}", c));
                }
                let (storage, transient) = read_state(&w.v, &contract.id, acct_id, nonce);
                let transient = if c == 0 { transient } else { BTreeMap::new() };
                let (depth, msize) = match &preview {
                    Some((pcode, pdata, d, m)) => {
                        if *pcode != c || (*pdata != data) {
                            mon(&mut out, "direct-vs-actor", format!("interpreter::execute gave {} / {} bytes, InvokeContract gave {} / {} bytes", pcode, pdata.len(), c, data.len()));
                        }
                        if *d > 1024 {
                            mon(&mut out, "stack-over-1024", format!("stack depth {} at halt", d));
                        }
                        out.max_depth = out.max_depth.max(*d);
                        (*d, if c == 0 || c == 33 { *m } else { 0 })
                    }
                    None => (0, 0),
                };
                let ci = CallIn {
                    calldata: &calldata,
                    balance: bal_before + BigUint::from(inv.value),
                    me: Some(&contract),
                    address: contract.eth,
                    caller: eth_from_id(acct_id),
                    value: inv.value,
                    hashes,
                    canon: &parsed.canon,
            ext: &parsed.ext,
                };
                out.results.push(("invoke".into(), c, data.len(), data.iter().any(|b| *b != 0)));
                let mut o = vec![c.to_string()];
                obs_bytes(&mut o, &data);
                obs_map(&mut o, &storage);
                obs_map(&mut o, &transient);
                obs_msgs(&mut o, &parsed);
                o.push(depth.to_string());
                o.push(msize.to_string());
                steps.push((format!("Invoke {}", coq_call_in(w, &ci)), o));
                if c == 0 { acc = true } else { rej = true }
                if c == 0 {
                    let st: EvmState = get_state(&w.v, &contract.id).unwrap();
                    alive = st.tombstone.is_none();
                }
            } else {
                // beneath a chain of proxies, the outermost one a STATICCALL
                let mut chain: Vec<&Contract> = vec![&w.sproxy];
                for _ in 1..inv.depth {
                    chain.push(if inv.inner_call { &w.cproxy } else { &w.sproxy });
                }
                let mut cd: Vec<u8> = vec![];
                for p in chain.iter().skip(1) {
                    cd.extend_from_slice(&[0u8; 12]);
                    cd.extend_from_slice(&p.eth);
                }
                cd.extend_from_slice(&[0u8; 12]);
                cd.extend_from_slice(&contract.eth);
                cd.extend_from_slice(&calldata);
                let before = snapshot(w);
                reset_hooks();
                w.v.take_invocations();
                w.v.fail_plan.replace(Some((FAIL_PLAN_K, ExitCode::USR_FORBIDDEN)));
                let r = w.v
                    .execute_message(&w.acct, &chain[0].id, &TokenAmount::zero(), INVOKE, IpldBlock::serialize_cbor(&BytesSer(&cd)).unwrap())
                    .unwrap();
                w.v.fail_plan.replace(None);
                let c = code(&r);
                out.codes.push(("static".into(), c));
                let traces = w.v.take_invocations();
                let top = traces.last().unwrap();
                let after = snapshot(w);
                if before != after {
                    mon(&mut out, "readonly-effect", "state tree changed beneath STATICCALL".into());
                }
                if count_events(top) > 0 {
                    mon(&mut out, "readonly-effect", "event emitted beneath STATICCALL".into());
                }
                if c != 0 {
                    mon(&mut out, "proxy-protocol", format!("static proxy exited with {}", c));
                    continue;
                }
                let mut data = block_bytes(&r.ret);
                let mut okp = true;
                for _ in 1..inv.depth {
                    if data.len() < 32 || big(&data[..32]) != BigUint::from(1u8) {
                        okp = false;
                        break;
                    }
                    data = data[32..].to_vec();
                }
                if !okp || data.len() < 32 {
                    mon(&mut out, "proxy-protocol", "malformed proxy answer".into());
                    continue;
                }
                let flag = big(&data[..32]);
                let data = data[32..].to_vec();
                // the target's own invocation node
                let mut node = top;
                let mut found = true;
                for _ in 0..inv.depth {
                    match node.subinvocations.iter().find(|t| t.method == INVOKE) {
                        Some(n) => node = n,
                        None => {
                            found = false;
                            break;
                        }
                    }
                }
                if !found {
                    mon(&mut out, "proxy-protocol", "target invocation not found in the trace".into());
                    continue;
                }
                let parsed = parse_node(w, &contract.id, &node.subinvocations, &node.events);
                let hashes = take_hashes();
                if PRECOMPILE_CALLS.with(|c| c.get()) > 0 {
                    out.skip = Some("precompile-call".into());
                    return out;
                }
                if let Some(s) = &parsed.skip {
                    out.skip = Some(s.clone());
                    return out;
                }
                if too_big(&parsed, &hashes, &data) {
                    out.skip = Some("huge-byte-string".into());
                    return out;
                }
                for m in &parsed.msgs {
                    let bad = match m {
                        Msg::Call { value, .. } => !value.is_zero(),
                        _ => true,
                    };
                    if bad {
                        mon(&mut out, "readonly-effect", "value transfer / create / selfdestruct message sent beneath STATICCALL".into());
                    }
                }
                let ci = CallIn {
                    calldata: &calldata,
                    balance: bal_before,
                    me: Some(&contract),
                    address: contract.eth,
                    caller: chain.last().unwrap().eth,
                    value: 0,
                    hashes,
                    canon: &parsed.canon,
            ext: &parsed.ext,
                };
                out.results.push(("static".into(), if flag.is_zero() { 0 } else { 1 }, data.len(), data.iter().any(|b| *b != 0)));
                let mut o = vec![zs(&flag)];
                obs_bytes(&mut o, &data);
                obs_msgs(&mut o, &parsed);
                steps.push((format!("InvokeStatic {}", coq_call_in(w, &ci)), o));
                if flag.is_zero() { rej = true } else { acc = true }
            }
        }
    }
    for p in w.v.panics.borrow().iter() {
        out.panics.push(p.clone());
    }
    w.v.panics.borrow_mut().clear();
    out.case = Some(Case { init: "cs_init".into(), steps, nontrivial: acc && rej });
    out
}

/// call sequence number (nonce) the account's NEXT top-level message will carry
fn root_nonce(w: &World) -> u64 {
    w.v.actor(&w.acct).unwrap().sequence
}

// ------------------------------------------------------------------------------------------------
// generators
// ------------------------------------------------------------------------------------------------
fn boundary_word(r: &mut Prng) -> BigUint {
    let one = BigUint::from(1u8);
    let w = &one << 256;
    match r.below(22) {
        0 => BigUint::zero(),
        1 => one,
        2 => BigUint::from(2u8),
        3 => BigUint::from(31u8),
        4 => BigUint::from(32u8),
        5 => BigUint::from(255u8),
        6 => BigUint::from(256u16),
        7 => (&one << 64) - &one,
        8 => (&one << 64) + &one,
        9 => &one << 128,
        10 => (&one << 255) - &one,
        11 => &one << 255,
        12 => (&one << 255) + &one,
        13 => &w - BigUint::from(2u8),
        14 => &w - &one,
        15 => BigUint::from(r.below(300)),
        16 => BigUint::from(r.next_u64()),
        17 => &w - BigUint::from(r.below(300) + 1),
        _ => big(&r.bytes(32)),
    }
}

/// memory offsets / sizes: small, up to 1 MiB, or beyond the 32-bit limit (rejections); never
/// between 1 MiB and 4 GiB (the implementation would really allocate it)
fn mem_off(r: &mut Prng, allow_bad: bool) -> BigUint {
    let one = BigUint::from(1u8);
    match r.below(if allow_bad { 24 } else { 18 }) {
        0..=5 => BigUint::from(r.below(4) * 32),
        6..=9 => BigUint::from(r.below(200)),
        10..=12 => BigUint::from(r.below(5000)),
        13 => BigUint::from(1u64 << 16),
        14 => BigUint::from((1u64 << 20) - 32 - r.below(64)),
        15..=17 => BigUint::from(0x4000 + r.below(64)),
        18 => &one << 32,
        19 => (&one << 32) - BigUint::from(r.below(33)),
        20 => &one << 64,
        21 => (&one << 256) - &one,
        22 => (&one << 32) + BigUint::from(r.below(100)),
        _ => big(&r.bytes(32)),
    }
}
fn small_size(r: &mut Prng, allow_bad: bool) -> BigUint {
    let one = BigUint::from(1u8);
    match r.below(if allow_bad { 20 } else { 16 }) {
        0..=2 => BigUint::zero(),
        3..=8 => BigUint::from(r.below(70)),
        9..=12 => BigUint::from(32u8),
        13..=15 => BigUint::from(r.below(300)),
        16 => &one << 32,
        17 => (&one << 32) - &one,
        18 => (&one << 256) - &one,
        _ => &one << 64,
    }
}

/// data-source offsets of the copy instructions / CALLDATALOAD: far beyond any data, many with a SMALL
/// low 64-bit limb (an implementation that truncates the offset would copy real data instead of zeros)
fn src_edge(r: &mut Prng, len_hint: u64) -> BigUint {
    let one = BigUint::from(1u8);
    let p = |k: usize| &one << k;
    match r.below(14) {
        0 => p(32) - &one,
        1 => p(32),
        2 => p(64) - &one,
        3 | 4 => p(64),
        5 => p(64) + BigUint::from(7u8),
        6 => p(64) + BigUint::from(r.below(len_hint.max(1))),
        7 => p(64) + BigUint::from(len_hint),
        8 => p(128) + BigUint::from(r.below(4)),
        9 => p(255) + BigUint::from(r.below(4)),
        10 => p(256) - &one,
        11 => p(192) + BigUint::from(r.below(len_hint.max(1))),
        12 => p(65) + BigUint::from(r.below(8)),
        _ => (BigUint::from(1 + r.below(1000)) << 64) + BigUint::from(r.below(len_hint.max(1))),
    }
}

struct Gen<'a> {
    r: &'a mut Prng,
    a: Asm,
    out: u64, // next free result slot in memory (results are returned at the end)
    echo: [u8; 20],
    reverter: [u8; 20],
    acct: [u8; 20],
    ghost: [u8; 20],
}

const SCRATCH: u64 = 0x3000;

impl<'a> Gen<'a> {
    /// store the top of the stack into the next result slot
    fn store_result(&mut self) {
        let o = self.out;
        self.a.push(o).op(0x52);
        self.out += 32;
    }
    fn arith(&mut self) {
        let bin = [0x01u8, 0x02, 0x03, 0x04, 0x05, 0x06, 0x07, 0x0a, 0x0b, 0x10, 0x11, 0x12, 0x13, 0x14, 0x16, 0x17, 0x18, 0x1a, 0x1b, 0x1c, 0x1d];
        let un = [0x15u8, 0x19, 0x1e];
        let tern = [0x08u8, 0x09];
        let v = boundary_word(self.r);
        self.a.push_big(&v);
        for _ in 0..1 + self.r.below(4) {
            match self.r.below(10) {
                0..=5 => {
                    let v = boundary_word(self.r);
                    self.a.push_big(&v);
                    if self.r.chance(50) {
                        self.a.op(0x90);
                    }
                    let o = *self.r.pick(&bin);
                    self.a.op(o);
                }
                6..=7 => {
                    let o = *self.r.pick(&un);
                    self.a.op(o);
                }
                _ => {
                    let v1 = boundary_word(self.r);
                    let v2 = boundary_word(self.r);
                    self.a.push_big(&v1).push_big(&v2);
                    if self.r.chance(50) {
                        self.a.op(0x91);
                    }
                    let o = *self.r.pick(&tern);
                    self.a.op(o);
                }
            }
        }
        self.store_result();
    }
    fn stackplay(&mut self) {
        let k = 3 + self.r.below(14) as usize;
        for _ in 0..k {
            let v = boundary_word(self.r);
            self.a.push_big(&v);
        }
        let mut depth = k;
        for _ in 0..self.r.below(12) {
            let bad = self.r.chance(2);
            let i = if bad { depth as u64 + 1 + self.r.below(3) } else { 1 + self.r.below(depth.min(16) as u64) };
            if i > 16 {
                continue;
            }
            if self.r.chance(50) {
                self.a.op(0x80 + (i as u8 - 1)); // DUPi
                depth += 1;
            } else if i < depth as u64 || bad {
                self.a.op(0x90 + (i as u8 - 1)); // SWAPi needs i+1 items
            }
        }
        while depth > 1 {
            let o = *self.r.pick(&[0x18u8, 0x01, 0x16, 0x17, 0x03]);
            self.a.op(o);
            depth -= 1;
        }
        self.store_result();
    }
    fn memory(&mut self) {
        for _ in 0..1 + self.r.below(5) {
            let bad = self.r.chance(4);
            match self.r.below(7) {
                0 | 1 => {
                    let v = boundary_word(self.r);
                    let o = mem_off(self.r, bad);
                    self.a.push_big(&v).push_big(&o).op(0x52);
                }
                2 => {
                    let v = boundary_word(self.r);
                    let o = mem_off(self.r, bad);
                    self.a.push_big(&v).push_big(&o).op(0x53);
                }
                3 => {
                    let o = mem_off(self.r, bad);
                    self.a.push_big(&o).op(0x51);
                    self.store_result();
                }
                4 => {
                    self.a.op(0x59);
                    self.store_result();
                }
                _ => {
                    let (s, src, dst) = (small_size(self.r, bad), mem_off(self.r, bad), mem_off(self.r, bad));
                    self.a.push_big(&s).push_big(&src).push_big(&dst).op(0x5e);
                }
            }
        }
    }
    fn storage(&mut self) {
        for _ in 0..1 + self.r.below(5) {
            let k = if self.r.chance(80) { BigUint::from(self.r.below(4)) } else { boundary_word(self.r) };
            let v = if self.r.chance(30) { BigUint::zero() } else { boundary_word(self.r) };
            match self.r.below(6) {
                0 | 1 => {
                    self.a.push_big(&v).push_big(&k).op(0x55);
                }
                2 => {
                    self.a.push_big(&k).op(0x54);
                    self.store_result();
                }
                3 | 4 => {
                    self.a.push_big(&v).push_big(&k).op(0x5d);
                }
                _ => {
                    self.a.push_big(&k).op(0x5c);
                    self.store_result();
                }
            }
        }
    }
    /// counter loop with a stack-neutral body accumulating in scratch memory / storage
    fn looping(&mut self) {
        let n = 1 + self.r.below(24);
        let l = self.a.new_label();
        self.a.push(n);
        self.a.place(l);
        match self.r.below(4) {
            0 => {
                let c = boundary_word(self.r);
                self.a.push(SCRATCH).op(0x51).push_big(&c).op(0x01).push(SCRATCH).op(0x52);
            }
            1 => {
                // storage[1] = storage[1] * 3 + counter
                self.a.op(0x80).push(1).op(0x54).push(3).op(0x02).op(0x01).push(1).op(0x55);
            }
            2 => {
                // mem[scratch + 32*counter] = keccak(scratch, 64)
                self.a.push(64).push(SCRATCH).op(0x20).op(0x81).push(32).op(0x02).push(SCRATCH).op(0x01).op(0x52);
            }
            _ => {
                self.a.op(0x80).push(7).op(0x5c).op(0x01).push(7).op(0x5d); // t[7] += counter
            }
        }
        self.a.push(1).op(0x90).op(0x03).op(0x80).push_label(l).op(0x57).op(0x50);
        self.a.push(SCRATCH).op(0x51);
        self.store_result();
    }
    fn jumps(&mut self) {
        match self.r.below(7) {
            0 | 1 => {
                // forward jump over garbage that contains a JUMPDEST byte inside push data
                let l = self.a.new_label();
                self.a.push_label(l).op(0x56);
                let g = self.r.below(6);
                for _ in 0..g {
                    let b = self.r.next_u64() as u8;
                    self.a.op(b);
                }
                self.a.ops(&[0x62, 0x5b, 0x5b, 0x5b]);
                self.a.place(l);
            }
            2 => {
                // conditional on call data
                let l = self.a.new_label();
                let idx = self.r.below(40);
                self.a.push(idx).op(0x35).push(1).op(0x16).push_label(l).op(0x57);
                let v = boundary_word(self.r);
                self.a.push_big(&v);
                self.store_result();
                self.a.place(l);
            }
            3 => {
                // jump into push data holding 0x5b: must be rejected
                let here = self.a.here();
                // layout: PUSH2 target JUMP PUSH2 5b5b JUMPDEST ; target = position of the first 0x5b data byte
                let target = here + 3 + 1 + 1;
                self.a.push_raw(&[(target >> 8) as u8, target as u8]).op(0x56).ops(&[0x61, 0x5b, 0x5b]).op(0x5b);
            }
            4 => {
                // computed destination
                let l = self.a.new_label();
                let d = self.r.below(5);
                self.a.push_label(l).push(d).op(0x90).op(0x03).push(d).op(0x01).op(0x56);
                self.a.op(0xfe);
                self.a.place(l);
            }
            5 => {
                // out-of-range / huge destinations
                let v = if self.r.chance(50) { boundary_word(self.r) } else { BigUint::from(self.a.here() as u64 + 5000) };
                let c = BigUint::from(self.r.below(2));
                self.a.push_big(&c).push_big(&v).op(0x57);
            }
            _ => {
                // PC and a jump to a non-JUMPDEST boundary
                self.a.op(0x58);
                self.store_result();
                if self.r.chance(30) {
                    let t = self.a.here() as u64 + 4;
                    self.a.push_raw(&[(t >> 8) as u8, t as u8]).op(0x56).op(0x00);
                }
            }
        }
    }
    fn copies(&mut self) {
        let bad = self.r.chance(5);
        match self.r.below(6) {
            0 => {
                let i = match self.r.below(10) {
                    0..=4 => BigUint::from(self.r.below(120)),
                    5..=8 => src_edge(self.r, 40),
                    _ => boundary_word(self.r),
                };
                self.a.push_big(&i).op(0x35);
                self.store_result();
            }
            1 => {
                let o = *self.r.pick(&[0x36u8, 0x38, 0x3d]);
                self.a.op(o);
                self.store_result();
            }
            2 | 3 => {
                let src = match self.r.below(10) {
                    0..=4 => BigUint::from(self.r.below(150)),
                    5..=8 => src_edge(self.r, 40),
                    _ => boundary_word(self.r),
                };
                let (s, dst) = (small_size(self.r, bad), mem_off(self.r, bad));
                let o = *self.r.pick(&[0x37u8, 0x39]);
                self.a.push_big(&s).push_big(&src).push_big(&dst).op(o);
            }
            _ => {
                // RETURNDATACOPY: after a call to the echo contract the buffer holds our input
                let n = self.r.below(80);
                self.call_to(self.echo, 0xf1, n);
                let s = if self.r.chance(85) { BigUint::from(self.r.below(n + 1)) } else { BigUint::from(n + 1 + self.r.below(40)) };
                let src = if self.r.chance(85) { BigUint::from(self.r.below(8)) } else { boundary_word(self.r) };
                let dst = mem_off(self.r, false);
                self.a.push_big(&s).push_big(&src).push_big(&dst).op(0x3e);
                self.a.op(0x3d);
                self.store_result();
            }
        }
    }
    /// copy 32 bytes from a far-away source offset over a non-zero sentinel and return what is there:
    /// the specification says zeros
    fn far_copy(&mut self) {
        let dst = SCRATCH + 0x600 + 32 * self.r.below(4);
        let sentinel = big(&self.r.bytes(32));
        self.a.push_big(&sentinel).push(dst).op(0x52);
        let src = src_edge(self.r, 40);
        let n = 1 + self.r.below(32);
        match self.r.below(4) {
            0 => { self.a.push(n).push_big(&src).push(dst).op(0x37); }
            1 => { self.a.push(n).push_big(&src).push(dst).op(0x39); }
            2 => {
                self.a.push(n).push_big(&src).push(dst);
                if self.r.chance(50) { let e = self.echo; self.a.push_be(&e); } else { self.a.op(0x30); }
                self.a.op(0x3c);
            }
            _ => {
                self.a.push_big(&src).op(0x35).push(dst).op(0x52);
            }
        }
        self.a.push(dst).op(0x51);
        self.store_result();
    }
    fn keccak(&mut self) {
        let bad = self.r.chance(4);
        let (s, o) = (small_size(self.r, bad), mem_off(self.r, bad));
        self.a.push_big(&s).push_big(&o).op(0x20);
        self.store_result();
    }
    fn context(&mut self) {
        match self.r.below(8) {
            0..=3 => {
                let o = *self.r.pick(&[0x30u8, 0x32, 0x33, 0x34, 0x3a, 0x41, 0x42, 0x43, 0x44, 0x45, 0x46, 0x47, 0x48, 0x5a]);
                self.a.op(o);
                self.store_result();
            }
            4 | 5 => {
                let o = *self.r.pick(&[0x31u8, 0x3b, 0x3f]);
                match self.r.below(6) {
                    0 => { self.a.op(0x30); }
                    1 => { let e = self.echo; self.a.push_be(&e); }
                    2 => { let e = self.acct; self.a.push_be(&e); }
                    3 => { self.a.push_be(&eth_from_id(1)); }
                    4 => { let v = big(&self.r.bytes(20)); self.a.push_big(&v); }
                    _ => { self.a.op(0x33); }
                }
                self.a.op(o);
                self.store_result();
            }
            6 => {
                let h = match self.r.below(5) {
                    0 => EPOCH as u64 - 1,
                    1 => EPOCH as u64 - 256,
                    2 => EPOCH as u64 - 257,
                    3 => EPOCH as u64,
                    _ => self.r.below(300),
                };
                self.a.push(h).op(0x40);
                self.store_result();
            }
            _ => {
                let bad = self.r.chance(4);
                let src = if self.r.chance(55) { BigUint::from(self.r.below(12)) } else { src_edge(self.r, 7) };
                let (s, dst) = (small_size(self.r, bad), mem_off(self.r, bad));
                self.a.push_big(&s).push_big(&src).push_big(&dst);
                if self.r.chance(50) { let e = self.echo; self.a.push_be(&e); } else { self.a.push_be(&eth_from_id(1)); }
                self.a.op(0x3c);
            }
        }
    }
    fn logs(&mut self) {
        let n = self.r.below(5) as u8;
        for _ in 0..n {
            let v = boundary_word(self.r);
            self.a.push_big(&v);
        }
        let bad = self.r.chance(3);
        let (s, o) = (small_size(self.r, bad), mem_off(self.r, bad));
        self.a.push_big(&s).push_big(&o).op(0xa0 + n);
    }
    /// call `dst` with `n` bytes of input taken from memory offset 0, output to scratch
    fn call_to(&mut self, dst: [u8; 20], opc: u8, n: u64) {
        let osz = self.r.below(48);
        self.a.push(osz).push(SCRATCH + 0x400).push(n).push(0);
        if opc == 0xf1 {
            self.a.push(0);
        }
        self.a.push_be(&dst).op(0x5a).op(opc);
    }
    fn calls(&mut self) {
        let opc = *self.r.pick(&[0xf1u8, 0xfa, 0xf4, 0xf1]);
        let dst = match self.r.below(8) {
            0..=2 => self.echo,
            3 | 4 => self.reverter,
            5 => self.acct,
            6 => self.ghost,
            _ => {
                if self.r.chance(85) {
                    self.ghost
                } else {
                    // a non-existent address: the VM's trace does not keep it when the call fails, and
                    // the case is then dropped
                    let mut x: [u8; 20] = self.r.bytes(20).try_into().unwrap();
                    x[0] = 0x77;
                    x
                }
            }
        };
        let n = self.r.below(70);
        self.call_to(dst, opc, n);
        self.store_result();
        self.a.op(0x3d);
        self.store_result();
        self.a.push(SCRATCH + 0x400).op(0x51);
        self.store_result();
    }
    fn create(&mut self) {
        // init code: return a 1-byte runtime (STOP): 60 00 5f 53 60 01 5f f3 ; or a reverting / invalid one
        let init: Vec<u8> = match self.r.below(5) {
            0..=2 => vec![0x60, 0x00, 0x5f, 0x53, 0x60, 0x01, 0x5f, 0xf3],
            3 => vec![0xfe],
            _ => vec![],
        };
        if !init.is_empty() {
            self.a.push_raw(&init).push(SCRATCH + 0x800).op(0x52);
        }
        let off = SCRATCH + 0x800 + 32 - init.len() as u64;
        if self.r.chance(50) {
            self.a.push(init.len() as u64).push(off).push(0).op(0xf0);
        } else {
            let salt = self.r.below(1000);
            self.a.push(salt).push(init.len() as u64).push(off).push(0).op(0xf5);
        }
        self.a.push(0).op(0x14).op(0x15); // address != 0 (the address itself is hash-derived: not returned)
        self.store_result();
    }
}

fn gen_grammar(r: &mut Prng, w: &World) -> Vec<u8> {
    let mut g = Gen { r, a: Asm::default(), out: 0, echo: w.echo.eth, reverter: w.reverter.eth, acct: eth_from_id(w.acct.id().unwrap()), ghost: w.ghost };
    let n = 2 + g.r.below(9);
    for _ in 0..n {
        match g.r.below(100) {
            0..=17 => g.arith(),
            18..=27 => g.stackplay(),
            28..=41 => g.memory(),
            42..=53 => g.storage(),
            54..=61 => g.looping(),
            62..=71 => g.jumps(),
            72..=76 => g.copies(),
            77..=79 => g.far_copy(),
            80..=84 => g.keccak(),
            85..=89 => g.context(),
            90..=92 => g.logs(),
            93..=97 => g.calls(),
            _ => g.create(),
        }
    }
    let out = g.out;
    match g.r.below(20) {
        0..=13 => {
            g.a.push(out).push(0).op(0xf3);
        }
        14..=16 => {
            g.a.push(out).push(0).op(0xfd);
        }
        17 => {
            g.a.op(0x00);
        }
        18 => {}
        _ => {
            let b = g.acct;
            g.a.push_be(&b).op(0xff);
        }
    }
    g.a.finish()
}

fn gen_random_bytes(r: &mut Prng) -> Vec<u8> {
    let n = match r.below(10) {
        0 => r.below(4) as usize,
        1..=5 => r.below(64) as usize,
        _ => r.below(257) as usize,
    };
    match r.below(3) {
        0 => r.bytes(n),
        1 => {
            // biased towards pushes and cheap stack-building instructions so that execution gets further
            (0..n)
                .map(|_| match r.below(10) {
                    0..=2 => 0x5f + r.below(4) as u8,
                    3 => 0x80 + r.below(4) as u8,
                    4 => *r.pick(&[0x30u8, 0x33, 0x36, 0x38, 0x3d, 0x58, 0x59, 0x5a]),
                    _ => r.next_u64() as u8,
                })
                .collect()
        }
        _ => {
            // only defined opcodes
            let defined: Vec<u8> = (0u16..256).map(|b| b as u8).filter(|b| delta_of(*b).is_some()).collect();
            (0..n).map(|_| if r.chance(35) { 0x5f + r.below(3) as u8 } else { *r.pick(&defined) }).collect()
        }
    }
}

/// (pops, pushes) of each defined opcode -- used ONLY to choose informative tails for the
/// stack-edge programs and to bias the random generator; never to decide a verdict
fn delta_of(b: u8) -> Option<(usize, usize)> {
    Some(match b {
        0x00 => (0, 0),
        0x01..=0x07 | 0x0a | 0x0b | 0x10..=0x14 | 0x16..=0x18 | 0x1a..=0x1d => (2, 1),
        0x08 | 0x09 => (3, 1),
        0x15 | 0x19 | 0x1e => (1, 1),
        0x20 => (2, 1),
        0x30 | 0x32..=0x34 | 0x36 | 0x38 | 0x3a | 0x3d | 0x41..=0x48 | 0x58..=0x5a => (0, 1),
        0x31 | 0x35 | 0x3b | 0x3f | 0x40 | 0x51 | 0x54 | 0x5c => (1, 1),
        0x37 | 0x39 | 0x3e | 0x5e => (3, 0),
        0x3c => (4, 0),
        0x50 => (1, 0),
        0x52 | 0x53 | 0x55 | 0x5d => (2, 0),
        0x56 => (1, 0),
        0x57 => (2, 0),
        0x5b => (0, 0),
        0x5f..=0x7f => (0, 1),
        0x80..=0x8f => ((b - 0x7f) as usize, (b - 0x7f) as usize + 1),
        0x90..=0x9f => ((b - 0x8e) as usize, (b - 0x8e) as usize),
        0xa0..=0xa4 => ((b - 0xa0) as usize + 2, 0),
        0xf0 => (3, 1),
        0xf1 => (7, 1),
        0xf3 | 0xfd => (2, 0),
        0xf4 | 0xfa => (6, 1),
        0xf5 => (4, 1),
        0xfe => (0, 0),
        0xff => (1, 0),
        _ => return None,
    })
}

fn mutate(r: &mut Prng, base: &[u8]) -> Vec<u8> {
    let mut c = base.to_vec();
    if c.is_empty() {
        return c;
    }
    match r.below(4) {
        0 => {
            for _ in 0..1 + r.below(3) {
                let i = r.below(c.len() as u64) as usize;
                c[i] ^= 1 << r.below(8);
            }
        }
        1 => {
            let k = r.below(c.len() as u64 + 1) as usize;
            c.truncate(k);
        }
        2 => {
            for _ in 0..1 + r.below(2) {
                let i = r.below(c.len() as u64) as usize;
                c[i] = r.next_u64() as u8;
            }
        }
        _ => {
            let i = r.below(c.len() as u64) as usize;
            c.insert(i, r.next_u64() as u8);
        }
    }
    c
}

/// fill the stack to `fill` copies of `v`, execute `opbyte`, then `tail` PUSH0s
fn stack_edge(fill: usize, v: &BigUint, opbyte: u8, tail: usize) -> Vec<u8> {
    let mut a = Asm::default();
    if fill > 0 {
        a.push_big(v);
        for _ in 1..fill {
            a.op(0x80);
        }
    }
    a.op(opbyte);
    for _ in 0..tail {
        a.op(0x5f);
    }
    a.op(0x00);
    a.finish()
}

fn rand_calldata(r: &mut Prng) -> Vec<u8> {
    let n = match r.below(10) {
        0 => 0,
        1 | 2 => r.below(8) as usize,
        _ => 8 + r.below(92) as usize,
    };
    // no zero bytes: a copy of real data where zeros are due is then always visible
    r.bytes(n).into_iter().map(|b| if b == 0 { 0xa5 } else { b }).collect()
}

fn static_inv(r: &mut Prng, calldata: &[u8]) -> Inv {
    Inv { calldata: hex::encode(calldata), value: 0, depth: 1 + r.below(3) as u8, inner_call: r.chance(50) }
}

/// the k-th case of this run
fn gen_case(r: &mut Prng, w: &World, k: usize, edge_plan: &[(usize, u8, u8, usize)]) -> PCase {
    let sel = k % 10;
    let cd = rand_calldata(r);
    let mut invokes = vec![];
    let (genr, initcode, as_init): (&str, Vec<u8>, bool) = if k < edge_plan.len() {
        let (fill, vsel, opb, tail) = edge_plan[k];
        let v = match vsel {
            0 => BigUint::zero(),
            1 => (BigUint::from(1u8) << 256) - BigUint::from(1u8),
            _ => BigUint::from(3u8),
        };
        ("stack-edge", stack_edge(fill, &v, opb, tail), false)
    } else {
        match sel {
            0..=3 => ("random", gen_random_bytes(r), r.chance(25)),
            4..=6 => ("grammar", gen_grammar(r, w), false),
            _ => {
                let base = gen_grammar(r, w);
                ("mutated", mutate(r, &base), r.chance(10))
            }
        }
    };
    if !as_init {
        if genr == "stack-edge" {
            invokes.push(Inv { calldata: hex::encode(&cd), value: 0, depth: 0, inner_call: false });
            if k % 3 == 0 {
                invokes.push(Inv { calldata: hex::encode(&cd), value: 0, depth: 1, inner_call: false });
            }
        } else {
            if r.chance(35) {
                invokes.push(static_inv(r, &cd));
            }
            invokes.push(Inv { calldata: hex::encode(&cd), value: if r.chance(10) { r.below(1000) } else { 0 }, depth: 0, inner_call: false });
            if r.chance(40) {
                let cd2 = rand_calldata(r);
                if r.chance(50) {
                    invokes.push(static_inv(r, &cd2));
                }
                invokes.push(Inv { calldata: hex::encode(&cd2), value: 0, depth: 0, inner_call: false });
            }
        }
    }
    let initcode = if as_init { initcode } else { wrap_initcode(&initcode) };
    PCase { genr: if as_init { format!("{}-as-initcode", genr) } else { genr.to_string() }, initcode: hex::encode(initcode), deploy_value: if r.chance(8) { r.below(1000) } else { 0 }, invokes }
}

/// stack-edge plan: (fill, value selector, opcode byte, number of trailing PUSH0)
fn edge_plan(thorough: bool) -> Vec<(usize, u8, u8, usize)> {
    let mut p = vec![];
    let fills: &[usize] = if thorough { &[1024, 1023, 1022, 1017] } else { &[1024, 1023] };
    for &fill in fills {
        for b in 0u16..256 {
            let b = b as u8;
            let vs: &[u8] = if thorough { &[0, 1, 2] } else if fill == 1024 { &[0, 1] } else { &[0] };
            for &vsel in vs {
                let mut tails = vec![0usize];
                if let Some((pops, pushes)) = delta_of(b) {
                    if fill >= pops {
                        let d = fill - pops + pushes;
                        if d <= 1024 {
                            let gap = 1024 - d;
                            if gap > 0 && vsel == 0 {
                                tails.push(gap);
                            }
                            if vsel == 0 {
                                tails.push(gap + 1);
                            }
                        }
                    }
                }
                for t in tails {
                    p.push((fill, vsel, b, t));
                }
            }
        }
    }
    p
}

// ------------------------------------------------------------------------------------------------
// worker processes (each owns a world) + watchdog.  The harness VM has no gas, so a generated
// program with an unbounded loop never returns: the parent kills the worker after a timeout, drops
// the case (counted) and continues with a fresh worker.
// ------------------------------------------------------------------------------------------------
#[derive(Serialize, Deserialize)]
enum Job {
    Gen { k: usize, seed: u64 },
    Replay(PCase),
}
#[derive(Serialize, Deserialize)]
struct JobOut {
    pcase: PCase,
    case: Option<(String, Vec<(String, Vec<String>)>, bool)>,
    fails: Vec<serde_json::Value>,
    skip: Option<String>,
    codes: Vec<(String, u32)>,
    panics: Vec<String>,
    max_depth: usize,
    results: Vec<(String, u32, usize, bool)>,
}

/// fixed programs whose outcome is dictated by the property itself (independent of the model):
/// (name, runtime code, beneath STATICCALL?, monitor class when the expectation fails)
fn probes() -> Vec<(&'static str, Vec<u8>, bool, &'static str)> {
    let mut v: Vec<(&'static str, Vec<u8>, bool, &'static str)> = vec![
        ("jump-into-push1-data", vec![0x60, 0x04, 0x56, 0x60, 0x5b, 0x00], false, "bad-jumpdest-accepted"),
        ("jump-into-push2-data", vec![0x61, 0x00, 0x06, 0x56, 0x61, 0x5b, 0x5b, 0x00], false, "bad-jumpdest-accepted"),
        ("jumpi-into-push32-data", {
            let mut c = vec![0x60, 0x01, 0x60, 0x10, 0x57, 0x7f];
            c.extend_from_slice(&[0x5b; 32]);
            c.push(0x00);
            c
        }, false, "bad-jumpdest-accepted"),
        ("static-sstore", vec![0x60, 0x01, 0x60, 0x01, 0x55, 0x60, 0x20, 0x5f, 0xfd], true, "readonly-effect"),
        ("static-tstore", vec![0x60, 0x01, 0x60, 0x01, 0x5d, 0x60, 0x20, 0x5f, 0xfd], true, "readonly-effect"),
        ("static-log0", vec![0x5f, 0x5f, 0xa0, 0x60, 0x20, 0x5f, 0xfd], true, "readonly-effect"),
        ("static-log2", vec![0x5f, 0x5f, 0x5f, 0x5f, 0xa2, 0x60, 0x20, 0x5f, 0xfd], true, "readonly-effect"),
        ("static-create", vec![0x5f, 0x5f, 0x5f, 0xf0, 0x60, 0x20, 0x5f, 0xfd], true, "readonly-effect"),
        ("static-create2", vec![0x5f, 0x5f, 0x5f, 0x5f, 0xf5, 0x60, 0x20, 0x5f, 0xfd], true, "readonly-effect"),
        ("static-selfdestruct", vec![0x5f, 0xff], true, "readonly-effect"),
        ("static-call-with-value", vec![0x5f, 0x5f, 0x5f, 0x5f, 0x60, 0x01, 0x5f, 0x5a, 0xf1, 0x60, 0x20, 0x5f, 0xfd], true, "readonly-effect"),
    ];
    // copies from a source offset >= 2^64 whose low limb is small: the specification says zero fill
    v.push(("calldatacopy-src-2^64", vec![0x60, 0x20, 0x68, 1, 0, 0, 0, 0, 0, 0, 0, 0, 0x5f, 0x37, 0x60, 0x20, 0x5f, 0xf3], false, "copy-source-truncated"));
    v.push(("codecopy-src-2^64+1", vec![0x60, 0x20, 0x68, 1, 0, 0, 0, 0, 0, 0, 0, 1, 0x5f, 0x39, 0x60, 0x20, 0x5f, 0xf3], false, "copy-source-truncated"));
    v.push(("extcodecopy-src-2^128", {
        let mut c = vec![0x60, 0x20, 0x70, 1];
        c.extend_from_slice(&[0u8; 16]);
        c.extend_from_slice(&[0x5f, 0x30, 0x3c, 0x60, 0x20, 0x5f, 0xf3]);
        c
    }, false, "copy-source-truncated"));
    v.push(("calldataload-2^64+3", vec![0x68, 1, 0, 0, 0, 0, 0, 0, 0, 3, 0x35, 0x5f, 0x52, 0x60, 0x20, 0x5f, 0xf3], false, "copy-source-truncated"));
    let zero = BigUint::zero();
    v.push(("push-at-1024", stack_edge(1024, &zero, 0x5f, 0), false, "stack-over-1024"));
    v.push(("address-at-1024", stack_edge(1024, &zero, 0x30, 0), false, "stack-over-1024"));
    v.push(("pc-at-1024", stack_edge(1024, &zero, 0x58, 0), false, "stack-over-1024"));
    v.push(("dup-at-1024", stack_edge(1024, &zero, 0x80, 0), false, "stack-over-1024"));
    v
}
fn probe_case(name: &str, runtime: &[u8], stat: bool) -> PCase {
    PCase {
        genr: format!("probe:{}", name),
        initcode: hex::encode(wrap_initcode(runtime)),
        deploy_value: 0,
        invokes: vec![Inv { calldata: hex::encode([0x11u8; 48]), value: 0, depth: if stat { 1 } else { 0 }, inner_call: false }],
    }
}
/// the property's own verdict on a probe
fn probe_verdict(jo: &JobOut) -> Option<(String, String)> {
    let name = jo.pcase.genr.strip_prefix("probe:")?;
    let (_, _, _, class) = probes().into_iter().find(|p| p.0 == name)?;
    let r = jo.results.last()?;
    let ok = match class {
        "bad-jumpdest-accepted" => r.1 == 39,
        "stack-over-1024" => r.1 == 37 && jo.max_depth <= 1024,
        "copy-source-truncated" => r.1 == 0 && r.2 == 32 && !r.3,
        _ => r.1 == 0 && r.2 == 0, // beneath STATICCALL: the callee must fail without data
    };
    if ok { None } else { Some((class.to_string(), format!("probe {}: got {} / {} bytes / depth {}", name, r.1, r.2, jo.max_depth))) }
}

fn worker_main(thorough: bool) {
    use std::io::{BufRead, Write};
    let plan = edge_plan(thorough);
    let mut w = new_evm_world();
    let stdin = std::io::stdin();
    let stdout = std::io::stdout();
    for line in stdin.lock().lines() {
        let line = line.unwrap();
        if line.trim().is_empty() {
            continue;
        }
        let job: Job = serde_json::from_str(&line).unwrap();
        if w.deployed > 400 {
            w = new_evm_world();
        }
        let pcase = match job {
            Job::Gen { k, seed } => {
                let mut r = Prng::new(seed).fork(k as u64);
                gen_case(&mut r, &w, k, &plan)
            }
            Job::Replay(p) => p,
        };
        let out = run_case(&mut w, &pcase);
        let jo = JobOut {
            pcase,
            case: out.case.map(|c| (c.init, c.steps, c.nontrivial)),
            fails: out.fails,
            skip: out.skip,
            codes: out.codes,
            panics: out.panics,
            max_depth: out.max_depth,
            results: out.results,
        };
        let mut o = stdout.lock();
        writeln!(o, "{}", serde_json::to_string(&jo).unwrap()).unwrap();
        o.flush().unwrap();
    }
}

struct Worker {
    child: std::process::Child,
    stdin: std::process::ChildStdin,
    rx: mpsc::Receiver<String>,
}
fn spawn_worker(thorough: bool) -> Worker {
    use std::io::BufRead;
    use std::process::{Command, Stdio};
    let mut child = Command::new(std::env::current_exe().unwrap())
        .args(["--worker", "1", "--thorough", if thorough { "1" } else { "0" }])
        .stdin(Stdio::piped())
        .stdout(Stdio::piped())
        .stderr(Stdio::null())
        .spawn()
        .unwrap();
    let stdin = child.stdin.take().unwrap();
    let stdout = child.stdout.take().unwrap();
    let (tx, rx) = mpsc::channel::<String>();
    std::thread::spawn(move || {
        let rd = std::io::BufReader::new(stdout);
        for l in rd.lines() {
            match l {
                Ok(l) => {
                    if tx.send(l).is_err() {
                        break;
                    }
                }
                Err(_) => break,
            }
        }
    });
    Worker { child, stdin, rx }
}

/// runs the jobs of one lane in order; returns (k, result or the reason it was dropped)
fn run_lane(jobs: Vec<(usize, Job)>, thorough: bool, timeout: u64) -> Vec<(usize, Result<JobOut, String>)> {
    use std::io::Write;
    let mut res = vec![];
    let mut w = spawn_worker(thorough);
    for (idx, job) in jobs {
        let line = serde_json::to_string(&job).unwrap();
        let sent = writeln!(w.stdin, "{}", line).and_then(|_| w.stdin.flush());
        let got = if sent.is_ok() { w.rx.recv_timeout(Duration::from_secs(timeout)) } else { Err(mpsc::RecvTimeoutError::Disconnected) };
        match got {
            Ok(l) => res.push((idx, Ok(serde_json::from_str::<JobOut>(&l).unwrap()))),
            Err(e) => {
                let why = match e {
                    mpsc::RecvTimeoutError::Timeout => "timeout",
                    mpsc::RecvTimeoutError::Disconnected => "worker-died",
                };
                let _ = w.child.kill();
                let _ = w.child.wait();
                res.push((idx, Err(why.to_string())));
                w = spawn_worker(thorough);
            }
        }
    }
    let _ = w.child.kill();
    let _ = w.child.wait();
    res
}

fn main() {
    let a = cf::parse_args();
    let _ = log::set_logger(&LOGGER);
    log::set_max_level(log::LevelFilter::Info);
    let thorough = a.rest.get("thorough").map(|x| x == "1").unwrap_or(false);
    if a.rest.contains_key("worker") {
        std::panic::set_hook(Box::new(|_| {}));
        std::thread::Builder::new().stack_size(1 << 30).spawn(move || worker_main(thorough)).unwrap().join().unwrap();
        return;
    }
    let mut stats = Stats::default();
    let header = "From VF Require Import Model.EvmMachine Base.Corr.\nFrom Coq Require Import ZArith List.\nImport ListNotations.\nOpen Scope Z_scope.\n";
    let mut cw = CaseWriter::new(&a.out, header, "check_case", a.shards);
    let mut jobs: Vec<Job> = vec![];
    if let Some(p) = &a.replay {
        let v: serde_json::Value = serde_json::from_str(&std::fs::read_to_string(p).unwrap()).unwrap();
        let pc: PCase = serde_json::from_value(if v.get("case").is_some() { v["case"].clone() } else { v["violation"]["detail"]["case"].clone() }).unwrap();
        jobs.push(Job::Replay(pc));
    } else {
        let corpus = std::path::Path::new(env!("CARGO_MANIFEST_DIR")).join("../corpus/C18");
        if let Ok(rd) = std::fs::read_dir(&corpus) {
            let mut files: Vec<_> = rd.filter_map(|e| e.ok()).map(|e| e.path()).collect();
            files.sort();
            for f in files {
                if f.extension().map(|x| x == "json").unwrap_or(false) {
                    let v: serde_json::Value = serde_json::from_str(&std::fs::read_to_string(&f).unwrap()).unwrap();
                    jobs.push(Job::Replay(serde_json::from_value(v["case"].clone()).unwrap()));
                }
            }
        }
        for (name, runtime, stat, _) in probes() {
            jobs.push(Job::Replay(probe_case(name, &runtime, stat)));
        }
        let n_edge = edge_plan(thorough).len();
        let mode = a.rest.get("mode").cloned().unwrap_or_default();
        if mode == "edge" {
            for k in 0..n_edge.min(a.cases) {
                jobs.push(Job::Gen { k, seed: a.seed });
            }
        } else {
            let start = if mode == "noedge" { n_edge } else { 0 };
            let n = if mode == "noedge" { a.cases } else { n_edge + a.cases };
            for k in start..start + n {
                jobs.push(Job::Gen { k, seed: a.seed });
            }
        }
    }
    // static assignment of jobs to lanes: the outcome does not depend on scheduling
    let lanes: usize = a.rest.get("lanes").and_then(|x| x.parse().ok()).unwrap_or(8);
    let timeout: u64 = a.rest.get("timeout").and_then(|x| x.parse().ok()).unwrap_or(10);
    let mut per: Vec<Vec<(usize, Job)>> = (0..lanes).map(|_| vec![]).collect();
    for (i, j) in jobs.into_iter().enumerate() {
        per[i % lanes].push((i, j));
    }
    let handles: Vec<_> = per.into_iter().map(|js| std::thread::spawn(move || run_lane(js, thorough, timeout))).collect();
    let mut all: Vec<(usize, Result<JobOut, String>)> = vec![];
    for h in handles {
        all.extend(h.join().unwrap());
    }
    all.sort_by_key(|x| x.0);
    let mut skips: BTreeMap<String, u64> = BTreeMap::new();
    let mut gens: BTreeMap<String, u64> = BTreeMap::new();
    let mut max_depth = 0usize;
    for (idx, r) in all {
        match r {
            Ok(jo) => {
                *gens.entry(jo.pcase.genr.clone()).or_insert(0) += 1;
                for (kind, c) in &jo.codes {
                    stats.op(kind, *c);
                }
                for p in &jo.panics {
                    stats.panics.push(p.clone());
                    stats.monitor_fail(serde_json::json!({"class": "panic", "what": [p], "case": jo.pcase}));
                }
                max_depth = max_depth.max(jo.max_depth);
                if let Some((class, what)) = probe_verdict(&jo) {
                    stats.monitor_fail(serde_json::json!({"class": class, "what": [what], "case": jo.pcase}));
                }
                for f in jo.fails {
                    stats.monitor_fail(f);
                }
                match (jo.skip, jo.case) {
                    (Some(s), _) => *skips.entry(format!("{}/{}", s, jo.pcase.genr.split(':').next().unwrap_or(""))).or_insert(0) += 1,
                    (None, Some((init, steps, nontrivial))) => cw.push(Case { init, steps, nontrivial }),
                    _ => {}
                }
            }
            Err(why) => {
                *skips.entry(why.clone()).or_insert(0) += 1;
                if why == "worker-died" {
                    stats.monitor_fail(serde_json::json!({"class": "panic", "what": [format!("worker process died on job {}", idx)]}));
                }
            }
        }
    }
    stats.extra.insert("skipped".into(), serde_json::json!(skips));
    stats.extra.insert("generators".into(), serde_json::json!(gens));
    stats.extra.insert("max_stack_depth_at_halt".into(), serde_json::json!(max_depth));
    cw.finish(&stats, "evm_prog");
}
