//! C16 correspondence + monitor harness: the real payment-channel actor (with the real init and
//! account actors) on the harness VM against coq/Model/Paych.v.
use fil_actor_paych::{
    ConstructorParams, Merge, Method, ModVerifyParams, SignedVoucher, State as PState,
    UpdateChannelStateParams, LaneState, MAX_LANE, SETTLE_DELAY,
};
use fil_actors_runtime::runtime::Primitives;
use fil_actors_runtime::test_utils::PAYCH_ACTOR_CODE_ID;
use fil_actors_runtime::{Array, INIT_ACTOR_ADDR};
use fvm_ipld_encoding::RawBytes;
use fvm_shared::address::Address;
use fvm_shared::crypto::signature::Signature;
use fvm_shared::econ::TokenAmount;
use fvm_shared::METHOD_SEND;
use num_traits::Zero;
use serde::{Deserialize, Serialize};
use std::collections::{BTreeMap, HashSet};
use vharness::coqfmt::{self as cf, Case, CaseWriter, Stats};
use vharness::prng::Prng;
use vharness::util::*;
use vharness::vvm::Vvm;
use vm_api::util::get_state;
use vm_api::VM;

#[derive(Clone, Debug, Serialize, Deserialize)]
struct PVoucher {
    chan_ok: bool,
    tl_min: i64,
    tl_max: i64,
    /// 0 none, 1 correct secret, 2 wrong secret, 3 pre-image set but empty secret supplied
    secret: u8,
    secret_len_ok: bool,
    /// 0 none, 1 succeeding call, 2 failing call
    extra: u8,
    lane: u64,
    nonce: u64,
    amount: i128,
    msh: i64,
    merges: Vec<(u64, u64)>,
    /// 0 none, 1 from, 2 to, 3 stranger
    sig: u8,
}

#[derive(Clone, Debug, Serialize, Deserialize)]
enum POp {
    Update { caller: u8, epoch: i64, v: PVoucher },
    Settle { caller: u8, epoch: i64 },
    Collect { caller: u8, epoch: i64 },
    Deposit { amt: i128 },
}

#[derive(Clone, Debug, Serialize, Deserialize)]
struct PCase {
    init_balance: i128,
    ops: Vec<POp>,
}

struct World {
    v: Vvm,
    parties: [Address; 3],     // id addresses: from, to, stranger
    keys: [Address; 3],        // key addresses
    funder: Address,
    chan: Address,
    base_bal: [TokenAmount; 2], // balances of from/to right after channel creation
}

fn setup(init_balance: i128) -> World {
    let v = new_world();
    v.strict_sigs.replace(true);
    let accts = fil_actors_integration_tests::util::create_accounts(&v, 4, &TokenAmount::from_whole(10_000));
    let keys: Vec<Address> = accts
        .iter()
        .map(|a| get_state::<fil_actor_account::State>(&v, a).unwrap().address)
        .collect();
    let params = fil_actor_init::ExecParams {
        code_cid: *PAYCH_ACTOR_CODE_ID,
        constructor_params: RawBytes::serialize(ConstructorParams { from: accts[0], to: accts[1] }).unwrap(),
    };
    let r = exec(&v, &accts[0], &INIT_ACTOR_ADDR, &TokenAmount::from_atto(init_balance), fil_actor_init::Method::Exec as u64, Some(params));
    assert_eq!(code(&r), 0, "paych creation failed: {}", r.message);
    let ret: fil_actor_init::ExecReturn = r.ret.unwrap().deserialize().unwrap();
    let base_bal = [v.balance(&accts[0]), v.balance(&accts[1])];
    World {
        v,
        parties: [accts[0], accts[1], accts[2]],
        keys: [keys[0], keys[1], keys[2]],
        funder: accts[3],
        chan: ret.id_address,
        base_bal,
    }
}

#[derive(Clone, Default)]
struct Snap {
    alive: bool,
    to_send: TokenAmount,
    settling_at: i64,
    min_settle: i64,
    balance: TokenAmount,
    lanes: BTreeMap<u64, (TokenAmount, u64)>,
}

fn snapshot(w: &World, last: &Snap) -> Snap {
    match w.v.actor(&w.chan) {
        None => Snap { alive: false, balance: TokenAmount::zero(), ..last.clone() },
        Some(a) => {
            let st: PState = get_state(&w.v, &w.chan).unwrap();
            let arr: Array<LaneState, _> = Array::load(&st.lane_states, w.v.store.as_ref()).unwrap();
            let mut lanes = BTreeMap::new();
            arr.for_each(|i, l: &LaneState| {
                lanes.insert(i, (l.redeemed.clone(), l.nonce));
                Ok(())
            })
            .unwrap();
            Snap {
                alive: true,
                to_send: st.to_send,
                settling_at: st.settling_at,
                min_settle: st.min_settle_height,
                balance: a.balance,
                lanes,
            }
        }
    }
}

const SECRET: &[u8] = b"the-secret";
const EXTRA_OK_METHOD: u64 = (1 << 24) + 7;
const EXTRA_BAD_METHOD: u64 = 5;

fn build_voucher(w: &World, pv: &PVoucher) -> UpdateChannelStateParams {
    let mut sv = SignedVoucher {
        channel_addr: if pv.chan_ok { w.chan } else { w.parties[2] },
        time_lock_min: pv.tl_min,
        time_lock_max: pv.tl_max,
        secret_pre_image: match pv.secret {
            0 => vec![],
            _ => w.v.primitives().hash_blake2b(SECRET).to_vec(),
        },
        extra: match pv.extra {
            0 => None,
            1 => Some(ModVerifyParams { actor: w.parties[2], method: EXTRA_OK_METHOD, data: RawBytes::default() }),
            _ => Some(ModVerifyParams { actor: w.parties[2], method: EXTRA_BAD_METHOD, data: RawBytes::default() }),
        },
        lane: pv.lane,
        nonce: pv.nonce,
        amount: TokenAmount::from_atto(pv.amount),
        min_settle_height: pv.msh,
        merges: pv.merges.iter().map(|(l, n)| Merge { lane: *l, nonce: *n }).collect(),
        signature: None,
    };
    if pv.sig != 0 {
        let bytes = sv.signing_bytes().unwrap();
        let key = w.keys[(pv.sig - 1) as usize];
        sv.signature = Some(Signature::new_bls(sign(&key, &bytes)));
    }
    let secret = if !pv.secret_len_ok {
        vec![7u8; 257]
    } else {
        match pv.secret {
            2 => b"wrong".to_vec(),
            3 => vec![],
            0 if pv.lane % 2 == 0 => vec![],
            _ => SECRET.to_vec(),
        }
    };
    UpdateChannelStateParams { sv, secret }
}

fn run_op(w: &World, op: &POp) -> u32 {
    match op {
        POp::Update { caller, epoch, v } => {
            w.v.set_epoch(*epoch);
            let p = build_voucher(w, v);
            code(&exec(&w.v, &w.parties[*caller as usize], &w.chan, &TokenAmount::zero(), Method::UpdateChannelState as u64, Some(p)))
        }
        POp::Settle { caller, epoch } => {
            w.v.set_epoch(*epoch);
            code(&exec::<()>(&w.v, &w.parties[*caller as usize], &w.chan, &TokenAmount::zero(), Method::Settle as u64, None))
        }
        POp::Collect { caller, epoch } => {
            w.v.set_epoch(*epoch);
            code(&exec::<()>(&w.v, &w.parties[*caller as usize], &w.chan, &TokenAmount::zero(), Method::Collect as u64, None))
        }
        POp::Deposit { amt } => {
            if *amt < 0 {
                // the VM refuses negative transfers; model class 16
                return 16;
            }
            code(&exec::<()>(&w.v, &w.funder, &w.chan, &TokenAmount::from_atto(*amt), METHOD_SEND, None))
        }
    }
}

// ---------- Gallina printing ----------
fn id_of(w: &World, who: u8) -> u64 {
    w.parties[who as usize].id().unwrap()
}
fn coq_voucher(w: &World, pv: &PVoucher) -> String {
    format!(
        "{{| v_chan_ok := {}; v_tl_min := {}; v_tl_max := {}; v_secret := {}; v_extra := {}; v_lane := {}; v_nonce := {}; v_amount := {}; v_msh := {}; v_merges := {}; v_sig := {} |}}",
        cf::b(pv.chan_ok),
        cf::z(pv.tl_min),
        cf::z(pv.tl_max),
        match pv.secret { 0 => "None".to_string(), 1 => "(Some true)".to_string(), _ => "(Some false)".to_string() },
        match pv.extra { 0 => "None".to_string(), 1 => "(Some 0)".to_string(), _ => "(Some 22)".to_string() },
        cf::z(pv.lane),
        cf::z(pv.nonce),
        cf::z(pv.amount),
        cf::z(pv.msh),
        cf::list(pv.merges.iter().map(|(l, n)| format!("({}, {})", l, n))),
        match pv.sig { 0 => "None".to_string(), s => format!("(Some {})", id_of(w, s - 1)) },
    )
}
fn coq_op(w: &World, op: &POp) -> String {
    match op {
        POp::Update { caller, epoch, v } => format!(
            "Update {} {} {} {}",
            id_of(w, *caller), cf::z(*epoch), coq_voucher(w, v), cf::b(v.secret_len_ok)),
        POp::Settle { caller, epoch } => format!("Settle {} {}", id_of(w, *caller), cf::z(*epoch)),
        POp::Collect { caller, epoch } => format!("Collect {} {}", id_of(w, *caller), cf::z(*epoch)),
        POp::Deposit { amt } => format!("Deposit {}", cf::z(*amt)),
    }
}
fn obs(w: &World, s: &Snap, code: u32) -> Vec<String> {
    let paid_to = w.v.balance(&w.parties[1]) - &w.base_bal[1];
    let paid_from = w.v.balance(&w.parties[0]) - &w.base_bal[0];
    let mut o = vec![
        cf::z(code),
        cf::z(s.alive as u8),
        cf::z(s.to_send.atto()),
        cf::z(s.settling_at),
        cf::z(s.min_settle),
        cf::z(s.balance.atto()),
        cf::z(paid_to.atto()),
        cf::z(paid_from.atto()),
    ];
    for (k, (r, n)) in &s.lanes {
        o.push(cf::z(k));
        o.push(cf::z(r.atto()));
        o.push(cf::z(n));
    }
    o
}

// ---------- generator ----------
fn gen_voucher(r: &mut Prng, s: &Snap, caller: u8, epoch: i64) -> PVoucher {
    let other = match caller { 0 => 2u8, 1 => 1u8, _ => 1u8 }; // sig code of the counter-party
    let sig = match r.below(100) { 0..=84 => other, 85..=89 => caller + 1, 90..=94 => 3, _ => 0 };
    let lanes: Vec<u64> = s.lanes.keys().cloned().collect();
    let lane = match r.below(100) {
        0..=59 if !lanes.is_empty() => *r.pick(&lanes),
        0..=89 => r.below(7),
        90..=94 => MAX_LANE - r.below(2),
        _ => MAX_LANE + 1 + r.below(2),
    };
    let (red, non) = s.lanes.get(&lane).cloned().map(|(a, n)| (a.atto().clone(), n as i128)).unwrap_or((Zero::zero(), -1));
    let nonce: i128 = match r.below(100) {
        0..=69 => non + 1,
        70..=79 => non,
        80..=94 => non + 2 + r.below(4) as i128,
        _ => non - 1,
    };
    let nonce = nonce.max(0) as u64;
    let bal: i128 = s.balance.atto().try_into().unwrap_or(i128::MAX / 4);
    let red: i128 = (&red).try_into().unwrap();
    let amount: i128 = match r.below(100) {
        0..=59 => red + r.below((bal / 4).max(1) as u64 + 1) as i128,
        60..=79 => red - r.below(red.max(1) as u64 + 1) as i128,
        80..=94 => r.below((bal + bal / 5).max(1) as u64 + 1) as i128,
        _ => -(r.below(10) as i128) - 1,
    };
    let near = |r: &mut Prng| epoch + *r.pick(&[-1i64, 0, 1, 5]);
    let tl_min = if r.chance(80) { 0 } else { near(r) };
    let tl_max = if r.chance(80) { 0 } else { near(r).max(0) };
    let secret = match r.below(100) { 0..=74 => 0, 75..=93 => 1, 94..=96 => 2, _ => 3 };
    let extra = match r.below(100) { 0..=84 => 0, 85..=93 => 1, _ => 2 };
    let msh = if r.chance(75) { 0 } else if s.settling_at != 0 && r.chance(50) { s.settling_at + r.range(-2, 2000) } else { epoch + r.range(0, 3000) };
    let mut merges = vec![];
    if !r.chance(70) {
        let n = 1 + r.below(3);
        for _ in 0..n {
            let ml = match r.below(100) {
                0..=84 if !lanes.is_empty() => *r.pick(&lanes),
                85..=92 => lane,
                _ => 40 + r.below(3),
            };
            let mnon = s.lanes.get(&ml).map(|x| x.1 as i128).unwrap_or(0);
            // later duplicate entries of one lane need increasing nonces to pass
            let bump = merges.iter().filter(|(l, _): &&(u64, u64)| *l == ml).count() as i128;
            let mn = if r.chance(82) { mnon + 1 + bump } else { mnon };
            merges.push((ml, mn.max(0) as u64));
        }
    }
    PVoucher {
        chan_ok: r.chance(94),
        tl_min,
        tl_max,
        secret,
        secret_len_ok: r.chance(97),
        extra,
        lane,
        nonce,
        amount,
        msh: msh.max(0),
        merges,
        sig,
    }
}

fn gen_op(r: &mut Prng, s: &Snap, epoch: &mut i64) -> POp {
    // epoch advance
    *epoch += *r.pick(&[0i64, 0, 0, 1, 1, 5, 100, 700]);
    if s.settling_at != 0 && r.chance(25) {
        *epoch = (*epoch).max(s.settling_at + r.range(-1, 1));
    }
    let caller = match r.below(100) { 0..=44 => 0u8, 45..=89 => 1, _ => 2 };
    match r.below(100) {
        0..=71 => POp::Update { caller, epoch: *epoch, v: gen_voucher(r, s, caller, *epoch) },
        72..=81 => POp::Settle { caller, epoch: *epoch },
        82..=89 => POp::Collect { caller, epoch: *epoch },
        _ => POp::Deposit { amt: if r.chance(95) { r.below(5000) as i128 } else { -1 } },
    }
}

// ---------- monitor: the property's predicate evaluated on the implementation ----------
struct Mon {
    seen: HashSet<(u64, u64)>,
    settle_epoch: Option<i64>,
    max_msh: i64,
}

fn monitor(w: &World, op: &POp, pre: &Snap, post: &Snap, code: u32, m: &mut Mon, pre_paid: (TokenAmount, TokenAmount)) -> Vec<String> {
    let mut bad = vec![];
    if post.alive && (post.to_send.is_negative() || post.to_send > post.balance) {
        bad.push(format!("to_send {} outside [0, balance {}]", post.to_send.atto(), post.balance.atto()));
    }
    if code != 0 {
        // rejected calls change nothing
        if post.alive && (post.to_send != pre.to_send || post.lanes != pre.lanes || post.settling_at != pre.settling_at || post.min_settle != pre.min_settle || post.balance != pre.balance) {
            bad.push("rejected call changed state".into());
        }
        return bad;
    }
    match op {
        POp::Update { caller, epoch, v } => {
            let other_sig = match caller { 0 => 2, 1 => 1, _ => 0 };
            if *caller > 1 { bad.push("voucher accepted from an outsider".into()); }
            if v.sig != other_sig { bad.push("voucher accepted without the counter-party's signature".into()); }
            if !v.chan_ok { bad.push("voucher for another channel accepted".into()); }
            if *epoch < v.tl_min || (v.tl_max != 0 && *epoch > v.tl_max) { bad.push("voucher accepted outside its time lock".into()); }
            if v.secret >= 2 { bad.push("voucher accepted with a wrong secret".into()); }
            if v.extra == 2 { bad.push("voucher accepted although extra verification failed".into()); }
            if v.amount < 0 { bad.push("negative voucher accepted".into()); }
            if let Some((_, n)) = pre.lanes.get(&v.lane) { if v.nonce <= *n { bad.push("stale nonce accepted".into()); } }
            if pre.settling_at != 0 && *epoch >= pre.settling_at { bad.push("voucher accepted after settlement".into()); }
            if !m.seen.insert((v.lane, v.nonce)) { bad.push("voucher (lane, nonce) redeemed twice".into()); }
            // exact delta, per merge entry in order
            let mut cur = pre.lanes.clone();
            let mut others = TokenAmount::zero();
            for (ml, mn) in &v.merges {
                match cur.get_mut(ml) {
                    None => bad.push("merge of an absent lane accepted".into()),
                    Some(e) => {
                        if *ml == v.lane { bad.push("merge into own lane accepted".into()); }
                        if *mn <= e.1 { bad.push("stale merge nonce accepted".into()); }
                        others += &e.0;
                        e.1 = *mn;
                    }
                }
            }
            let own = pre.lanes.get(&v.lane).map(|x| x.0.clone()).unwrap_or_default();
            let expect = TokenAmount::from_atto(v.amount) - others - own;
            if &post.to_send - &pre.to_send != expect {
                bad.push(format!("delta {} != amount - redeemed = {}", (&post.to_send - &pre.to_send).atto(), expect.atto()));
            }
            cur.insert(v.lane, (TokenAmount::from_atto(v.amount), v.nonce));
            if cur != post.lanes { bad.push("lane table not updated exactly".into()); }
            if v.msh != 0 { m.max_msh = m.max_msh.max(v.msh); }
            if post.settling_at < pre.settling_at { bad.push("settling_at decreased".into()); }
        }
        POp::Settle { caller, epoch } => {
            if *caller > 1 { bad.push("settle by outsider".into()); }
            if pre.settling_at != 0 { bad.push("settle twice".into()); }
            m.settle_epoch = Some(*epoch);
            if post.settling_at < epoch + SETTLE_DELAY { bad.push("settling_at earlier than the settle delay".into()); }
        }
        POp::Collect { caller, epoch } => {
            if *caller > 1 { bad.push("collect by outsider".into()); }
            if pre.settling_at == 0 || *epoch < pre.settling_at { bad.push("collect before settling_at".into()); }
            match m.settle_epoch {
                None => bad.push("collect without settle".into()),
                Some(se) => if *epoch < se + SETTLE_DELAY { bad.push("collect before the settle delay elapsed".into()); }
            }
            if *epoch < m.max_msh { bad.push("collect before an accepted min_settle_height".into()); }
            let paid_to = w.v.balance(&w.parties[1]) - &w.base_bal[1] - pre_paid.0;
            let paid_from = w.v.balance(&w.parties[0]) - &w.base_bal[0] - pre_paid.1;
            if paid_to != pre.to_send { bad.push("payee not paid exactly to_send".into()); }
            if paid_from != &pre.balance - &pre.to_send { bad.push("payer not refunded exactly the remainder".into()); }
            if post.alive { bad.push("channel still alive after collect".into()); }
        }
        POp::Deposit { .. } => {}
    }
    bad
}

fn kind(op: &POp) -> &'static str {
    match op { POp::Update { .. } => "update", POp::Settle { .. } => "settle", POp::Collect { .. } => "collect", POp::Deposit { .. } => "deposit" }
}

fn run_case(pc: &PCase, stats: &mut Stats, genr: Option<(&mut Prng, usize)>) -> (Case, PCase, Vec<serde_json::Value>) {
    let w = setup(pc.init_balance);
    let mut snap = snapshot(&w, &Snap::default());
    let init = format!("init {} {} {}", id_of(&w, 0), id_of(&w, 1), cf::z(pc.init_balance));
    let mut steps = vec![];
    let mut ops_done = vec![];
    let mut mon = Mon { seen: HashSet::new(), settle_epoch: None, max_msh: 0 };
    let mut fails = vec![];
    let (mut acc, mut rej) = (false, false);
    let mut epoch = 0i64;
    let mut genr = genr;
    let n = match &genr { Some((_, n)) => *n, None => pc.ops.len() };
    let mut dead_steps = 0;
    for i in 0..n {
        let op = match &mut genr { Some((r, _)) => gen_op(r, &snap, &mut epoch), None => pc.ops[i].clone() };
        let pre_paid = (w.v.balance(&w.parties[1]) - &w.base_bal[1], w.v.balance(&w.parties[0]) - &w.base_bal[0]);
        let mut c = run_op(&w, &op);
        let post = snapshot(&w, &snap);
        if !snap.alive && c != 0 { c = 99; }
        stats.op(kind(&op), c);
        if c == 0 { acc = true } else { rej = true }
        let bad = monitor(&w, &op, &snap, &post, c, &mut mon, pre_paid);
        ops_done.push(op.clone());
        if !bad.is_empty() {
            fails.push(serde_json::json!({"step": i, "what": bad, "case": PCase { init_balance: pc.init_balance, ops: ops_done.clone() }}));
        }
        for p in w.v.panics.borrow().iter() { stats.panics.push(p.clone()); }
        w.v.panics.borrow_mut().clear();
        steps.push((coq_op(&w, &op), obs(&w, &post, c)));
        snap = post;
        if !snap.alive { dead_steps += 1; if dead_steps > 2 { break; } }
    }
    (Case { init, steps, nontrivial: acc && rej }, PCase { init_balance: pc.init_balance, ops: ops_done }, fails)
}

fn main() {
    let a = cf::parse_args();
    let mut stats = Stats::default();
    let header = "From VF Require Import Model.Paych Base.Corr.\nFrom Coq Require Import ZArith List.\nImport ListNotations.\nOpen Scope Z_scope.\n";
    let mut cw = CaseWriter::new(&a.out, header, "check_case", a.shards);
    if let Some(p) = &a.replay {
        let v: serde_json::Value = serde_json::from_str(&std::fs::read_to_string(p).unwrap()).unwrap();
        let pc: PCase = serde_json::from_value(v["case"].clone()).unwrap();
        let (c, _, fails) = run_case(&pc, &mut stats, None);
        cw.push(c);
        for f in fails { stats.monitor_fail(f); }
        cw.finish(&stats, "paych");
        return;
    }
    // corpus first
    let corpus = std::path::Path::new(env!("CARGO_MANIFEST_DIR")).join("../corpus/C16");
    if let Ok(rd) = std::fs::read_dir(&corpus) {
        let mut files: Vec<_> = rd.filter_map(|e| e.ok()).map(|e| e.path()).collect();
        files.sort();
        for f in files {
            if f.extension().map(|x| x == "json").unwrap_or(false) {
                let v: serde_json::Value = serde_json::from_str(&std::fs::read_to_string(&f).unwrap()).unwrap();
                let pc: PCase = serde_json::from_value(v["case"].clone()).unwrap();
                let (c, _, fails) = run_case(&pc, &mut stats, None);
                cw.push(c);
                for f in fails { stats.monitor_fail(f); }
            }
        }
    }
    let mut root = Prng::new(a.seed);
    for k in 0..a.cases {
        let mut r = root.fork(k as u64);
        let init_balance = match r.below(10) { 0 => 0, 1 => 1, _ => 1000 + r.below(100_000) as i128 };
        let pc = PCase { init_balance, ops: vec![] };
        let (c, _, fails) = run_case(&pc, &mut stats, Some((&mut r, a.len)));
        cw.push(c);
        for f in fails { stats.monitor_fail(f); }
    }
    cw.finish(&stats, "paych");
}
