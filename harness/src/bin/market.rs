//! C06 / C07 / C08 correspondence + monitor harness: the real storage market actor with real miners
//! (created through the real power actor), real account actors (AuthenticateMessage really runs),
//! real reward/power actors (collateral bounds) on the harness VM, against coq/Model/Market.v.
//!
//! `--prop C06|C07|C08` selects which property's monitor failures are reported (the correspondence
//! check is the same for all three); `--mode sched` runs the exhaustive C07 schedule enumeration.
use cid::multihash::Multihash;
use cid::Cid;
use fil_actor_market::balance_table::BalanceTable;
use fil_actor_market::ext::miner::{PieceChange, SectorChanges, SectorContentChangedParams, SectorContentChangedReturn};
use fil_actor_market::policy::deal_provider_collateral_bounds;
use fil_actor_market::{
    is_piece_cid, BatchActivateDealsParams, BatchActivateDealsResult, ClientDealProposal, DealArray, DealMetaArray,
    DealOpsByEpoch, DealProposal, DealState, GetBalanceReturn, Label, Method as MM, OnMinerSectorsTerminateParams,
    PendingProposalsSet, ProviderSectorsMap, PublishStorageDealsParams, PublishStorageDealsReturn, SectorDeals,
    SectorDealsMap, SettleDealPaymentsParams, SettleDealPaymentsReturn, State as MState, WithdrawBalanceParams,
    WithdrawBalanceReturn, DEAL_OPS_BY_EPOCH_CONFIG, PENDING_PROPOSALS_CONFIG, PROVIDER_SECTORS_CONFIG,
    SECTOR_DEALS_CONFIG,
};
use fil_actor_miner::{ChangeWorkerAddressParams, Method as MinerMethod, State as MinerState};
use fil_actors_runtime::cbor::serialize;
use fil_actors_runtime::runtime::Primitives;
use fil_actors_runtime::test_utils::{make_piece_cid, make_sealed_cid, MINER_ACTOR_CODE_ID};
use fil_actors_runtime::{
    BURNT_FUNDS_ACTOR_ADDR, CRON_ACTOR_ADDR, REWARD_ACTOR_ADDR, STORAGE_MARKET_ACTOR_ADDR, STORAGE_POWER_ACTOR_ADDR,
};
use fvm_ipld_bitfield::BitField;
use fvm_ipld_encoding::{RawBytes, DAG_CBOR};
use fvm_shared::address::Address;
use fvm_shared::bigint::BigInt;
use fvm_shared::crypto::signature::{Signature, SignatureType};
use fvm_shared::econ::TokenAmount;
use fvm_shared::piece::PaddedPieceSize;
use fvm_shared::sector::{RegisteredPoStProof, RegisteredSealProof};
use num_traits::Zero;
use serde::{Deserialize, Serialize};
use serde_json::json;
use std::collections::{BTreeMap, BTreeSet};
use vharness::coqfmt::{self as cf, Case, CaseWriter, Stats};
use vharness::prng::Prng;
use vharness::util::*;
use vharness::vvm::Vvm;
use vm_api::trace::InvocationTrace;
use vm_api::util::get_state;
use vm_api::VM;

const NO_ACTOR_ID: u64 = 987_654;
// party indices
const CLIENTS: [u8; 3] = [0, 1, 2];
const MINERS: [u8; 2] = [3, 4];
const P_CTRL: u8 = 9;
const P_STRANGER: u8 = 10;
const P_NOBODY: u8 = 11;
const P_CRON: u8 = 12;
const MIN_DUR: i64 = 180 * 2880;
const MAX_DUR: i64 = 1278 * 2880;

/// i128 amounts are written as decimal strings (serde_json values cannot hold numbers beyond 64 bits);
/// numbers are accepted when reading
mod i128_str {
    use serde::{de, Deserializer, Serializer};
    pub fn serialize<S: Serializer>(x: &i128, s: S) -> Result<S::Ok, S::Error> {
        s.serialize_str(&x.to_string())
    }
    struct V;
    impl<'de> de::Visitor<'de> for V {
        type Value = i128;
        fn expecting(&self, f: &mut std::fmt::Formatter) -> std::fmt::Result {
            f.write_str("an integer or a decimal string")
        }
        fn visit_i64<E: de::Error>(self, v: i64) -> Result<i128, E> { Ok(v as i128) }
        fn visit_u64<E: de::Error>(self, v: u64) -> Result<i128, E> { Ok(v as i128) }
        fn visit_f64<E: de::Error>(self, v: f64) -> Result<i128, E> { Ok(v as i128) }
        fn visit_str<E: de::Error>(self, v: &str) -> Result<i128, E> { v.parse().map_err(E::custom) }
    }
    pub fn deserialize<'de, D: Deserializer<'de>>(d: D) -> Result<i128, D::Error> {
        d.deserialize_any(V)
    }
}

#[derive(Clone, Debug, Serialize, Deserialize, PartialEq)]
struct PDeal {
    client: u8,
    client_key_form: bool,
    provider: u8,
    piece: u8,
    size: u64,
    verified: bool,
    /// label index; >= 1000 means an over-long label
    label: u16,
    start: i64,
    end: i64,
    #[serde(with = "i128_str")]
    price: i128,
    #[serde(with = "i128_str")]
    pcoll: i128,
    #[serde(with = "i128_str")]
    ccoll: i128,
    /// 0 signed by the client, 1 signed by somebody else, 2 garbage
    sig: u8,
    bad_piece_cid: bool,
}

#[derive(Clone, Debug, Serialize, Deserialize)]
enum MOp {
    AddBalance { from: u8, epoch: i64, who: u8, #[serde(with = "i128_str")] value: i128 },
    /// `fail`: exit code with which the payout transfer (the nested METHOD_SEND) is made to fail
    Withdraw { caller: u8, epoch: i64, who: u8, #[serde(with = "i128_str")] amount: i128, #[serde(default)] fail: Option<u32> },
    Publish { caller: u8, epoch: i64, deals: Vec<PDeal> },
    Activate { caller: u8, epoch: i64, sectors: Vec<(u64, i64, Vec<u64>)> },
    ContentChanged { caller: u8, epoch: i64, sectors: Vec<(u64, i64, Vec<(Option<u64>, u8, u64)>)> },
    Terminate { caller: u8, epoch: i64, pepoch: i64, sectors: Vec<u64> },
    Settle { caller: u8, epoch: i64, ids: Vec<u64> },
    Cron { caller: u8, epoch: i64 },
    GetBalance { epoch: i64, who: u8, key_form: bool },
}

impl MOp {
    fn epoch(&self) -> i64 {
        match self {
            MOp::AddBalance { epoch, .. } | MOp::Withdraw { epoch, .. } | MOp::Publish { epoch, .. }
            | MOp::Activate { epoch, .. } | MOp::ContentChanged { epoch, .. } | MOp::Terminate { epoch, .. }
            | MOp::Settle { epoch, .. } | MOp::Cron { epoch, .. } | MOp::GetBalance { epoch, .. } => *epoch,
        }
    }
}

#[derive(Clone, Debug, Serialize, Deserialize)]
struct MCase {
    interval: i64,
    ops: Vec<MOp>,
}

struct World {
    v: Vvm,
    /// party index -> ID address
    ids: Vec<Address>,
    /// party index -> key address (accounts only)
    keys: Vec<Option<Address>>,
    /// set by run_op: the payout transfer of the last WithdrawBalance was attempted and failed
    payout_failed: std::cell::Cell<bool>,
}

fn setup(interval: i64) -> World {
    let mut v = new_world();
    v.policy.deal_updates_interval = interval;
    v.strict_sigs.replace(true);
    let accts = fil_actors_integration_tests::util::create_accounts(&v, 9, &TokenAmount::from_whole(10_000_000));
    let key_of = |a: &Address| get_state::<fil_actor_account::State>(&v, a).unwrap().address;
    let clients = &accts[0..3];
    let owners = &accts[3..5];
    let workers = &accts[5..7];
    let control = accts[7];
    let stranger = accts[8];
    let mut miners = vec![];
    for i in 0..2 {
        let (m, _robust) = fil_actors_integration_tests::util::create_miner(
            &v,
            &owners[i],
            &workers[i],
            RegisteredPoStProof::StackedDRGWindow32GiBV1P1,
            &TokenAmount::from_whole(1000),
        );
        miners.push(m);
    }
    // miner 0 gets a control address
    let r = exec(
        &v,
        &owners[0],
        &miners[0],
        &TokenAmount::zero(),
        MinerMethod::ChangeWorkerAddress as u64,
        Some(ChangeWorkerAddressParams { new_worker: workers[0], new_control_addresses: vec![control] }),
    );
    assert_eq!(code(&r), 0, "adding a control address failed: {}", r.message);
    let mut ids = vec![clients[0], clients[1], clients[2], miners[0], miners[1], owners[0], owners[1], workers[0], workers[1], control, stranger];
    ids.push(Address::new_id(NO_ACTOR_ID));
    ids.push(CRON_ACTOR_ADDR);
    let keys: Vec<Option<Address>> = ids
        .iter()
        .enumerate()
        .map(|(i, a)| if i < 3 || (5..=10).contains(&i) { Some(key_of(a)) } else { None })
        .collect();
    assert!(v.actor(&Address::new_id(NO_ACTOR_ID)).is_none());
    v.take_invocations();
    World { v, ids, keys, payout_failed: std::cell::Cell::new(false) }
}

fn pid(w: &World, idx: u8) -> u64 {
    w.ids[idx as usize].id().unwrap()
}
fn idx_of(w: &World, id: u64) -> Option<u8> {
    w.ids.iter().position(|a| a.id().unwrap() == id).map(|x| x as u8)
}
fn i128_of(t: &TokenAmount) -> i128 {
    t.atto().try_into().expect("amount fits i128")
}
fn tok(x: i128) -> TokenAmount {
    TokenAmount::from_atto(x)
}

#[derive(Clone, Debug, PartialEq)]
enum Target {
    None,
    Account,
    Miner(u64, u64, Vec<u64>),
}

fn target_of(w: &World, a: &Address) -> Target {
    let ida = match w.v.resolve_id_address(a) {
        Some(x) => x,
        None => return Target::None,
    };
    match w.v.actor(&ida) {
        None => Target::None,
        Some(act) => {
            if act.code == *MINER_ACTOR_CODE_ID {
                let st: MinerState = get_state(&w.v, &ida).unwrap();
                let info = st.get_info(w.v.store.as_ref()).unwrap();
                Target::Miner(
                    info.owner.id().unwrap(),
                    info.worker.id().unwrap(),
                    info.control_addresses.iter().map(|c| c.id().unwrap()).collect(),
                )
            } else {
                Target::Account
            }
        }
    }
}
fn is_miner(w: &World, a: &Address) -> bool {
    w.v.actor(a).map(|x| x.code == *MINER_ACTOR_CODE_ID).unwrap_or(false)
}
fn coq_target(t: &Target) -> String {
    match t {
        Target::None => "TNone".into(),
        Target::Account => "TAccount".into(),
        Target::Miner(o, wk, cs) => format!("(TMiner {} {} {})", o, wk, cf::zlist(cs.iter())),
    }
}

// ---------- projection of the real market state ----------
#[derive(Clone, Default)]
struct Snap {
    next_id: u64,
    last_cron: i64,
    tot_ccoll: i128,
    tot_pcoll: i128,
    tot_fee: i128,
    balance: i128,
    burnt: i128,
    escrow: BTreeMap<u64, i128>,
    locked: BTreeMap<u64, i128>,
    proposals: BTreeMap<u64, DealProposal>,
    cids: BTreeMap<u64, Cid>,
    states: BTreeMap<u64, DealState>,
    pending: BTreeSet<Cid>,
    deal_ops: BTreeMap<i64, Vec<u64>>,
    psectors: BTreeMap<(u64, u64), Vec<u64>>,
}

impl Snap {
    fn esc(&self, a: u64) -> i128 {
        self.escrow.get(&a).cloned().unwrap_or(0)
    }
    fn lck(&self, a: u64) -> i128 {
        self.locked.get(&a).cloned().unwrap_or(0)
    }
}

fn deal_cid_of(w: &World, p: &DealProposal) -> Cid {
    let data = serialize(p, "deal proposal").unwrap();
    let h = w.v.primitives().hash_blake2b(data.bytes());
    Cid::new_v1(DAG_CBOR, Multihash::wrap(0xb220, &h).unwrap())
}

fn snapshot(w: &World) -> Snap {
    let st: MState = get_state(&w.v, &STORAGE_MARKET_ACTOR_ADDR).unwrap();
    let store = w.v.store.as_ref();
    let mut s = Snap {
        next_id: st.next_id,
        last_cron: st.last_cron,
        tot_ccoll: i128_of(&st.total_client_locked_collateral),
        tot_pcoll: i128_of(&st.total_provider_locked_collateral),
        tot_fee: i128_of(&st.total_client_storage_fee),
        balance: i128_of(&w.v.balance(&STORAGE_MARKET_ACTOR_ADDR)),
        burnt: i128_of(&w.v.balance(&BURNT_FUNDS_ACTOR_ADDR)),
        ..Default::default()
    };
    BalanceTable::from_root(store, &st.escrow_table, "escrow")
        .unwrap()
        .0
        .for_each(|k: Address, v: &TokenAmount| {
            s.escrow.insert(k.id().unwrap(), i128_of(v));
            Ok(())
        })
        .unwrap();
    BalanceTable::from_root(store, &st.locked_table, "locked")
        .unwrap()
        .0
        .for_each(|k: Address, v: &TokenAmount| {
            s.locked.insert(k.id().unwrap(), i128_of(v));
            Ok(())
        })
        .unwrap();
    DealArray::load(&st.proposals, store)
        .unwrap()
        .for_each(|id, p: &DealProposal| {
            s.cids.insert(id, deal_cid_of(w, p));
            s.proposals.insert(id, p.clone());
            Ok(())
        })
        .unwrap();
    DealMetaArray::load(&st.states, store)
        .unwrap()
        .for_each(|id, d: &DealState| {
            s.states.insert(id, *d);
            Ok(())
        })
        .unwrap();
    PendingProposalsSet::load(store, &st.pending_proposals, PENDING_PROPOSALS_CONFIG, "pending")
        .unwrap()
        .for_each(|c: Cid| {
            s.pending.insert(c);
            Ok(())
        })
        .unwrap();
    let ops = DealOpsByEpoch::load(store, &st.deal_ops_by_epoch, DEAL_OPS_BY_EPOCH_CONFIG, "ops").unwrap();
    let mut epochs = vec![];
    ops.for_each(|e: i64, _c: &Cid| {
        epochs.push(e);
        Ok(())
    })
    .unwrap();
    for e in epochs {
        let mut ids = vec![];
        ops.for_each_in(&e, |id: u64| {
            ids.push(id);
            Ok(())
        })
        .unwrap();
        ids.sort();
        s.deal_ops.insert(e, ids);
    }
    let ps = ProviderSectorsMap::load(store, &st.provider_sectors, PROVIDER_SECTORS_CONFIG, "ps").unwrap();
    let mut roots = vec![];
    ps.for_each(|prov: u64, root: &Cid| {
        roots.push((prov, *root));
        Ok(())
    })
    .unwrap();
    for (prov, root) in roots {
        SectorDealsMap::load(store, &root, SECTOR_DEALS_CONFIG, "sd")
            .unwrap()
            .for_each(|sector: u64, ids: &Vec<u64>| {
                s.psectors.insert((prov, sector), ids.clone());
                Ok(())
            })
            .unwrap();
    }
    s
}

fn fp_of(p: &DealProposal, piece_of: &dyn Fn(&Cid) -> i128, label_of: &dyn Fn(&Label) -> i128) -> BigInt {
    let fields: Vec<BigInt> = vec![
        BigInt::from(piece_of(&p.piece_cid)),
        BigInt::from(p.piece_size.0),
        BigInt::from(p.verified_deal as u8),
        BigInt::from(p.client.id().unwrap_or(0)),
        BigInt::from(p.provider.id().unwrap_or(0)),
        BigInt::from(label_of(&p.label)),
        BigInt::from(p.start_epoch),
        BigInt::from(p.end_epoch),
        p.storage_price_per_epoch.atto().clone(),
        p.provider_collateral.atto().clone(),
        p.client_collateral.atto().clone(),
    ];
    let b: BigInt = BigInt::from(1u8) << 100;
    let mut acc = BigInt::from(1u8);
    for f in fields {
        acc = acc * &b + f;
    }
    acc
}

fn piece_cid_of(piece: u8, bad: bool) -> Cid {
    if bad { make_sealed_cid(&[piece]) } else { make_piece_cid(&[piece]) }
}
fn piece_index(c: &Cid) -> i128 {
    for i in 0..=255u8 {
        if *c == make_piece_cid(&[i]) {
            return i as i128;
        }
    }
    -1
}
fn label_of_idx(l: u16) -> Label {
    if l >= 1000 { Label::String(format!("{}{}", "x".repeat(300), l)) } else { Label::String(format!("label-{}", l)) }
}
fn label_index(l: &Label) -> i128 {
    match l {
        Label::String(s) => {
            if let Some(r) = s.strip_prefix("label-") { r.parse().unwrap_or(-1) } else { -1 }
        }
        _ => -1,
    }
}

fn enc_state(s: &Snap) -> Vec<String> {
    let mut o: Vec<String> = vec![
        cf::z(s.next_id), cf::z(s.last_cron), cf::z(s.tot_ccoll), cf::z(s.tot_pcoll), cf::z(s.tot_fee),
        cf::z(s.balance), cf::z(s.burnt),
    ];
    for t in [&s.escrow, &s.locked] {
        o.push(cf::z(t.len()));
        for (k, v) in t {
            o.push(cf::z(k));
            o.push(cf::z(v));
        }
    }
    o.push(cf::z(s.proposals.len()));
    for k in s.proposals.keys() {
        o.push(cf::z(k));
    }
    o.push(cf::z(s.states.len()));
    for (k, d) in &s.states {
        o.extend([cf::z(k), cf::z(d.sector_number), cf::z(d.sector_start_epoch), cf::z(d.last_updated_epoch), cf::z(d.slash_epoch)]);
    }
    // pending: per cid the live ids with that cid, entries ordered by first id
    let mut entries: Vec<(i128, Vec<u64>)> = s
        .pending
        .iter()
        .map(|c| {
            let ids: Vec<u64> = s.cids.iter().filter(|(_, x)| *x == c).map(|(k, _)| *k).collect();
            (ids.first().map(|x| *x as i128).unwrap_or(-1), ids)
        })
        .collect();
    entries.sort();
    o.push(cf::z(entries.len()));
    for (_, ids) in entries {
        o.push(cf::z(ids.len()));
        for i in ids {
            o.push(cf::z(i));
        }
    }
    o.push(cf::z(s.deal_ops.len()));
    for (e, ids) in &s.deal_ops {
        o.push(cf::z(e));
        o.push(cf::z(ids.len()));
        for i in ids {
            o.push(cf::z(i));
        }
    }
    o.push(cf::z(s.psectors.len()));
    for ((a, b), ids) in &s.psectors {
        o.push(cf::z(a));
        o.push(cf::z(b));
        o.push(cf::z(ids.len()));
        for i in ids {
            o.push(cf::z(i));
        }
    }
    o
}

// ---------- building and executing the real messages ----------
fn build_proposal(w: &World, d: &PDeal) -> DealProposal {
    let client = if d.client_key_form { w.keys[d.client as usize].unwrap_or(w.ids[d.client as usize]) } else { w.ids[d.client as usize] };
    DealProposal {
        piece_cid: piece_cid_of(d.piece, d.bad_piece_cid),
        piece_size: PaddedPieceSize(d.size),
        verified_deal: d.verified,
        client,
        provider: w.ids[d.provider as usize],
        label: label_of_idx(d.label),
        start_epoch: d.start,
        end_epoch: d.end,
        storage_price_per_epoch: tok(d.price),
        provider_collateral: tok(d.pcoll),
        client_collateral: tok(d.ccoll),
    }
}

fn build_client_deal(w: &World, d: &PDeal) -> ClientDealProposal {
    let proposal = build_proposal(w, d);
    let bytes = serialize(&proposal, "deal proposal").unwrap().to_vec();
    let sig = match d.sig {
        0 => match w.keys[d.client as usize] {
            Some(k) => sign(&k, &bytes),
            None => bytes.clone(),
        },
        1 => sign(&w.keys[P_STRANGER as usize].unwrap(), &bytes),
        _ => vec![1, 2, 3],
    };
    ClientDealProposal { proposal, client_signature: Signature { sig_type: SignatureType::BLS, bytes: sig } }
}

fn min_pcoll(w: &World, size: u64) -> i128 {
    let pst: fil_actor_power::State = get_state(&w.v, &STORAGE_POWER_ACTOR_ADDR).unwrap();
    let rst: fil_actor_reward::State = get_state(&w.v, &REWARD_ACTOR_ADDR).unwrap();
    let (min, _max) = deal_provider_collateral_bounds(
        &w.v.policy,
        PaddedPieceSize(size),
        &pst.this_epoch_raw_byte_power,
        &rst.this_epoch_baseline_power,
        &w.v.circulating_supply(),
    );
    i128_of(&min)
}

/// the stateless op inputs of one deal, derived from how the harness built it
struct DealInputs {
    sig_ok: bool,
    label_ok: bool,
    piece_ok: bool,
    min_pcoll: i128,
}
fn deal_inputs(w: &World, d: &PDeal) -> DealInputs {
    let p = build_proposal(w, d);
    DealInputs {
        sig_ok: d.sig == 0 && w.keys[d.client as usize].is_some(),
        label_ok: p.label.len() <= 256,
        piece_ok: p.piece_size.validate().is_ok() && is_piece_cid(&p.piece_cid),
        min_pcoll: min_pcoll(w, d.size),
    }
}

fn coq_prop(w: &World, d: &PDeal) -> String {
    format!(
        "(mkProp {} {} {} {} {} {} {} {} {} {} {})",
        cf::z(d.piece), cf::z(d.size), cf::b(d.verified), cf::z(pid(w, d.client)), cf::z(pid(w, d.provider)),
        cf::z(d.label), cf::z(d.start), cf::z(d.end), cf::z(d.price), cf::z(d.pcoll), cf::z(d.ccoll)
    )
}
fn coq_pdeal(w: &World, d: &PDeal) -> String {
    let i = deal_inputs(w, d);
    format!("(mkPdeal {} {} {} {} {})", coq_prop(w, d), cf::b(i.sig_ok), cf::b(i.label_ok), cf::b(i.piece_ok), cf::z(i.min_pcoll))
}

fn coq_op(w: &World, op: &MOp) -> String {
    match op {
        MOp::AddBalance { epoch, who, value, .. } => format!(
            "AddBalance {} {} {} {}", cf::z(*epoch), pid(w, *who), coq_target(&target_of(w, &w.ids[*who as usize])), cf::z(*value)),
        MOp::Withdraw { caller, epoch, who, amount, fail } => format!(
            "Withdraw {} {} {} {} {} {}", pid(w, *caller), cf::z(*epoch), pid(w, *who), coq_target(&target_of(w, &w.ids[*who as usize])), cf::z(*amount),
            cf::opt(fail.map(|c| c.to_string()))),
        MOp::Publish { caller, epoch, deals } => {
            let t = match deals.first() {
                Some(d) => target_of(w, &w.ids[d.provider as usize]),
                None => Target::None,
            };
            format!("Publish {} {} {} {}", pid(w, *caller), cf::z(*epoch), coq_target(&t), cf::list(deals.iter().map(|d| coq_pdeal(w, d))))
        }
        MOp::Activate { caller, epoch, sectors } => format!(
            "Activate {} {} {} {}", pid(w, *caller), cf::b(is_miner(w, &w.ids[*caller as usize])), cf::z(*epoch),
            cf::list(sectors.iter().map(|(s, e, ids)| format!("({}, {}, {})", s, cf::z(*e), cf::zlist(ids.iter()))))),
        MOp::ContentChanged { caller, epoch, sectors } => format!(
            "ContentChanged {} {} {} {}", pid(w, *caller), cf::b(is_miner(w, &w.ids[*caller as usize])), cf::z(*epoch),
            cf::list(sectors.iter().map(|(s, e, ps)| format!(
                "({}, {}, {})", s, cf::z(*e),
                cf::list(ps.iter().map(|(oid, piece, size)| format!(
                    "({}, {}, {})", cf::opt(oid.map(|x| x.to_string())), piece, size))))))),
        MOp::Terminate { caller, epoch, pepoch, sectors } => {
            let mut ss = sectors.clone();
            ss.sort();
            ss.dedup();
            format!("Terminate {} {} {} {} {}", pid(w, *caller), cf::b(is_miner(w, &w.ids[*caller as usize])), cf::z(*epoch), cf::z(*pepoch), cf::zlist(ss.iter()))
        }
        MOp::Settle { epoch, ids, .. } => {
            let mut ss = ids.clone();
            ss.sort();
            ss.dedup();
            format!("Settle {} {}", cf::z(*epoch), cf::zlist(ss.iter()))
        }
        MOp::Cron { caller, epoch } => format!("Cron {} {}", pid(w, *caller), cf::z(*epoch)),
        MOp::GetBalance { epoch, who, key_form } => format!(
            "GetBalance {} {} {}", cf::z(*epoch), pid(w, *who), cf::b(w.v.resolve_id_address(&balance_addr(w, *who, *key_form)).is_some())),
    }
}

/// the address form used by GetBalance: ID form, the account's key form, or (nobody) a key never seen on chain
fn balance_addr(w: &World, who: u8, key_form: bool) -> Address {
    if !key_form {
        return w.ids[who as usize];
    }
    match w.keys[who as usize] {
        Some(k) => k,
        None if who == P_NOBODY => Address::new_bls(&[9u8; 48]).unwrap(),
        None => w.ids[who as usize],
    }
}

fn bf(ids: &[u64]) -> BitField {
    let mut b = BitField::new();
    for i in ids {
        b.set(*i);
    }
    b
}

fn find_send<'a>(t: &'a InvocationTrace, from: u64) -> Option<&'a InvocationTrace> {
    for s in &t.subinvocations {
        if s.from == from && s.method == 0 {
            return Some(s);
        }
    }
    None
}

/// executes the op on the real actors; returns (exit code, encoded return values)
fn run_op(w: &World, op: &MOp) -> (u32, Vec<i128>) {
    w.v.set_epoch(op.epoch());
    w.v.take_invocations();
    let market = STORAGE_MARKET_ACTOR_ADDR;
    let zero = TokenAmount::zero();
    match op {
        MOp::AddBalance { from, who, value, .. } => {
            let r = exec(&w.v, &w.ids[*from as usize], &market, &tok(*value), MM::AddBalance as u64, Some(w.ids[*who as usize]));
            (code(&r), vec![])
        }
        MOp::Withdraw { caller, who, amount, fail, .. } => {
            let p = WithdrawBalanceParams { provider_or_client: w.ids[*who as usize], amount: tok(*amount) };
            if let Some(c) = fail {
                // the payout is the first nested send for an account, the second (after ControlAddresses)
                // for a miner
                let k = if matches!(target_of(w, &w.ids[*who as usize]), Target::Miner(..)) { 1 } else { 0 };
                w.v.fail_plan.replace(Some((k, fvm_shared::error::ExitCode::new(*c))));
            }
            let r = exec(&w.v, &w.ids[*caller as usize], &market, &zero, MM::WithdrawBalance as u64, Some(p));
            w.v.fail_plan.replace(None);
            let inv = w.v.take_invocations();
            let payout = inv.last().and_then(|t| find_send(t, market.id().unwrap()));
            w.payout_failed.set(payout.map(|s| !s.exit_code.is_success()).unwrap_or(false));
            if code(&r) != 0 {
                return (code(&r), vec![]);
            }
            let ret: WithdrawBalanceReturn = r.ret.unwrap().deserialize().unwrap();
            let send = payout.expect("withdraw without a send");
            let to = w.v.resolve_id_address(&send.to).unwrap().id().unwrap();
            assert_eq!(send.value, ret.amount_withdrawn);
            (0, vec![i128_of(&ret.amount_withdrawn), to as i128])
        }
        MOp::Publish { caller, deals, .. } => {
            let p = PublishStorageDealsParams { deals: deals.iter().map(|d| build_client_deal(w, d)).collect() };
            let r = exec(&w.v, &w.ids[*caller as usize], &market, &zero, MM::PublishStorageDeals as u64, Some(p));
            if std::env::var("MARKET_DEBUG").is_ok() {
                eprintln!("publish exit {} : {} ; deals {:?}", code(&r), r.message, deals);
            }
            if code(&r) != 0 {
                return (code(&r), vec![]);
            }
            let ret: PublishStorageDealsReturn = r.ret.unwrap().deserialize().unwrap();
            let mut o = vec![ret.ids.len() as i128];
            o.extend(ret.ids.iter().map(|x| *x as i128));
            let idx: Vec<u64> = ret.valid_deals.iter().collect();
            o.push(idx.len() as i128);
            o.extend(idx.iter().map(|x| *x as i128));
            (0, o)
        }
        MOp::Activate { caller, sectors, .. } => {
            let p = BatchActivateDealsParams {
                sectors: sectors
                    .iter()
                    .map(|(s, e, ids)| SectorDeals {
                        sector_number: *s,
                        sector_type: RegisteredSealProof::StackedDRG32GiBV1P1,
                        sector_expiry: *e,
                        deal_ids: ids.clone(),
                    })
                    .collect(),
                compute_cid: false,
            };
            let r = exec(&w.v, &w.ids[*caller as usize], &market, &zero, MM::BatchActivateDeals as u64, Some(p));
            if code(&r) != 0 {
                return (code(&r), vec![]);
            }
            let ret: BatchActivateDealsResult = r.ret.unwrap().deserialize().unwrap();
            let mut o = vec![ret.activation_results.success_count as i128, ret.activation_results.fail_codes.len() as i128];
            for f in &ret.activation_results.fail_codes {
                o.push(f.idx as i128);
                o.push(f.code.value() as i128);
            }
            for a in &ret.activations {
                o.push(a.activated.len() as i128);
                for d in &a.activated {
                    o.push(d.client as i128);
                    o.push(d.size.0 as i128);
                }
            }
            (0, o)
        }
        MOp::ContentChanged { caller, sectors, .. } => {
            let p = SectorContentChangedParams {
                sectors: sectors
                    .iter()
                    .map(|(s, e, ps)| SectorChanges {
                        sector: *s,
                        minimum_commitment_epoch: *e,
                        added: ps
                            .iter()
                            .map(|(oid, piece, size)| PieceChange {
                                data: make_piece_cid(&[*piece]),
                                size: PaddedPieceSize(*size),
                                payload: match oid {
                                    Some(id) => serialize(id, "deal id").unwrap(),
                                    None => RawBytes::new(vec![0xff, 0xff, 0xff]),
                                },
                            })
                            .collect(),
                    })
                    .collect(),
            };
            let r = exec(&w.v, &w.ids[*caller as usize], &market, &zero, MM::SectorContentChangedExported as u64, Some(p));
            if code(&r) != 0 {
                return (code(&r), vec![]);
            }
            let ret: SectorContentChangedReturn = r.ret.unwrap().deserialize().unwrap();
            let mut o = vec![ret.sectors.len() as i128];
            for s in &ret.sectors {
                o.push(s.added.len() as i128);
                for a in &s.added {
                    o.push(a.accepted as i128);
                }
            }
            (0, o)
        }
        MOp::Terminate { caller, pepoch, sectors, .. } => {
            let p = OnMinerSectorsTerminateParams { epoch: *pepoch, sectors: bf(sectors) };
            let r = exec(&w.v, &w.ids[*caller as usize], &market, &zero, MM::OnMinerSectorsTerminate as u64, Some(p));
            (code(&r), vec![])
        }
        MOp::Settle { caller, ids, .. } => {
            let p = SettleDealPaymentsParams { deal_ids: bf(ids) };
            let r = exec(&w.v, &w.ids[*caller as usize], &market, &zero, MM::SettleDealPaymentsExported as u64, Some(p));
            if code(&r) != 0 {
                return (code(&r), vec![]);
            }
            let ret: SettleDealPaymentsReturn = r.ret.unwrap().deserialize().unwrap();
            let mut o = vec![ret.results.success_count as i128, ret.results.fail_codes.len() as i128];
            for f in &ret.results.fail_codes {
                o.push(f.idx as i128);
                o.push(f.code.value() as i128);
            }
            o.push(ret.settlements.len() as i128);
            for s in &ret.settlements {
                o.push(i128_of(&s.payment));
                o.push(s.completed as i128);
            }
            (0, o)
        }
        MOp::Cron { caller, .. } => {
            let r = exec::<()>(&w.v, &w.ids[*caller as usize], &market, &zero, MM::CronTick as u64, None);
            (code(&r), vec![])
        }
        MOp::GetBalance { who, key_form, .. } => {
            let r = exec(&w.v, &w.ids[P_STRANGER as usize], &market, &zero, MM::GetBalanceExported as u64, Some(balance_addr(w, *who, *key_form)));
            if code(&r) != 0 {
                return (code(&r), vec![]);
            }
            let ret: GetBalanceReturn = r.ret.unwrap().deserialize().unwrap();
            (0, vec![i128_of(&ret.balance), i128_of(&ret.locked)])
        }
    }
}

// ---------- monitors: the properties' predicates on the implementation's own states ----------
#[derive(Clone, Debug, PartialEq)]
enum Fate {
    Live,
    Completed,
    Terminated(i64),
    TimedOut,
}

#[derive(Clone, Debug)]
struct DealRec {
    prop: DealProposal,
    cid: Cid,
    fate: Fate,
    /// set once a state was seen for the id
    activated: Option<DealState>,
    /// an activated, never-updated deal was settled at an epoch <= its start epoch
    early_settled: bool,
}

#[derive(Default)]
struct Ghost {
    deals: BTreeMap<u64, DealRec>,
    dep: BTreeMap<u64, i128>,
    wd: BTreeMap<u64, i128>,
    max_id_returned: Option<u64>,
    templates: Vec<PDeal>,
    last_was_cron: bool,
    /// number of cron ticks generated over a gap of more than 50_000 epochs (the real cron loop
    /// visits every epoch: ~0.5 s per 500_000 epochs)
    costly_crons: u32,
}

fn paid_until(p: &DealProposal, st: Option<&DealState>) -> i64 {
    match st {
        Some(s) if s.last_updated_epoch != -1 => p.start_epoch.max(s.last_updated_epoch),
        _ => p.start_epoch,
    }
}
fn price(p: &DealProposal) -> i128 {
    i128_of(&p.storage_price_per_epoch)
}
fn earned(r: &DealRec, s: &Snap, id: u64) -> i128 {
    let p = &r.prop;
    match r.fate {
        Fate::Live => price(p) * (paid_until(p, s.states.get(&id)) - p.start_epoch) as i128,
        Fate::Completed => price(p) * (p.end_epoch - p.start_epoch) as i128,
        Fate::Terminated(t) => price(p) * (p.end_epoch.min(t) - p.start_epoch).max(0) as i128,
        Fate::TimedOut => 0,
    }
}
fn burnt_of(r: &DealRec) -> i128 {
    match r.fate {
        Fate::Terminated(_) | Fate::TimedOut => i128_of(&r.prop.provider_collateral),
        _ => 0,
    }
}

struct Fail {
    prop: &'static str,
    class: String,
    what: String,
}
fn fail(prop: &'static str, class: &str, what: String) -> Fail {
    Fail { prop, class: class.to_string(), what }
}

#[allow(clippy::too_many_arguments)]
fn monitor(w: &World, op: &MOp, pre: &Snap, post: &Snap, code: u32, ret: &[i128], g: &mut Ghost) -> Vec<Fail> {
    let mut bad: Vec<Fail> = vec![];
    let epoch = op.epoch();
    let parties: Vec<u64> = (0..=10u8).map(|i| pid(w, i)).collect();
    // a withdrawal whose payout transfer failed must fail as a whole
    if let MOp::Withdraw { who, .. } = op {
        let failed_payout = w.payout_failed.get();
        let a = pid(w, *who);
        if failed_payout && (code == 0 || post.esc(a) < pre.esc(a)) {
            bad.push(fail("C06", "withdraw-debited-without-payout", format!(
                "the payout transfer of a withdrawal of {} failed, yet the call returned exit {} and the escrow entry went {} -> {}",
                a, code, pre.esc(a), post.esc(a))));
        }
    }

    // ----- ghost update from what the implementation did -----
    if code == 0 {
        match op {
            MOp::AddBalance { who, value, .. } => *g.dep.entry(pid(w, *who)).or_insert(0) += *value,
            MOp::Withdraw { who, .. } => *g.wd.entry(pid(w, *who)).or_insert(0) += ret[0],
            _ => {}
        }
    }
    // new deals
    for (id, p) in &post.proposals {
        if !pre.proposals.contains_key(id) {
            if g.deals.contains_key(id) {
                bad.push(fail("C08", "deal-id-reused", format!("deal id {} stored twice", id)));
            }
            if *id < pre.next_id {
                bad.push(fail("C08", "deal-id-not-fresh", format!("new deal id {} below previous next_id {}", id, pre.next_id)));
            }
            g.deals.insert(*id, DealRec { prop: p.clone(), cid: post.cids[id], fate: Fate::Live, activated: None, early_settled: false });
        }
    }
    // removed deals: fate
    for (id, p) in &pre.proposals {
        if !post.proposals.contains_key(id) {
            let had_state = pre.states.contains_key(id);
            let fate = match op {
                MOp::Terminate { pepoch, .. } => Fate::Terminated(*pepoch),
                _ => if had_state { Fate::Completed } else { Fate::TimedOut },
            };
            match &fate {
                Fate::Completed => {
                    if epoch < p.end_epoch {
                        bad.push(fail("C07", "completed-before-end", format!("deal {} removed as completed at {} < end {}", id, epoch, p.end_epoch)));
                    }
                }
                Fate::TimedOut => {
                    if epoch < p.start_epoch {
                        bad.push(fail("C08", "timeout-before-start", format!("unactivated deal {} removed at {} < start {}", id, epoch, p.start_epoch)));
                    }
                }
                Fate::Terminated(t) => {
                    if !had_state {
                        bad.push(fail("C08", "terminated-unactivated", format!("deal {} terminated without state", id)));
                    }
                    if *t >= p.end_epoch {
                        bad.push(fail("C07", "terminated-after-end", format!("deal {} slashed at {} >= end {}", id, t, p.end_epoch)));
                    }
                }
                Fate::Live => {}
            }
            if let Some(r) = g.deals.get_mut(id) {
                r.fate = fate;
            }
            if post.states.contains_key(id) {
                bad.push(fail("C06", "state-without-proposal", format!("deal {} has a state but no proposal", id)));
            }
        }
    }
    // activation bookkeeping + lifecycle automaton
    for (id, s) in &post.states {
        let rec = match g.deals.get_mut(id) {
            Some(r) => r,
            None => {
                bad.push(fail("C06", "state-without-proposal", format!("state for unknown deal {}", id)));
                continue;
            }
        };
        match (&rec.activated, pre.states.get(id)) {
            (None, None) => {
                // activated by this op
                let (caller, ok_path) = match op {
                    MOp::Activate { caller, .. } | MOp::ContentChanged { caller, .. } => (pid(w, *caller), true),
                    _ => (0, false),
                };
                if !ok_path {
                    bad.push(fail("C08", "activated-by-wrong-method", format!("deal {} got a state from {:?}", id, op)));
                } else {
                    let p = &rec.prop;
                    if p.provider.id().unwrap() != caller {
                        bad.push(fail("C08", "activated-by-non-provider", format!("deal {} of provider {} activated by {}", id, p.provider, caller)));
                    }
                    if epoch > p.start_epoch {
                        bad.push(fail("C08", "activated-after-start", format!("deal {} start {} activated at {}", id, p.start_epoch, epoch)));
                    }
                    let expiry_ok = match op {
                        MOp::Activate { sectors, .. } => sectors.iter().any(|(sn, e, ids)| *sn == s.sector_number && ids.contains(id) && p.end_epoch <= *e),
                        MOp::ContentChanged { sectors, .. } => sectors.iter().any(|(sn, e, ps)| *sn == s.sector_number && ps.iter().any(|(o, _, _)| *o == Some(*id)) && p.end_epoch <= *e),
                        _ => false,
                    };
                    if !expiry_ok {
                        bad.push(fail("C08", "activated-in-short-sector", format!("deal {} end {} activated in a sector that does not outlive it", id, p.end_epoch)));
                    }
                    if s.sector_start_epoch != epoch || s.last_updated_epoch != -1 || s.slash_epoch != -1 {
                        bad.push(fail("C08", "bad-initial-state", format!("deal {} initial state {:?} at {}", id, s, epoch)));
                    }
                    if !pre.pending.contains(&rec.cid) {
                        bad.push(fail("C08", "activated-not-pending", format!("deal {} activated while its cid is not pending", id)));
                    }
                }
                rec.activated = Some(*s);
            }
            (Some(_), None) => {
                bad.push(fail("C08", "activated-twice", format!("deal {} got a second state", id)));
            }
            (first, Some(old)) => {
                if old.sector_number != s.sector_number || old.sector_start_epoch != s.sector_start_epoch {
                    bad.push(fail("C08", "activated-twice", format!("deal {} activation fields changed {:?} -> {:?}", id, old, s)));
                }
                if s.last_updated_epoch < old.last_updated_epoch {
                    bad.push(fail("C07", "last-updated-decreased", format!("deal {}: {} -> {}", id, old.last_updated_epoch, s.last_updated_epoch)));
                }
                if s.last_updated_epoch != old.last_updated_epoch && s.last_updated_epoch != epoch {
                    bad.push(fail("C07", "last-updated-not-now", format!("deal {}: last_updated {} at epoch {}", id, s.last_updated_epoch, epoch)));
                }
                if s.slash_epoch != -1 {
                    bad.push(fail("C07", "slashed-state-kept", format!("deal {} kept with slash epoch {}", id, s.slash_epoch)));
                }
                if old.last_updated_epoch == -1 && s.last_updated_epoch != -1 && s.last_updated_epoch <= rec.prop.start_epoch {
                    if matches!(op, MOp::Settle { .. }) {
                        rec.early_settled = true;
                    }
                }
                let _ = first;
            }
        }
    }

    // ----- C06: locked = obligations, locked <= escrow, totals, solvency -----
    let mut ob: BTreeMap<u64, i128> = BTreeMap::new();
    let (mut tc, mut tp, mut tf) = (0i128, 0i128, 0i128);
    for (id, p) in &post.proposals {
        let pu = paid_until(p, post.states.get(id));
        let fee = price(p) * (p.end_epoch - pu) as i128;
        let cc = i128_of(&p.client_collateral);
        let pc = i128_of(&p.provider_collateral);
        *ob.entry(p.client.id().unwrap()).or_insert(0) += cc + fee;
        *ob.entry(p.provider.id().unwrap()).or_insert(0) += pc;
        tc += cc;
        tp += pc;
        tf += fee;
    }
    let mut all: BTreeSet<u64> = parties.iter().cloned().collect();
    all.extend(post.escrow.keys());
    all.extend(post.locked.keys());
    all.extend(ob.keys());
    for a in &all {
        let o = ob.get(a).cloned().unwrap_or(0);
        if post.lck(*a) != o {
            bad.push(fail("C06", "locked-ne-obligations", format!("party {}: locked {} != obligations {}", a, post.lck(*a), o)));
        }
        if post.lck(*a) > post.esc(*a) {
            bad.push(fail("C06", "locked-gt-escrow", format!("party {}: locked {} > escrow {}", a, post.lck(*a), post.esc(*a))));
        }
        if post.esc(*a) < 0 || post.lck(*a) < 0 {
            bad.push(fail("C06", "negative-balance", format!("party {}: escrow {} locked {}", a, post.esc(*a), post.lck(*a))));
        }
    }
    if (post.tot_ccoll, post.tot_pcoll, post.tot_fee) != (tc, tp, tf) {
        bad.push(fail("C06", "totals-inexact", format!("totals {:?} != per-deal sums {:?}", (post.tot_ccoll, post.tot_pcoll, post.tot_fee), (tc, tp, tf))));
    }
    let esc_sum: i128 = post.escrow.values().sum();
    if esc_sum > post.balance {
        bad.push(fail("C06", "insolvent", format!("sum of escrow {} > market balance {}", esc_sum, post.balance)));
    }
    for id in post.states.keys() {
        if !post.proposals.contains_key(id) {
            bad.push(fail("C06", "state-without-proposal", format!("deal {} has a state but no proposal", id)));
        }
    }
    if let MOp::Withdraw { caller, who, amount, .. } = op {
        if code == 0 {
            let a = pid(w, *who);
            let avail = (pre.esc(a) - pre.lck(a)).max(0);
            let expect = avail.min(*amount);
            if ret[0] != expect {
                bad.push(fail("C06", "withdraw-inexact", format!("withdrew {} expected min({}, {})", ret[0], amount, avail)));
            }
            if post.esc(a) != pre.esc(a) - ret[0] {
                bad.push(fail("C06", "withdraw-inexact", format!("escrow {} -> {} after paying {}", pre.esc(a), post.esc(a), ret[0])));
            }
            let c = pid(w, *caller);
            let (payee_ok, auth_ok) = match target_of(w, &w.ids[*who as usize]) {
                Target::Miner(o, wk, _) => (ret[1] as u64 == o, c == o || c == wk),
                Target::Account => (ret[1] as u64 == a, c == a),
                Target::None => (false, false),
            };
            if !payee_ok {
                bad.push(fail("C06", "withdraw-wrong-payee", format!("withdrawal of {} paid to {}", a, ret[1])));
            }
            if !auth_ok {
                bad.push(fail("C06", "withdraw-unauthorised", format!("caller {} withdrew the funds of {}", c, a)));
            }
            for b in &all {
                if *b != a && post.esc(*b) != pre.esc(*b) {
                    bad.push(fail("C06", "withdraw-frame", format!("escrow of {} changed by a withdrawal of {}", b, a)));
                }
            }
            if pre.balance - post.balance != ret[0] {
                bad.push(fail("C06", "withdraw-inexact", format!("market balance moved by {} for a withdrawal of {}", pre.balance - post.balance, ret[0])));
            }
        }
    }
    if code != 0 {
        // a rejected message changes nothing
        if enc_state(pre) != enc_state(post) {
            bad.push(fail("C06", "rejected-changed-state", format!("exit {} but the state changed", code)));
        }
    }

    // ----- C07: escrow = deposits - withdrawals + closed-form deal payments -----
    let mut expect: BTreeMap<u64, i128> = BTreeMap::new();
    for a in &all {
        expect.insert(*a, g.dep.get(a).cloned().unwrap_or(0) - g.wd.get(a).cloned().unwrap_or(0));
    }
    let mut burnt_sum = 0i128;
    for (id, r) in &g.deals {
        let e = earned(r, post, *id);
        *expect.entry(r.prop.provider.id().unwrap()).or_insert(0) += e - burnt_of(r);
        *expect.entry(r.prop.client.id().unwrap()).or_insert(0) -= e;
        burnt_sum += burnt_of(r);
    }
    for (a, x) in &expect {
        if post.esc(*a) != *x {
            bad.push(fail("C07", "escrow-ne-closed-form", format!("party {}: escrow {} != deposits - withdrawals + closed-form payments {}", a, post.esc(*a), x)));
        }
    }
    if post.burnt != burnt_sum {
        bad.push(fail("C07", "burn-inexact", format!("burnt {} != sum of forfeited provider collateral {}", post.burnt, burnt_sum)));
    }
    if let MOp::Settle { ids, .. } = op {
        if code == 0 {
            // returned payments are the closed-form increments
            let mut ss = ids.clone();
            ss.sort();
            ss.dedup();
            let nf = ret[1] as usize;
            let fails: BTreeSet<u64> = (0..nf).map(|k| ret[2 + 2 * k] as u64).collect();
            let base = 2 + 2 * nf;
            let mut k = 0usize;
            for (i, id) in ss.iter().enumerate() {
                if fails.contains(&(i as u64)) {
                    continue;
                }
                let pay = ret[base + 1 + 2 * k];
                let completed = ret[base + 2 + 2 * k] != 0;
                k += 1;
                if let Some(p) = pre.proposals.get(id) {
                    let before = paid_until(p, pre.states.get(id));
                    let after = if post.proposals.contains_key(id) { paid_until(p, post.states.get(id)) } else { p.end_epoch };
                    let exp = if pre.states.contains_key(id) { price(p) * (after - before) as i128 } else { 0 };
                    if pay != exp {
                        bad.push(fail("C07", "settle-payment-inexact", format!("deal {}: reported payment {} != price * ({} - {})", id, pay, after, before)));
                    }
                    if completed != !post.proposals.contains_key(id) {
                        bad.push(fail("C07", "settle-completed-flag", format!("deal {}: completed flag {} but removed = {}", id, completed, !post.proposals.contains_key(id))));
                    }
                }
            }
        }
    }

    // ----- C07: an accepted sector termination ends every running deal recorded for the sector -----
    if let MOp::Terminate { caller, pepoch, sectors, .. } = op {
        if code == 0 {
            let prov = pid(w, *caller);
            for sn in sectors {
                if let Some(ids) = pre.psectors.get(&(prov, *sn)) {
                    for id in ids {
                        if let (Some(p), true) = (pre.proposals.get(id), pre.states.contains_key(id)) {
                            if p.end_epoch > *pepoch && post.proposals.contains_key(id) {
                                bad.push(fail("C07", "terminated-sector-deal-survives", format!(
                                    "sector {} of provider {} was terminated at epoch {} but its deal {} (end {}) is still live: it will be paid to its nominal end and the collateral released",
                                    sn, prov, pepoch, id, p.end_epoch)));
                            }
                        }
                    }
                }
            }
        }
    }

    // ----- C08: a deal is activated at most once (read off the RETURN value of the activation message) -----
    if code == 0 {
        let mut activated: Vec<u64> = vec![];
        match op {
            MOp::Activate { sectors, .. } => {
                let nf = ret[1] as usize;
                let failed: BTreeSet<usize> = (0..nf).map(|k| ret[2 + 2 * k] as usize).collect();
                let mut pos = 2 + 2 * nf;
                for (si, (_, _, ids)) in sectors.iter().enumerate() {
                    if failed.contains(&si) {
                        continue;
                    }
                    // the i-th reported activation belongs to the i-th successful sector, entry by entry
                    let n = ret.get(pos).cloned().unwrap_or(-1);
                    if n != ids.len() as i128 {
                        bad.push(fail("C08", "activation-return-mismatch", format!("sector #{} has {} deal ids but {} activations were reported", si, ids.len(), n)));
                    }
                    pos += 1 + 2 * n.max(0) as usize;
                    activated.extend(ids.iter().cloned());
                }
            }
            MOp::ContentChanged { sectors, .. } => {
                let mut pos = 1;
                for (_, _, ps) in sectors {
                    let n = ret.get(pos).cloned().unwrap_or(0) as usize;
                    for (k, (oid, _, _)) in ps.iter().enumerate() {
                        if k < n && ret.get(pos + 1 + k).cloned().unwrap_or(0) != 0 {
                            match oid {
                                Some(id) => activated.push(*id),
                                None => bad.push(fail("C08", "activation-return-mismatch", "a piece without a deal id was accepted".to_string())),
                            }
                        }
                    }
                    pos += 1 + n;
                }
            }
            _ => {}
        }
        let mut seen: BTreeSet<u64> = BTreeSet::new();
        for id in &activated {
            if !seen.insert(*id) {
                bad.push(fail("C08", "deal-activated-twice", format!("deal {} is reported as activated more than once by one message", id)));
            }
            if pre.states.contains_key(id) {
                bad.push(fail("C08", "deal-activated-twice", format!("deal {} is reported as activated although it already had a deal state", id)));
            }
        }
    }

    // ----- C08: ids, publication conditions, uniqueness -----
    if post.next_id < pre.next_id {
        bad.push(fail("C08", "next-id-decreased", format!("{} -> {}", pre.next_id, post.next_id)));
    }
    if let MOp::Publish { .. } = op {
        if code == 19 || code == 20 {
            // the filtering loop must leave only deals whose lock-up succeeds
            bad.push(fail("C08", "publish-lock-failed", format!("PublishStorageDeals aborted with exit {} while locking funds of deals it had accepted", code)));
        }
    }
    if let MOp::Publish { deals, .. } = op {
        if code == 0 {
            let n = ret[0] as usize;
            let ids: Vec<u64> = ret[1..1 + n].iter().map(|x| *x as u64).collect();
            let m = ret[1 + n] as usize;
            let idx: Vec<usize> = ret[2 + n..2 + n + m].iter().map(|x| *x as usize).collect();
            let mut prev = g.max_id_returned;
            for i in &ids {
                if let Some(p) = prev {
                    if *i <= p {
                        bad.push(fail("C08", "ids-not-increasing", format!("returned id {} after {}", i, p)));
                    }
                }
                prev = Some(*i);
                if *i >= post.next_id {
                    bad.push(fail("C08", "id-ge-next-id", format!("returned id {} >= next_id {}", i, post.next_id)));
                }
            }
            g.max_id_returned = prev.or(g.max_id_returned);
            if n != m {
                bad.push(fail("C08", "ids-valid-mismatch", format!("{} ids for {} valid deals", n, m)));
            }
            // every accepted deal: authenticated, funded (cumulatively), not a pending duplicate
            let mut cl: BTreeMap<u64, i128> = BTreeMap::new();
            let mut pl = 0i128;
            let mut seen: Vec<Cid> = vec![];
            for di in &idx {
                let d = &deals[*di];
                let inp = deal_inputs(w, d);
                if !inp.sig_ok {
                    bad.push(fail("C08", "published-unauthenticated", format!("deal #{} accepted without the client's signature", di)));
                }
                let c = pid(w, d.client);
                let pr = pid(w, d.provider);
                let need = cl.get(&c).cloned().unwrap_or(0) + d.ccoll + d.price * (d.end - d.start) as i128;
                if pre.lck(c) + need > pre.esc(c) {
                    bad.push(fail("C08", "published-unfunded-client", format!("deal #{}: client {} lock-up {} exceeds unlocked escrow", di, c, need)));
                }
                cl.insert(c, need);
                pl += d.pcoll;
                if pre.lck(pr) + pl > pre.esc(pr) {
                    bad.push(fail("C08", "published-unfunded-provider", format!("deal #{}: provider {} lock-up {} exceeds unlocked escrow", di, pr, pl)));
                }
                let mut np = build_proposal(w, d);
                np.client = w.ids[d.client as usize];
                let c = deal_cid_of(w, &np);
                if pre.pending.contains(&c) || seen.contains(&c) {
                    bad.push(fail("C08", "published-pending-duplicate", format!("deal #{} accepted although an identical proposal is pending", di)));
                }
                seen.push(c);
            }
        }
    }
    // no two live deals share a proposal CID
    let mut by_cid: BTreeMap<Cid, Vec<u64>> = BTreeMap::new();
    for (id, c) in &post.cids {
        by_cid.entry(*c).or_default().push(*id);
    }
    for (_, ids) in by_cid {
        if ids.len() > 1 {
            let newly = ids.iter().any(|i| !pre.proposals.contains_key(i));
            if newly {
                let early = ids.iter().any(|i| g.deals.get(i).map(|r| r.early_settled).unwrap_or(false));
                if early {
                    bad.push(fail("C08", "F3-republish-after-early-settle", format!("deals {:?} are live with one client signature: the first was settled at or before its start epoch, which removed it from the pending set", ids)));
                } else {
                    bad.push(fail("C08", "duplicate-live-proposal", format!("deals {:?} are live with the same proposal CID", ids)));
                }
            }
        }
    }
    // while a live deal can still be re-published (epoch <= start) its cid is pending
    for (id, p) in &post.proposals {
        if epoch <= p.start_epoch && !post.pending.contains(&post.cids[id]) && !(g.last_was_cron_at(epoch, op)) {
            let early = g.deals.get(id).map(|r| r.early_settled).unwrap_or(false);
            let newly = pre.pending.contains(&post.cids[id]);
            if newly {
                if early {
                    bad.push(fail("C08", "F3-republish-after-early-settle", format!("deal {} (start {}) left the pending set at epoch {} by an early settlement: the identical signed proposal can be published again", id, p.start_epoch, epoch)));
                } else {
                    bad.push(fail("C08", "pending-dropped-before-start", format!("deal {} (start {}) left the pending set at epoch {}", id, p.start_epoch, epoch)));
                }
            }
        }
    }
    g.last_was_cron = matches!(op, MOp::Cron { .. }) && code == 0;
    bad
}

impl Ghost {
    /// a cron tick at the start epoch legitimately removes the pending entry (cron runs last in its epoch)
    fn last_was_cron_at(&self, _epoch: i64, op: &MOp) -> bool {
        matches!(op, MOp::Cron { .. })
    }
}

// ---------- generator ----------
fn kind(op: &MOp) -> &'static str {
    match op {
        MOp::AddBalance { .. } => "add_balance",
        MOp::Withdraw { .. } => "withdraw",
        MOp::Publish { .. } => "publish",
        MOp::Activate { .. } => "activate",
        MOp::ContentChanged { .. } => "content_changed",
        MOp::Terminate { .. } => "terminate",
        MOp::Settle { .. } => "settle",
        MOp::Cron { .. } => "cron",
        MOp::GetBalance { .. } => "get_balance",
    }
}

fn gen_deal(r: &mut Prng, w: &World, s: &Snap, epoch: i64) -> PDeal {
    // a deal that is valid in the current state (when the parties are funded) ...
    let size = match r.below(100) { 0..=84 => 2048u64, 85..=92 => 128, _ => 4096 };
    let minp = min_pcoll(w, size);
    let avail = |a: u64| (s.esc(a) - s.lck(a)).max(0);
    let provs: Vec<u8> = MINERS.iter().cloned().filter(|m| avail(pid(w, *m)) >= minp).collect();
    let provider = if !provs.is_empty() && r.chance(90) { *r.pick(&provs) } else { *r.pick(&MINERS) };
    let start = epoch + match r.below(100) { 0..=14 => 0, 15..=29 => 1, 30..=54 => r.range(2, 9), 55..=89 => r.range(10, 400), _ => r.range(400, 4000) };
    let dur = match r.below(100) { 0..=69 => MIN_DUR, 70..=86 => MIN_DUR + r.range(1, 500), 87..=96 => MIN_DUR + r.range(500, 100_000), _ => MAX_DUR };
    let price: i128 = match r.below(100) { 0..=9 => 0, 10..=84 => r.range(1, 50) as i128, _ => r.range(50, 3000) as i128 };
    let ccoll: i128 = match r.below(100) { 0..=39 => 0, _ => r.range(1, 1_000_000) as i128 };
    let need = ccoll + price * dur as i128;
    let cls: Vec<u8> = CLIENTS.iter().cloned().filter(|c| avail(pid(w, *c)) >= need).collect();
    let client = if !cls.is_empty() && r.chance(90) { *r.pick(&cls) } else { *r.pick(&CLIENTS) };
    let pavail = avail(pid(w, provider));
    let pcoll = match r.below(100) { 0..=59 => minp, 60..=89 => minp + r.range(1, 100_000) as i128, _ => if pavail >= minp { pavail } else { minp * 2 } };
    let mut d = PDeal {
        client,
        client_key_form: r.chance(20),
        provider,
        piece: r.below(4) as u8,
        size,
        verified: false,
        label: r.below(3) as u16,
        start,
        end: start + dur,
        price,
        pcoll,
        ccoll,
        sig: 0,
        bad_piece_cid: false,
    };
    // ... with at most one defect or boundary mutation
    if r.chance(24) {
        match r.below(20) {
            0 => d.provider = if r.chance(60) { P_STRANGER } else { P_NOBODY },
            1 => d.size = *r.pick(&[100u64, 2047, 64]),
            2 => d.start = epoch - 1,
            3 => { d.end = d.start + MIN_DUR - 1 }
            4 => { d.end = d.start + MAX_DUR + 1 }
            5 => { d.end = d.start - r.range(0, 3) }
            6 => d.price = -1,
            7 => d.price = 2_000_000_000i128 * 1_000_000_000_000_000_000 + 1,
            8 => d.pcoll = minp - 1,
            9 => d.pcoll = 0,
            10 => d.ccoll = -1,
            11 => d.verified = true,
            12 => d.label = 1000 + r.below(3) as u16,
            13 => d.sig = 1,
            14 => d.sig = 2,
            15 => d.bad_piece_cid = true,
            16 => d.pcoll = pavail + 1,
            17 => { let ca = avail(pid(w, d.client)); d.ccoll = (ca - d.price * (d.end - d.start) as i128 + 1).max(0) }
            18 => { let ca = avail(pid(w, d.client)); d.ccoll = (ca - d.price * (d.end - d.start) as i128).max(0) }
            _ => d.start = epoch,
        }
    }
    d
}

fn live_unactivated(s: &Snap, prov: Option<u64>) -> Vec<u64> {
    s.proposals.iter().filter(|(id, p)| !s.states.contains_key(id) && prov.map(|x| p.provider.id().unwrap() == x).unwrap_or(true)).map(|(id, _)| *id).collect()
}

fn gen_op(r: &mut Prng, w: &World, s: &Snap, g: &mut Ghost, epoch: &mut i64, step: usize) -> MOp {
    // epoch advance
    let live: Vec<(u64, i64, i64)> = s.proposals.iter().map(|(id, p)| (*id, p.start_epoch, p.end_epoch)).collect();
    let mut adv = match r.below(100) { 0..=49 => 0, 50..=69 => 1, 70..=84 => r.range(2, 30), _ => r.range(30, 600) };
    if g.last_was_cron && adv == 0 {
        adv = 1;
    }
    let mut e = *epoch + adv;
    if !live.is_empty() && r.chance(if step > 12 { 22 } else { 8 }) {
        let (_, st, en) = *r.pick(&live);
        let cand = [st - 1, st, st + 1, (st + en) / 2, en - 1, en, en + 1, en + w.v.policy.deal_updates_interval];
        let c = *r.pick(&cand);
        if c > *epoch {
            e = c;
        }
    } else if !s.deal_ops.is_empty() && r.chance(10) {
        let ks: Vec<i64> = s.deal_ops.keys().cloned().collect();
        let c = *r.pick(&ks) + r.range(-1, 1);
        if c > *epoch {
            e = c;
        }
    }
    *epoch = e;
    let epoch = *epoch;
    let any_party = |r: &mut Prng| r.below(11) as u8;
    let funded = s.escrow.len() >= 3;
    let k = r.below(100);
    if step < 4 || (!funded && k < 60) || k < 9 {
        // deposits
        let who = match r.below(100) { 0..=54 => *r.pick(&CLIENTS), 55..=94 => *r.pick(&MINERS), 95..=97 => any_party(r), _ => P_NOBODY };
        let from = match r.below(100) { 0..=59 if who <= 2 => who, 0..=59 => who + 2, _ => P_STRANGER };
        let from = if from > 10 { P_STRANGER } else { from };
        let value: i128 = match r.below(100) {
            0..=2 => 0,
            3..=59 if who <= 2 => r.range(100_000_000, 4_000_000_000) as i128,
            3..=59 => r.range(40_000_000_000, 400_000_000_000) as i128,
            _ => r.range(1, 50_000_000_000) as i128,
        };
        return MOp::AddBalance { from, epoch, who, value };
    }
    match k {
        9..=15 => {
            let who = match r.below(100) { 0..=89 => { let ks: Vec<u64> = s.escrow.keys().cloned().collect(); if ks.is_empty() { 0 } else { idx_of(w, *r.pick(&ks)).unwrap_or(0) } } 90..=96 => any_party(r), _ => P_NOBODY };
            let a = pid(w, who);
            let avail = (s.esc(a) - s.lck(a)).max(0);
            let amount = match r.below(100) { 0..=29 => avail, 30..=44 => avail + 1, 45..=59 => (avail - 1).max(0), 60..=84 => r.below((avail.min(1 << 60) as u64).max(1)) as i128, 85..=92 => s.esc(a) + 5, 93..=96 => 0, _ => -1 };
            let caller = match (r.below(100), who) {
                (0..=69, 3) => *r.pick(&[5u8, 7]),
                (0..=69, 4) => *r.pick(&[6u8, 8]),
                (0..=69, x) if x <= 10 => x,
                (70..=84, 3) => P_CTRL,
                _ => any_party(r),
            };
            let fail = if r.chance(12) { Some(*r.pick(&[22u32, 40])) } else { None };
            MOp::Withdraw { caller, epoch, who, amount, fail }
        }
        16..=42 => {
            let n = match r.below(100) { 0..=54 => 1, 55..=79 => 2, 80..=92 => 3, 93..=97 => 5, _ => 0 };
            let mut deals: Vec<PDeal> = vec![];
            for _ in 0..n {
                let d = if !g.templates.is_empty() && r.chance(22) {
                    let mut t = r.pick(&g.templates).clone();
                    if r.chance(30) { t.client_key_form = !t.client_key_form; }
                    t
                } else if !deals.is_empty() && r.chance(15) {
                    deals[0].clone()
                } else {
                    let mut d = gen_deal(r, w, s, epoch);
                    if !deals.is_empty() && r.chance(85) { d.provider = deals[0].provider; }
                    d
                };
                deals.push(d);
            }
            // cumulative lock-up boundary inside one batch: the second deal of the same client / provider
            // fits exactly, or misses by one attoFIL, on top of the first
            if deals.len() >= 2 && r.chance(30) {
                let first = deals[0].clone();
                let avail = |a: u64| (s.esc(a) - s.lck(a)).max(0);
                let d1 = &mut deals[1];
                d1.provider = first.provider;
                if r.chance(60) {
                    d1.client = first.client;
                    let rem = avail(pid(w, first.client)) - (first.ccoll + first.price * (first.end - first.start) as i128);
                    let fee1 = d1.price * (d1.end - d1.start) as i128;
                    if rem >= fee1 && d1.price >= 0 {
                        d1.ccoll = rem - fee1 + r.below(2) as i128;
                    }
                } else if first.provider <= 10 {
                    let rem = avail(pid(w, first.provider)) - first.pcoll;
                    if rem >= min_pcoll(w, d1.size) {
                        d1.pcoll = rem + r.below(2) as i128;
                    }
                }
            }
            for d in &deals {
                if g.templates.len() < 12 && !g.templates.contains(d) {
                    g.templates.push(d.clone());
                }
            }
            let prov = deals.first().map(|d| d.provider).unwrap_or(3);
            let caller = match (r.below(100), prov) {
                (0..=89, 3) => *r.pick(&[7u8, 9, 5]),
                (0..=89, 4) => *r.pick(&[8u8, 6]),
                (90..=93, 4) => P_CTRL,
                _ => any_party(r),
            };
            MOp::Publish { caller, epoch, deals }
        }
        43..=57 => {
            let caller = match r.below(100) { 0..=46 => 3u8, 47..=93 => 4, _ => any_party(r) };
            let cid = pid(w, caller);
            let mine = live_unactivated(s, Some(cid));
            let anyl: Vec<u64> = s.proposals.keys().cloned().collect();
            // duplicates that are not neighbours: [a, b, a] in one sector, or a again in a later sector
            let ready: Vec<u64> = mine.iter().cloned().filter(|i| s.proposals[i].start_epoch >= epoch).collect();
            if ready.len() >= 2 && r.chance(18) {
                let a = *r.pick(&ready);
                let others: Vec<u64> = ready.iter().cloned().filter(|x| *x != a).collect();
                let b = *r.pick(&others);
                let max_end = s.proposals[&a].end_epoch.max(s.proposals[&b].end_epoch) + r.range(0, 1000);
                let sectors = if r.chance(50) {
                    vec![(1 + r.below(5), max_end, vec![a, b, a])]
                } else {
                    vec![(1 + r.below(5), max_end, vec![a]), (1 + r.below(5), max_end, vec![b, a])]
                };
                return MOp::Activate { caller, epoch, sectors };
            }
            let ns = match r.below(100) { 0..=64 => 1, 65..=89 => 2, 90..=96 => 3, _ => 0 };
            let mut sectors = vec![];
            let mut used: Vec<u64> = vec![];
            for _ in 0..ns {
                let nd = match r.below(100) { 0..=59 => 1, 60..=84 => 2, 85..=94 => 3, _ => 0 };
                let mut ids = vec![];
                for _ in 0..nd {
                    let fresh: Vec<u64> = mine.iter().filter(|x| !used.contains(x)).cloned().collect();
                    let id = match r.below(100) {
                        0..=74 if !fresh.is_empty() => *r.pick(&fresh),
                        0..=84 if !anyl.is_empty() => *r.pick(&anyl),
                        0..=92 if !used.is_empty() => *r.pick(&used),
                        0..=96 => r.below(s.next_id.max(1)),
                        _ => s.next_id + r.below(2),
                    };
                    used.push(id);
                    ids.push(id);
                }
                let max_end = ids.iter().filter_map(|i| s.proposals.get(i).map(|p| p.end_epoch)).max().unwrap_or(epoch + MIN_DUR);
                let expiry = match r.below(100) { 0..=59 => max_end, 60..=84 => max_end + r.range(1, 100_000), _ => max_end - 1 };
                sectors.push((1 + r.below(5), expiry, ids));
            }
            MOp::Activate { caller, epoch, sectors }
        }
        58..=63 => {
            let caller = match r.below(100) { 0..=46 => 3u8, 47..=93 => 4, _ => any_party(r) };
            let cid = pid(w, caller);
            let mine = live_unactivated(s, Some(cid));
            let anyl: Vec<u64> = s.proposals.keys().cloned().collect();
            let ns = match r.below(100) { 0..=69 => 1, 70..=94 => 2, _ => 0 };
            let mut sectors = vec![];
            let mut used: Vec<u64> = vec![];
            for _ in 0..ns {
                let np = match r.below(100) { 0..=54 => 1, 55..=84 => 2, 85..=94 => 3, _ => 0 };
                let mut ps = vec![];
                let mut max_end = epoch + MIN_DUR;
                for _ in 0..np {
                    let fresh: Vec<u64> = mine.iter().filter(|x| !used.contains(x)).cloned().collect();
                    let id = match r.below(100) {
                        0..=74 if !fresh.is_empty() => *r.pick(&fresh),
                        0..=86 if !anyl.is_empty() => *r.pick(&anyl),
                        0..=93 if !used.is_empty() => *r.pick(&used),
                        _ => s.next_id + r.below(2),
                    };
                    used.push(id);
                    let (piece, size) = match s.proposals.get(&id) {
                        Some(p) => {
                            max_end = max_end.max(p.end_epoch);
                            (piece_index(&p.piece_cid).max(0) as u8, p.piece_size.0)
                        }
                        None => (0, 2048),
                    };
                    let piece = if r.chance(8) { piece.wrapping_add(1) % 4 } else { piece };
                    let size = if r.chance(8) { size * 2 } else { size };
                    ps.push((if r.chance(95) { Some(id) } else { None }, piece, size));
                }
                let mce = if r.chance(85) { max_end + r.range(0, 1000) } else { max_end - 1 };
                sectors.push((1 + r.below(5), mce, ps));
            }
            MOp::ContentChanged { caller, epoch, sectors }
        }
        64..=69 => {
            let caller = match r.below(100) { 0..=46 => 3u8, 47..=93 => 4, _ => any_party(r) };
            let cid = pid(w, caller);
            let mine: Vec<u64> = s.psectors.keys().filter(|(p, _)| *p == cid).map(|(_, x)| *x).collect();
            let n = match r.below(100) { 0..=69 => 1, 70..=89 => 2, _ => 0 };
            let mut sectors = vec![];
            for _ in 0..n {
                sectors.push(if !mine.is_empty() && r.chance(85) { *r.pick(&mine) } else { 1 + r.below(6) });
            }
            MOp::Terminate { caller, epoch, pepoch: epoch, sectors }
        }
        70..=86 => {
            let anyl: Vec<u64> = s.proposals.keys().cloned().collect();
            let act: Vec<u64> = s.states.keys().cloned().collect();
            let n = match r.below(100) { 0..=54 => 1, 55..=79 => 2, 80..=94 => 3, _ => 0 };
            let mut ids = vec![];
            for _ in 0..n {
                ids.push(match r.below(100) {
                    0..=54 if !act.is_empty() => *r.pick(&act),
                    0..=84 if !anyl.is_empty() => *r.pick(&anyl),
                    0..=94 => r.below(s.next_id.max(1)),
                    _ => s.next_id + r.below(3),
                });
            }
            MOp::Settle { caller: any_party(r), epoch, ids }
        }
        87..=95 if (epoch - s.last_cron <= 50_000 || g.costly_crons < 2) => {
            if epoch - s.last_cron > 50_000 { g.costly_crons += 1; }
            MOp::Cron { caller: if r.chance(95) { P_CRON } else { any_party(r) }, epoch }
        }
        87..=95 => {
            let act: Vec<u64> = s.proposals.keys().cloned().collect();
            MOp::Settle { caller: any_party(r), epoch, ids: if act.is_empty() { vec![0] } else { vec![*r.pick(&act)] } }
        }
        _ => MOp::GetBalance { epoch, who: if r.chance(88) { any_party(r) } else { P_NOBODY }, key_form: r.chance(35) },
    }
}

// ---------- running one history ----------
struct CaseOut {
    case: Case,
    done: MCase,
    fails: Vec<serde_json::Value>,
    stats: Stats,
    f3_hits: u64,
    /// (fate of deal 0, escrow and locked of client 0 and of miner 3, burnt) at the end of the history
    fin: Option<(String, [i128; 5])>,
}

fn run_case(mc: &MCase, genr: Option<(Prng, usize)>, prop: &str) -> CaseOut {
    let w = setup(mc.interval);
    // schedule cases are built before a VM exists: pcoll = 0 stands for "the current minimum"
    let mut mc = mc.clone();
    for op in mc.ops.iter_mut() {
        if let MOp::Publish { deals, .. } = op {
            for d in deals.iter_mut() {
                if d.pcoll == 0 && d.ccoll == 777 {
                    d.pcoll = min_pcoll(&w, d.size);
                }
            }
        }
    }
    let mc = &mc;
    let mut stats = Stats::default();
    let mut snap = snapshot(&w);
    let init = format!("init {}", cf::z(mc.interval));
    let mut steps = vec![];
    let mut done: Vec<MOp> = vec![];
    let mut fails = vec![];
    let mut g = Ghost::default();
    let (mut acc, mut rej) = (false, false);
    let mut epoch = 0i64;
    let mut genr = genr;
    let n = match &genr { Some((_, n)) => *n, None => mc.ops.len() };
    let mut f3_hits = 0;
    for i in 0..n {
        let op = match &mut genr { Some((r, _)) => gen_op(r, &w, &snap, &mut g, &mut epoch, i), None => mc.ops[i].clone() };
        let coq = coq_op(&w, &op);
        let t0 = std::time::Instant::now();
        let (mut c, ret) = run_op(&w, &op);
        if std::env::var("MARKET_TIME").is_ok() {
            eprintln!("TIME {} {}", kind(&op), t0.elapsed().as_micros());
        }
        // harness-VM quirk (inherited from test_vm): validate_immediate_caller_type answers
        // SYS_ASSERTION_FAILED (10) where the production runtime (runtime/src/runtime/fvm.rs) answers
        // USR_FORBIDDEN (18); the model follows the production runtime
        if c == 10 {
            if let MOp::Activate { caller, .. } | MOp::ContentChanged { caller, .. } | MOp::Terminate { caller, .. } = &op {
                if !is_miner(&w, &w.ids[*caller as usize]) { c = 18; }
            }
        }
        let post = snapshot(&w);
        stats.op(kind(&op), c);
        if c == 0 && !matches!(op, MOp::GetBalance { .. }) { acc = true }
        if c != 0 { rej = true }
        let bad = monitor(&w, &op, &snap, &post, c, &ret, &mut g);
        done.push(op.clone());
        for b in bad {
            if b.class.starts_with("F3") { f3_hits += 1; }
            if b.prop == prop {
                fails.push(json!({"class": b.class, "step": i, "what": [b.what], "case": MCase { interval: mc.interval, ops: done.clone() }}));
            }
        }
        for p in w.v.panics.borrow().iter() { stats.panics.push(p.clone()); }
        w.v.panics.borrow_mut().clear();
        // observation: return values, fingerprints of newly stored proposals, state
        let mut o: Vec<String> = vec![cf::z(1 + ret.len()), cf::z(c)];
        o.extend(ret.iter().map(cf::z));
        let newp: Vec<&DealProposal> = post.proposals.iter().filter(|(k, _)| **k >= snap.next_id).map(|(_, p)| p).collect();
        o.push(cf::z(newp.len()));
        for p in newp {
            o.push(cf::z(fp_of(p, &piece_index, &label_index)));
        }
        o.extend(enc_state(&post));
        steps.push((coq, o));
        snap = post;
    }
    let fin = g.deals.get(&0).map(|r| {
        let (c, m) = (pid(&w, 0), pid(&w, 3));
        (format!("{:?}", r.fate), [snap.esc(c), snap.lck(c), snap.esc(m), snap.lck(m), snap.burnt])
    });
    CaseOut { case: Case { init, steps, nontrivial: acc && rej }, done: MCase { interval: mc.interval, ops: done }, fails, stats, f3_hits, fin }
}

/// C07: every schedule of three (epoch, Settle | Cron | Terminate) events with non-decreasing epochs
/// taken from {s-1, s, s+1, mid, e-1, e, e+1, e+interval} on one activated deal, followed by a final
/// settlement after the end; 120 epoch triples x 27 kind triples = 3240 schedules
fn schedules(interval: i64) -> Vec<MCase> {
    let s = 100i64;
    let e = s + MIN_DUR;
    let b = [s - 1, s, s + 1, (s + e) / 2, e - 1, e, e + 1, e + interval];
    let deal = PDeal {
        client: 0, client_key_form: false, provider: 3, piece: 1, size: 2048, verified: false, label: 0,
        start: s, end: e, price: 10, pcoll: 0, ccoll: 777, sig: 0, bad_piece_cid: false,
    };
    let mut out = vec![];
    for i in 0..8 {
        for j in i..8 {
            for k in j..8 {
                for kinds in 0..27u32 {
                    let mut ops = vec![
                        MOp::AddBalance { from: 0, epoch: 0, who: 0, value: 100_000_000 },
                        MOp::AddBalance { from: 5, epoch: 0, who: 3, value: 100_000_000_000 },
                        MOp::Publish { caller: 7, epoch: 5, deals: vec![deal.clone()] },
                        MOp::Activate { caller: 3, epoch: 10, sectors: vec![(1, e + interval + 10, vec![0])] },
                    ];
                    let mut kk = kinds;
                    for ep in [b[i], b[j], b[k]] {
                        ops.push(match kk % 3 {
                            0 => MOp::Settle { caller: P_STRANGER, epoch: ep, ids: vec![0] },
                            1 => MOp::Cron { caller: P_CRON, epoch: ep },
                            _ => MOp::Terminate { caller: 3, epoch: ep, pepoch: ep, sectors: vec![1] },
                        });
                        kk /= 3;
                    }
                    ops.push(MOp::Settle { caller: P_STRANGER, epoch: e + interval + 1, ids: vec![0] });
                    ops.push(MOp::Withdraw { caller: 0, epoch: e + interval + 2, who: 0, amount: 1 << 62, fail: None });
                    out.push(MCase { interval, ops });
                }
            }
        }
    }
    out
}

/// C07: one sector holding two deals with different end epochs (deal 0 ends first), terminated at epochs
/// around both ends, with or without a settlement / cron tick of the first deal before, and with or
/// without an unknown (deal-less) sector listed before the real one in the termination notice
fn two_deal_cases(interval: i64) -> Vec<MCase> {
    let s = 100i64;
    let ea = s + MIN_DUR;
    let eb = ea + 1000;
    let mk = |piece: u8, end: i64| PDeal {
        client: 0, client_key_form: false, provider: 3, piece, size: 2048, verified: false, label: 0,
        start: s, end, price: 10, pcoll: 0, ccoll: 777, sig: 0, bad_piece_cid: false,
    };
    let mut out = vec![];
    for t in [ea - 1, ea, ea + 1, ea + 500, eb - 1, eb, eb + 1] {
        for before in 0..3 {
            for unknown_first in [false, true] {
                let mut ops = vec![
                    MOp::AddBalance { from: 0, epoch: 0, who: 0, value: 100_000_000 },
                    MOp::AddBalance { from: 5, epoch: 0, who: 3, value: 100_000_000_000 },
                    MOp::Publish { caller: 7, epoch: 5, deals: vec![mk(1, ea), mk(2, eb)] },
                    MOp::Activate { caller: 3, epoch: 10, sectors: vec![(3, eb + interval + 10, vec![0, 1])] },
                ];
                match before {
                    1 => ops.push(MOp::Settle { caller: P_STRANGER, epoch: t - 1, ids: vec![0] }),
                    2 => ops.push(MOp::Cron { caller: P_CRON, epoch: t - 1 }),
                    _ => {}
                }
                ops.push(MOp::Terminate { caller: 3, epoch: t, pepoch: t, sectors: if unknown_first { vec![1, 3] } else { vec![3] } });
                ops.push(MOp::Settle { caller: P_STRANGER, epoch: eb + interval + 1, ids: vec![0, 1] });
                ops.push(MOp::Withdraw { caller: 0, epoch: eb + interval + 2, who: 0, amount: 1 << 62, fail: None });
                out.push(MCase { interval, ops });
            }
        }
    }
    out
}

fn merge(into: &mut Stats, s: Stats) {
    for (k, v) in s.op_hist { *into.op_hist.entry(k).or_insert(0) += v; }
    for (k, v) in s.code_hist { *into.code_hist.entry(k).or_insert(0) += v; }
    for (k, v) in s.accepted { *into.accepted.entry(k).or_insert(0) += v; }
    into.panics.extend(s.panics);
}

fn main() {
    let a = cf::parse_args();
    let prop: String = a.rest.get("prop").cloned().unwrap_or_else(|| "C06".to_string());
    let tag = if a.rest.get("mode").map(|m| m == "sched").unwrap_or(false) { format!("marketsched_{}", prop) } else { format!("market_{}", prop) };
    let mut stats = Stats::default();
    let header = "From VF Require Import Model.Market Base.Corr.\nFrom Coq Require Import ZArith List.\nImport ListNotations.\nOpen Scope Z_scope.\n";
    let mut cw = CaseWriter::new(&a.out, header, "check_case", a.shards);
    let mut f3_total = 0u64;
    let mut absorb = |o: CaseOut, cw: &mut CaseWriter, stats: &mut Stats| {
        cw.push(o.case);
        for f in o.fails { stats.monitor_fail(f); }
        merge(stats, o.stats);
        f3_total += o.f3_hits;
    };
    if let Some(p) = &a.replay {
        let v: serde_json::Value = serde_json::from_str(&std::fs::read_to_string(p).unwrap()).unwrap();
        let case = if v.get("violation").is_some() { v["violation"]["detail"]["case"].clone() } else { v["case"].clone() };
        let mc: MCase = serde_json::from_value(case).unwrap();
        let o = run_case(&mc, None, &prop);
        absorb(o, &mut cw, &mut stats);
        stats.extra.insert("f3_hits".into(), json!(f3_total));
        cw.finish(&stats, &tag);
        return;
    }
    // corpus first (shared by the three properties)
    for dir in ["C06", "C07", "C08"] {
        let corpus = std::path::Path::new(env!("CARGO_MANIFEST_DIR")).join("../corpus").join(dir);
        if let Ok(rd) = std::fs::read_dir(&corpus) {
            let mut files: Vec<_> = rd.filter_map(|e| e.ok()).map(|e| e.path()).collect();
            files.sort();
            for f in files {
                if f.extension().map(|x| x == "json").unwrap_or(false) {
                    let v: serde_json::Value = serde_json::from_str(&std::fs::read_to_string(&f).unwrap()).unwrap();
                    if let Ok(mc) = serde_json::from_value::<MCase>(v["case"].clone()) {
                        let o = run_case(&mc, None, &prop);
                        absorb(o, &mut cw, &mut stats);
                    }
                }
            }
        }
    }
    let mode = a.rest.get("mode").cloned().unwrap_or_default();
    let mut n_extra = 0usize;
    let sched: Vec<MCase> = if mode == "sched" {
        let all = schedules(86400);
        let n = a.cases.min(all.len()).max(1);
        let mut v = two_deal_cases(86400);
        n_extra = v.len();
        v.extend((0..n).map(|k| all[(k * all.len() / n + (a.seed as usize % (all.len() / n).max(1))) % all.len()].clone()));
        v
    } else {
        vec![]
    };
    let sched_ref = &sched;
    // generated histories, in parallel (each has its own VM); results are absorbed in case order
    let mut root = Prng::new(a.seed);
    let ncases = if mode == "sched" { sched.len() } else { a.cases };
    let jobs: Vec<(usize, Prng)> = (0..ncases).map(|k| (k, root.fork(k as u64))).collect();
    let threads = std::thread::available_parallelism().map(|x| x.get()).unwrap_or(4).min(16).max(1);
    let len = a.len;
    let mut results: Vec<Option<CaseOut>> = (0..ncases).map(|_| None).collect();
    let chunks: Vec<Vec<(usize, Prng)>> = (0..threads).map(|t| jobs.iter().filter(|(k, _)| k % threads == t).cloned().collect()).collect();
    let prop_ref = &prop;
    let outs: Vec<Vec<(usize, CaseOut)>> = std::thread::scope(|sc| {
        let hs: Vec<_> = chunks
            .into_iter()
            .map(|ch| {
                sc.spawn(move || {
                    ch.into_iter()
                        .map(|(k, mut r)| {
                            if !sched_ref.is_empty() {
                                return (k, run_case(&sched_ref[k], None, prop_ref));
                            }
                            let interval = match r.below(100) { 0..=44 => 86400, 45..=64 => 2880, 65..=84 => 100, _ => 7 };
                            let mc = MCase { interval, ops: vec![] };
                            (k, run_case(&mc, Some((r, len)), prop_ref))
                        })
                        .collect::<Vec<_>>()
                })
            })
            .collect();
        hs.into_iter().map(|h| h.join().expect("worker panicked")).collect()
    });
    for v in outs {
        for (k, o) in v {
            results[k] = Some(o);
        }
    }
    // C07 path independence on the implementation: schedules with the same fate of the deal end in
    // the same balances
    let mut by_fate: BTreeMap<String, ([i128; 5], MCase)> = BTreeMap::new();
    let mut fate_hist: BTreeMap<String, u64> = BTreeMap::new();
    let mut path_fail: Vec<serde_json::Value> = vec![];
    for (ri, o) in results.into_iter().flatten().enumerate() {
        if mode == "sched" && ri >= n_extra {
            if let Some((f, v)) = &o.fin {
                *fate_hist.entry(f.clone()).or_insert(0) += 1;
                // client_refund_exact / provider_collateral_fate on the lock side: once the deal is gone
                // nothing of it stays locked for either party
                if prop == "C07" && (v[1] != 0 || v[3] != 0) {
                    path_fail.push(json!({"class": "lock-not-released", "step": 0,
                        "what": [format!("after the deal ended ({}) the client still has {} and the provider {} locked", f, v[1], v[3])],
                        "case": o.done.clone()}));
                }
                match by_fate.get(f) {
                    None => { by_fate.insert(f.clone(), (*v, o.done.clone())); }
                    Some((v0, c0)) => {
                        if v0 != v && prop == "C07" {
                            path_fail.push(json!({"class": "path-dependence", "step": 0,
                                "what": [format!("two schedules with the same fate {} end in different balances {:?} vs {:?}; the other schedule: {}", f, v0, v, serde_json::to_string(c0).unwrap())],
                                "case": o.done.clone()}));
                        }
                    }
                }
            }
        }
        absorb(o, &mut cw, &mut stats);
    }
    for f in path_fail { stats.monitor_fail(f); }
    if mode == "sched" { stats.extra.insert("fates".into(), json!(fate_hist)); }
    stats.extra.insert("f3_hits".into(), json!(f3_total));
    cw.finish(&stats, &tag);
}
