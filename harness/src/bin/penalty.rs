//! C15 harness ("faults and early terminations are always paid for").
//!
//! --mode formula : the real `pub` closed forms of actors/miner/src/{monies,policy}.rs on random and
//!                  boundary inputs against `feval` of coq/Model/Penalty.v.
//! --mode actor   : (first the scripted witness history of finding F5, repaired in /repo 3e16ac9, as a regression) a REAL miner (created through Power::CreateMiner, creation deposit left in the vesting
//!                  table) on the harness VM: sectors are pre-committed / proven, PoSts submitted (valid,
//!                  invalid-optimistic, with skipped sectors) or missed, faults declared and recovered,
//!                  sectors terminated, PoSts disputed, consensus faults reported, block rewards with
//!                  penalties applied, funds withdrawn -- with and without a fault plan that fails one
//!                  nested send (in particular the transfer to the reporter).  Every top-level message is
//!                  decomposed into the handler invocations it made on the miner actor; each becomes one
//!                  operation of coq/Model/Penalty.v (`step`), whose inputs (charged projections, what the
//!                  sector bookkeeping released, replies of the nested sends) are recomputed by the harness
//!                  from the REAL pre-state with the REAL `pub` State/Deadline methods (on a clone) and the
//!                  REAL monies functions.  The model must reproduce the real post-state, exit code, burn /
//!                  reporter sends and the charged amount.  The monitors evaluate the property on the real
//!                  states and traces.
use fil_actor_miner::{
    daily_proof_fee_payable, detail, expected_reward_for_power, locked_reward_from_reward, consensus_fault_penalty,
    pledge_penalty_for_continued_fault, pledge_penalty_for_invalid_windowpost, pledge_penalty_for_termination,
    pledge_penalty_for_termination_lower_bound, qa_power_for_sector, reward_for_consensus_slash_report,
    reward_for_disputed_window_post, ApplyRewardParams, CompactCommD, CronEventPayload, DeadlineSectorMap,
    DeclareFaultsParams, DeclareFaultsRecoveredParams, DeferredCronEventParams, DisputeWindowedPoStParams,
    FaultDeclaration, Method as MinerMethod, PoStPartition, PreCommitSectorBatchParams2, ProveCommitSectors3Params,
    RecoveryDeclaration, ReportConsensusFaultParams, SectorActivationManifest, SectorPreCommitInfo, Sectors,
    State as MinerState, SubmitWindowedPoStParams, TerminateSectorsParams, TerminationDeclaration, VestingFund,
    VestingFunds, WithdrawBalanceParams, deadline_is_mutable, max_prove_commit_duration,
    BASE_PENALTY_FOR_DISPUTED_WINDOW_POST, BASE_REWARD_FOR_DISPUTED_WINDOW_POST, CONSENSUS_FAULT_REPORTER_DEFAULT_SHARE,
    CONTINUED_FAULT_PROJECTION_PERIOD, CRON_EVENT_PROCESS_EARLY_TERMINATIONS, CRON_EVENT_PROVING_DEADLINE,
    ERR_BALANCE_INVARIANTS_BROKEN, TERMINATION_LIFETIME_CAP, TERM_FEE_MAX_FAULT_FEE_MULTIPLE_DENOM,
    TERM_FEE_MAX_FAULT_FEE_MULTIPLE_NUM, TERM_FEE_MIN_PLEDGE_MULTIPLE_DENOM, TERM_FEE_MIN_PLEDGE_MULTIPLE_NUM,
    TERM_FEE_PLEDGE_MULTIPLE_DENOM, TERM_FEE_PLEDGE_MULTIPLE_NUM,
};
use fil_actor_power::{CreateMinerParams, CreateMinerReturn, Method as PowerMethod, State as PowerState, UpdatePledgeTotalParams};
use fil_actor_reward::{AwardBlockRewardParams, Method as RewardMethod, State as RewardState};
use fil_actors_runtime::reward::FilterEstimate;
use fil_actors_runtime::runtime::Policy;
use fil_actors_runtime::test_utils::make_sealed_cid;
use fil_actors_runtime::{
    BURNT_FUNDS_ACTOR_ADDR, BURNT_FUNDS_ACTOR_ID, CRON_ACTOR_ADDR, EPOCHS_IN_DAY, EXPECTED_LEADERS_PER_EPOCH,
    REWARD_ACTOR_ADDR, REWARD_ACTOR_ID, STORAGE_MARKET_ACTOR_ID, STORAGE_POWER_ACTOR_ADDR, STORAGE_POWER_ACTOR_ID,
    SYSTEM_ACTOR_ADDR,
};
use fvm_ipld_bitfield::BitField;
use fvm_ipld_blockstore::Blockstore;
use fvm_ipld_encoding::{BytesDe, CborStore, RawBytes};
use fvm_shared::address::Address;
use fvm_shared::bigint::BigInt;
use fvm_shared::consensus::{ConsensusFault, ConsensusFaultType};
use fvm_shared::econ::TokenAmount;
use fvm_shared::error::ExitCode;
use fvm_shared::randomness::Randomness;
use fvm_shared::sector::{PoStProof, RegisteredPoStProof, RegisteredSealProof};
use fvm_shared::METHOD_SEND;
use num_traits::{Signed, Zero};
use serde::Serialize;
use std::collections::BTreeMap;
use std::panic::{catch_unwind, AssertUnwindSafe};
use vharness::coqfmt::{self as cf, Case, CaseWriter, Stats};
use vharness::prng::Prng;
use vharness::util::*;
use vharness::vvm::{Vvm, TEST_VM_INVALID_POST, TEST_VM_RAND_ARRAY};
use vm_api::trace::InvocationTrace;
use vm_api::util::{get_state, DynBlockstore};
use vm_api::VM;

const FIL: i128 = 1_000_000_000_000_000_000;
fn ta(x: i128) -> TokenAmount {
    TokenAmount::from_atto(x)
}
fn zt(x: &TokenAmount) -> String {
    cf::z(x.atto())
}

// =================================================================================================
// formula level
// =================================================================================================
fn rnd_amount(r: &mut Prng) -> BigInt {
    let bits = r.below(100);
    let mut x = BigInt::from(r.next_u64());
    if bits > 40 {
        x = (x << 32) + BigInt::from(r.next_u64() >> 20);
    }
    if bits > 80 {
        x = x << 24;
    }
    match r.below(12) {
        0 => BigInt::zero(),
        1 => BigInt::from(r.below(200)),
        2 => BigInt::from(1000u64 * r.below(50) + r.below(3)),
        _ => x >> (r.below(40) as usize),
    }
}
fn rnd_estimate(r: &mut Prng) -> FilterEstimate {
    // positions / velocities in Q.128
    let pos = rnd_amount(r) << 128usize;
    let vel = match r.below(4) {
        0 => BigInt::zero(),
        1 => -(rnd_amount(r) << 100usize),
        _ => rnd_amount(r) << (90 + r.below(30) as usize),
    };
    FilterEstimate { position: pos, velocity: vel }
}

fn run_formula(a: &cf::Args) {
    let mut stats = Stats::default();
    let header = "From VF Require Import Model.Penalty Base.Corr.\nFrom Coq Require Import ZArith List.\nImport ListNotations.\nOpen Scope Z_scope.\n";
    let mut cw = CaseWriter::new(&a.out, header, "fcheck_case", a.shards);
    let policy = Policy::default();
    let mut root = Prng::new(a.seed);
    let cap_epochs = TERMINATION_LIFETIME_CAP * EPOCHS_IN_DAY;
    let invalid_period = CONTINUED_FAULT_PROJECTION_PERIOD + 2 * EPOCHS_IN_DAY;
    let lower_period = (EPOCHS_IN_DAY * 35) / 10;
    for k in 0..a.cases {
        let mut r = root.fork(k as u64);
        let mut steps = vec![];
        for i in 0..a.len {
            let kind = if i == 0 && k % 8 == 0 { 8 } else { r.below(8) };
            let (op, obs, name): (String, Vec<String>, &str) = match kind {
                0 | 1 => {
                    let ip = TokenAmount::from_atto(rnd_amount(&mut r));
                    let ff = TokenAmount::from_atto(rnd_amount(&mut r));
                    let age: i64 = match r.below(10) {
                        0 => -(r.below(1000) as i64),
                        1 => 0,
                        2 => cap_epochs + r.range(-2, 2),
                        3 => cap_epochs * r.range(2, 50),
                        4 => r.range(1, 5),
                        _ => r.range(0, cap_epochs),
                    };
                    let fee = pledge_penalty_for_termination(&ip, age, &ff);
                    // the bounds of the statement, on the real function
                    let lo = (&ip * 2u32).div_floor(100u32);
                    let lo2 = (&ff * 105u32).div_floor(100u32);
                    let hi = std::cmp::max((&ip * 85u32).div_floor(1000u32), lo2.clone());
                    if fee < lo || fee < lo2 || fee > hi {
                        stats.monitor_fail(serde_json::json!({"class": "termination-fee-out-of-bounds", "what": [format!("ip {} age {} ff {} fee {}", ip.atto(), age, ff.atto(), fee.atto())], "case": {"seed": a.seed, "case": k}}));
                    }
                    (format!("FTermination {} {} {}", zt(&ip), cf::z(age), zt(&ff)), vec![zt(&fee)], "termination")
                }
                2 => {
                    let (re, qe) = (rnd_estimate(&mut r), rnd_estimate(&mut r));
                    let qa = rnd_amount(&mut r);
                    let rr = expected_reward_for_power(&re, &qe, &qa, invalid_period);
                    let out = pledge_penalty_for_invalid_windowpost(&re, &qe, &qa);
                    (format!("FInvalidPost {} {}", zt(&rr), cf::z(invalid_period)), vec![zt(&out), "1".into()], "invalid_post")
                }
                3 => {
                    let (re, qe) = (rnd_estimate(&mut r), rnd_estimate(&mut r));
                    let qa = rnd_amount(&mut r);
                    if r.chance(50) {
                        let rr = expected_reward_for_power(&re, &qe, &qa, CONTINUED_FAULT_PROJECTION_PERIOD);
                        let out = pledge_penalty_for_continued_fault(&re, &qe, &qa);
                        (format!("FContinuedFault {} {}", zt(&rr), cf::z(CONTINUED_FAULT_PROJECTION_PERIOD)), vec![zt(&out), "1".into()], "continued_fault")
                    } else {
                        let rr = expected_reward_for_power(&re, &qe, &qa, lower_period);
                        let out = pledge_penalty_for_termination_lower_bound(&re, &qe, &qa);
                        (format!("FTermLowerBound {} {}", zt(&rr), cf::z(lower_period)), vec![zt(&out), "1".into()], "term_lower_bound")
                    }
                }
                4 => {
                    let e = TokenAmount::from_atto(rnd_amount(&mut r));
                    let p = consensus_fault_penalty(e.clone());
                    let w = reward_for_consensus_slash_report(&e);
                    (format!("FConsensus {}", zt(&e)), vec![zt(&p), zt(&w)], "consensus")
                }
                5 => {
                    let e = TokenAmount::from_atto(rnd_amount(&mut r));
                    let (l, _) = locked_reward_from_reward(e.clone());
                    (format!("FLockedReward {}", zt(&e)), vec![zt(&l)], "locked_reward")
                }
                6 => {
                    let (re, qe) = if r.chance(30) { (FilterEstimate::default(), rnd_estimate(&mut r)) } else { (rnd_estimate(&mut r), rnd_estimate(&mut r)) };
                    let qa = if r.chance(20) { BigInt::zero() } else { rnd_amount(&mut r) };
                    let per = r.range(1, 60000);
                    let rr = expected_reward_for_power(&re, &qe, &qa, per);
                    let out = detail::expected_reward_for_power_clamped_at_atto_fil(&re, &qe, &qa, per);
                    (format!("FClamp {}", zt(&rr)), vec![zt(&out)], "clamp")
                }
                7 => {
                    let fee = TokenAmount::from_atto(rnd_amount(&mut r));
                    let day = TokenAmount::from_atto(rnd_amount(&mut r));
                    let out = daily_proof_fee_payable(&policy, &fee, &day);
                    (format!("FDailyPayable {} {}", zt(&fee), zt(&day)), vec![zt(&out)], "daily_payable")
                }
                _ => {
                    use fil_actor_miner::ext;
                    let obs: Vec<String> = vec![
                        cf::z(TERM_FEE_PLEDGE_MULTIPLE_NUM), cf::z(TERM_FEE_PLEDGE_MULTIPLE_DENOM),
                        cf::z(TERM_FEE_MIN_PLEDGE_MULTIPLE_NUM), cf::z(TERM_FEE_MIN_PLEDGE_MULTIPLE_DENOM),
                        cf::z(TERM_FEE_MAX_FAULT_FEE_MULTIPLE_NUM), cf::z(TERM_FEE_MAX_FAULT_FEE_MULTIPLE_DENOM),
                        cf::z(TERMINATION_LIFETIME_CAP), cf::z(EPOCHS_IN_DAY), cf::z(CONTINUED_FAULT_PROJECTION_PERIOD),
                        cf::z(CONSENSUS_FAULT_REPORTER_DEFAULT_SHARE), cf::z(EXPECTED_LEADERS_PER_EPOCH),
                        zt(&BASE_REWARD_FOR_DISPUTED_WINDOW_POST), zt(&BASE_PENALTY_FOR_DISPUTED_WINDOW_POST),
                        cf::z(policy.consensus_fault_ineligibility_duration), cf::z(policy.daily_fee_block_reward_cap_denom),
                        cf::z(BURNT_FUNDS_ACTOR_ID), cf::z(STORAGE_POWER_ACTOR_ID), cf::z(REWARD_ACTOR_ID), cf::z(STORAGE_MARKET_ACTOR_ID),
                        cf::z(ext::power::UPDATE_CLAIMED_POWER_METHOD), cf::z(ext::power::ENROLL_CRON_EVENT_METHOD),
                        cf::z(ext::power::UPDATE_PLEDGE_TOTAL_METHOD), cf::z(ext::power::CURRENT_TOTAL_POWER_METHOD),
                        cf::z(ext::reward::THIS_EPOCH_REWARD_METHOD), cf::z(ext::market::ON_MINER_SECTORS_TERMINATE_METHOD),
                        cf::z(ext::market::VERIFY_DEALS_FOR_ACTIVATION_METHOD), cf::z(ERR_BALANCE_INVARIANTS_BROKEN.value()),
                    ];
                    ("FConsts".to_string(), obs, "consts")
                }
            };
            stats.op(name, 0);
            steps.push((op, obs));
        }
        cw.push(Case { init: "tt".into(), steps, nontrivial: true });
    }
    cw.finish(&stats, "penalty_formula");
}

// =================================================================================================
// actor level
// =================================================================================================
struct W {
    v: Vvm,
    owner: Address,
    worker: Address,
    reporter: Address,
    stranger: Address,
    funder: Address,
    miner: Address,
    next_sector: u64,
    pending: Vec<(u64, i64)>, // pre-committed sector number, pre-commit epoch
    live: Vec<u64>,           // proven sector numbers (may have been terminated since)
    posts: Vec<(u64, i64, bool)>, // optimistic PoSts accepted: deadline index, epoch, proof invalid?
    padded: bool,
}

#[derive(Clone)]
struct Snap {
    bal: TokenAmount,
    locked: TokenAmount,
    pcd: TokenAmount,
    ip: TokenAmount,
    fee_debt: TokenAmount,
    cfe: i64,
    table: Vec<(i64, BigInt)>,
    early: bool,
    st: MinerState,
    owner: u64,
    benef: u64,
    controls: Vec<u64>,
    quota_avail: TokenAmount,
    epoch: i64,
    has_claim: bool,
}

fn raw_table(vf: &VestingFunds, store: &dyn Blockstore) -> Vec<(i64, BigInt)> {
    let bytes = fvm_ipld_encoding::to_vec(vf).unwrap();
    let inner: Option<(VestingFund, cid::Cid)> = fvm_ipld_encoding::from_slice(&bytes).unwrap();
    match inner {
        None => vec![],
        Some((head, tail)) => {
            let ds = DynBlockstore::wrap(store);
            let tl: Vec<VestingFund> = ds.get_cbor(&tail).unwrap().unwrap();
            let mut v = vec![(head.epoch, head.amount.atto().clone())];
            v.extend(tl.into_iter().map(|f| (f.epoch, f.amount.atto().clone())));
            v
        }
    }
}

fn snapshot(w: &W) -> Snap {
    let st: MinerState = get_state(&w.v, &w.miner).unwrap();
    let store = w.v.store.as_ref();
    let info = st.get_info(store).unwrap();
    let epoch = w.v.epoch();
    let mut controls: Vec<u64> = info.control_addresses.iter().map(|a| a.id().unwrap()).collect();
    controls.push(info.worker.id().unwrap());
    controls.push(info.owner.id().unwrap());
    Snap {
        bal: w.v.balance(&w.miner),
        locked: st.locked_funds.clone(),
        pcd: st.pre_commit_deposits.clone(),
        ip: st.initial_pledge.clone(),
        fee_debt: st.fee_debt.clone(),
        cfe: info.consensus_fault_elapsed,
        table: raw_table(&st.vesting_funds, w.v.blockstore()),
        early: !st.early_terminations.is_empty(),
        owner: info.owner.id().unwrap(),
        benef: info.beneficiary.id().unwrap(),
        controls,
        quota_avail: info.beneficiary_term.available(epoch),
        st,
        epoch,
        has_claim: {
            let ps: PowerState = get_state(&w.v, &STORAGE_POWER_ACTOR_ADDR).unwrap();
            ps.get_claim(w.v.store.as_ref(), &w.miner).ok().flatten().is_some()
        },
    }
}
impl Snap {
    fn vested(&self) -> TokenAmount {
        TokenAmount::from_atto(self.table.iter().filter(|x| x.0 < self.epoch).map(|x| x.1.clone()).sum::<BigInt>())
    }
    fn unlocked(&self) -> TokenAmount {
        &self.bal - &self.locked - &self.pcd - &self.ip
    }
    fn enc(&self) -> Vec<String> {
        vec![zt(&self.bal), zt(&self.locked), zt(&self.pcd), zt(&self.ip), zt(&self.fee_debt), cf::z(self.cfe)]
    }
    fn coq(&self) -> String {
        format!("mk {} {} {} {} {} {}", zt(&self.bal), zt(&self.locked), zt(&self.pcd), zt(&self.ip), zt(&self.fee_debt), cf::z(self.cfe))
    }
}

fn create_miner_faithful(v: &Vvm, owner: &Address, worker: &Address, extra: &TokenAmount) -> Address {
    let deposit = fil_actors_integration_tests::util::create_miner_deposit_for_test(v);
    let params = CreateMinerParams {
        owner: *owner,
        worker: *worker,
        window_post_proof_type: RegisteredPoStProof::StackedDRGWindow32GiBV1P1,
        peer: b"miner".to_vec(),
        multiaddrs: vec![BytesDe(b"multiaddr".to_vec())],
    };
    let r = exec(v, owner, &STORAGE_POWER_ACTOR_ADDR, &(&deposit + extra), PowerMethod::CreateMiner as u64, Some(params));
    assert_eq!(code(&r), 0, "CreateMiner failed: {}", r.message);
    let ret: CreateMinerReturn = r.ret.unwrap().deserialize().unwrap();
    ret.id_address
}

struct Plan {
    extra_fil: i64,
    pad: bool,
    small_batches: bool,
    circ_fil: i64,
    workflow_onboard: u64,
    fault_age_periods: i64,
}

fn setup(plan: &Plan) -> W {
    let mut v = new_world();
    if plan.small_batches {
        // force `more` early terminations (deferred to the next epoch's cron)
        v.policy.addressed_sectors_max = 2;
    }
    if plan.fault_age_periods > 0 {
        // faulty sectors are terminated early after this many proving periods (default 42)
        v.policy.fault_max_age = v.policy.wpost_proving_period * plan.fault_age_periods;
    }
    let accts = fil_actors_integration_tests::util::create_accounts(&v, 6, &TokenAmount::from_whole(1_000_000));
    v.set_circulating_supply(TokenAmount::from_whole(plan.circ_fil));
    v.set_epoch(200);
    let miner = create_miner_faithful(&v, &accts[0], &accts[1], &TokenAmount::from_whole(plan.extra_fil));
    if plan.pad {
        let r = exec(&v, &miner, &STORAGE_POWER_ACTOR_ADDR, &TokenAmount::zero(), PowerMethod::UpdatePledgeTotal as u64,
            Some(UpdatePledgeTotalParams { pledge_delta: TokenAmount::from_whole(1_000_000_000i64) }));
        assert_eq!(code(&r), 0, "padding UpdatePledgeTotal failed: {}", r.message);
    }
    let mut w = W {
        v, owner: accts[0], worker: accts[1], reporter: accts[2], stranger: accts[3], funder: accts[4], miner,
        next_sector: 100, pending: vec![], live: vec![], posts: vec![], padded: plan.pad,
    };
    // sectors onboarded through the integration workflows (setup only: not part of the observed history)
    if plan.workflow_onboard > 0 {
        use fil_actors_integration_tests::util::{advance_by_deadline_to_epoch, precommit_sectors_v2, prove_commit_sectors};
        let n = plan.workflow_onboard as usize;
        let base = w.next_sector;
        let res = catch_unwind(AssertUnwindSafe(|| {
            let infos = precommit_sectors_v2(&w.v, n, vec![], &w.worker, &w.miner, RegisteredSealProof::StackedDRG32GiBV1P1, base, true, None);
            let target = w.v.epoch() + Policy::default().pre_commit_challenge_delay + 1;
            advance_by_deadline_to_epoch(&w.v, &w.miner, target);
            prove_commit_sectors(&w.v, &w.worker, &w.miner, infos, 100);
        }));
        w.next_sector += n as u64;
        if res.is_ok() {
            for i in 0..n as u64 { w.live.push(base + i); }
        }
    }
    w.v.take_invocations();
    w.v.panics.borrow_mut().clear();
    w
}

// ---------- messages ----------
struct Done {
    code: u32,
    msg: String,
    trace: Option<InvocationTrace>,
}

fn msg<P: Serialize>(w: &W, from: &Address, to: &Address, value: &TokenAmount, method: u64, params: Option<P>) -> Done {
    w.v.take_invocations();
    let r = exec(&w.v, from, to, value, method, params);
    let tr = w.v.take_invocations().pop();
    Done { code: code(&r), msg: r.message.clone(), trace: tr }
}

fn estimates(w: &W) -> (FilterEstimate, FilterEstimate) {
    let rs: RewardState = get_state(&w.v, &REWARD_ACTOR_ADDR).unwrap();
    let ps: PowerState = get_state(&w.v, &STORAGE_POWER_ACTOR_ADDR).unwrap();
    (rs.this_epoch_reward_smoothed, ps.this_epoch_qa_power_smoothed)
}

// ---------- simulation of the sector bookkeeping on a clone of the real pre-state ----------
#[derive(Clone, Default)]
struct EtSim {
    sectors: Vec<(TokenAmount, i64, TokenAmount, TokenAmount, u64)>, // ip, age, ff, fee, sector number
    deals: bool,
    more: bool,
}
impl EtSim {
    fn fee(&self) -> TokenAmount {
        self.sectors.iter().map(|s| s.3.clone()).sum()
    }
    fn coq(&self, v: &TokenAmount) -> String {
        format!(
            "{{| et_sectors := {}; et_v := {}; et_deals := {}; et_more := {} |}}",
            cf::list(self.sectors.iter().map(|s| format!("{{| ts_ip := {}; ts_age := {}; ts_ff := {} |}}", zt(&s.0), cf::z(s.1), zt(&s.2)))),
            zt(v), cf::b(self.deals), cf::b(self.more)
        )
    }
}

fn sim_early(w: &W, sim: &mut MinerState, rs: &FilterEstimate, qs: &FilterEstimate) -> Result<EtSim, String> {
    let store = w.v.store.as_ref();
    let policy = &w.v.policy;
    let (result, more) = sim
        .pop_early_terminations(policy, store, policy.addressed_partitions_max, policy.addressed_sectors_max)
        .map_err(|e| e.to_string())?;
    let mut out = EtSim { sectors: vec![], deals: false, more };
    if result.is_empty() {
        return Ok(out);
    }
    let info = sim.get_info(store).map_err(|e| e.to_string())?;
    let sectors = Sectors::load(store, &sim.sectors).map_err(|e| e.to_string())?;
    for (epoch, nums) in result.iter() {
        for s in sectors.load_sectors(nums).map_err(|e| e.to_string())? {
            let power = qa_power_for_sector(info.sector_size, &s);
            let age = epoch - s.activation;
            let ff = pledge_penalty_for_continued_fault(rs, qs, &power);
            let fee = pledge_penalty_for_termination(&s.initial_pledge, age, &ff);
            if s.deal_weight.is_positive() || s.verified_deal_weight.is_positive() {
                out.deals = true;
            }
            out.sectors.push((s.initial_pledge.clone(), age, ff, fee, s.sector_number));
        }
    }
    Ok(out)
}

struct DlSim {
    dep: TokenAmount,
    ff: TokenAmount,
    dfee: TokenAmount,
    rday: TokenAmount,
    payable: TokenAmount,
    ip_rel: TokenAmount,
    pwr: bool,
    chain: Option<EtSim>,
    prev_faulty_qa: BigInt,
}

fn sim_deadline(w: &W, sim: &mut MinerState, epoch: i64, rs: &FilterEstimate, qs: &FilterEstimate) -> Result<DlSim, String> {
    let store = w.v.store.as_ref();
    let policy = &w.v.policy;
    let dep = sim.cleanup_expired_pre_commits(policy, store, epoch).map_err(|e| e.to_string())?;
    let had_early = !sim.early_terminations.is_empty();
    let res = sim.advance_deadline(policy, store, epoch).map_err(|e| e.to_string())?;
    let ff = pledge_penalty_for_continued_fault(rs, qs, &res.previously_faulty_power.qa);
    let rday = expected_reward_for_power(rs, qs, &res.live_power.qa, EPOCHS_IN_DAY);
    let payable = if res.daily_fee.is_positive() { daily_proof_fee_payable(policy, &res.daily_fee, &rday) } else { TokenAmount::zero() };
    let has_early = !sim.early_terminations.is_empty();
    let chain = if !had_early && has_early { Some(sim_early(w, sim, rs, qs)?) } else { None };
    Ok(DlSim {
        dep, ff, dfee: res.daily_fee.clone(), rday, payable, ip_rel: -res.pledge_delta.clone(),
        pwr: !res.power_delta.is_zero(), chain, prev_faulty_qa: res.previously_faulty_power.qa.clone(),
    })
}

fn sim_terminate(w: &W, sim: &mut MinerState, params: &TerminateSectorsParams, epoch: i64) -> Result<bool, String> {
    let store = w.v.store.as_ref();
    let policy = &w.v.policy;
    let mut to_process = DeadlineSectorMap::new();
    for t in &params.terminations {
        to_process.add(policy, t.deadline, t.partition, t.sectors.clone()).map_err(|e| e.to_string())?;
    }
    to_process.check(policy.addressed_partitions_max, policy.addressed_sectors_max).map_err(|e| e.to_string())?;
    let info = sim.get_info(store).map_err(|e| e.to_string())?;
    let mut deadlines = sim.load_deadlines(store).map_err(|e| e.to_string())?;
    let sectors = Sectors::load(store, &sim.sectors).map_err(|e| e.to_string())?;
    let mut removed_any = false;
    for (dl_idx, partition_sectors) in to_process.iter() {
        if !deadline_is_mutable(policy, sim.current_proving_period_start(policy, epoch), dl_idx, epoch) {
            return Err("immutable deadline".into());
        }
        let quant = sim.quant_spec_for_deadline(policy, dl_idx);
        let mut deadline = deadlines.load_deadline(store, dl_idx).map_err(|e| e.to_string())?;
        let removed = deadline
            .terminate_sectors(policy, store, &sectors, epoch, partition_sectors, info.sector_size, quant)
            .map_err(|e| e.to_string())?;
        sim.early_terminations.set(dl_idx);
        if !removed.is_zero() {
            removed_any = true;
        }
        deadlines.update_deadline(policy, store, dl_idx, &deadline).map_err(|e| e.to_string())?;
    }
    sim.save_deadlines(store, deadlines).map_err(|e| e.to_string())?;
    Ok(removed_any)
}

fn sim_dispute(w: &W, sim: &MinerState, p: &DisputeWindowedPoStParams) -> Result<BigInt, String> {
    let store = w.v.store.as_ref();
    let deadlines = sim.load_deadlines(store).map_err(|e| e.to_string())?;
    let mut dl = deadlines.load_deadline(store, p.deadline).map_err(|e| e.to_string())?;
    let (partitions, _proofs) = dl.take_post_proofs(store, p.post_index).map_err(|e| e.to_string())?;
    let info = dl.load_partitions_for_dispute(store, partitions).map_err(|e| e.to_string())?;
    Ok(info.disputed_power.qa)
}

// ---------- decomposition of a message into model operations ----------
fn count_sub(t: &InvocationTrace, ctr: &mut u64) {
    for s in &t.subinvocations {
        *ctr += 1;
        count_sub(s, ctr);
    }
}

/// The invocations on the miner that were executed and not rolled back by a failing ancestor, in call
/// order.  Nested sends are numbered in call order (the fault plan's ordinal): the send the plan failed
/// was never executed (its trace node is synthesized by the VM) and is skipped.
fn collect<'a>(t: &'a InvocationTrace, miner: &Address, inj: Option<u64>, ctr: &mut u64, top: bool, live: bool, out: &mut Vec<&'a InvocationTrace>) {
    if !top {
        let my = *ctr;
        *ctr += 1;
        if Some(my) == inj {
            if t.to == *miner && t.method == MinerMethod::OnDeferredCronEvent as u64 {
                // the power actor deletes the claim of a miner whose cron callback failed
                CLAIM_LOSS_EXPLAINED.with(|c| *c.borrow_mut() = true);
            }
            return;
        }
    }
    if t.to == *miner {
        if live {
            out.push(t);
        }
        count_sub(t, ctr);
        return;
    }
    let live2 = live && t.exit_code.is_success();
    for s in &t.subinvocations {
        collect(s, miner, inj, ctr, false, live2, out);
    }
}

/// failure texts of the paths the model covers itself (everything else is an un-modelled validation
/// whose exit code is an input of the operation)
const MODELLED: &[&str] = &[
    "send aborted with code", "unlocked balance can not repay fee debt", "negative unlocked balance",
    "failed to calculate available balance", "failed to calculate unlocked balance", "failed to pay debt",
    "failed to repay penalty", "failed to pay fees", "failed to unlock penalty", "failed to unlock fee debt",
    "failed to apply penalty", "balance invariants broken", "for pre-commit deposit", "insufficient funds to lock",
    "during active consensus fault", "is too old, last exclusion period", "No consensus fault found", "fault by ",
    "invalid fault epoch", "negative fund requested", "cannot withdraw funds while", "beneficiary expiration",
    "cannot lock up a negative", "cannot penalize a negative", "failed to check epoch reward", "failed to check current power",
    "failed to update power",
];
fn modelled_failure(msg: &str) -> bool {
    MODELLED.iter().any(|m| msg.contains(m))
}

struct InvObs {
    op: String,
    obs: Vec<String>,
    charged: TokenAmount,
    burnt: TokenAmount,
    paid: TokenAmount,
    ok: bool,
    kind: &'static str,
}

fn sends_of(w: &W, t: &InvocationTrace) -> (Vec<String>, Vec<String>) {
    // (replies, encoded sends)
    let mut replies = vec![];
    let mut enc = vec![cf::z(t.subinvocations.len())];
    for s in &t.subinvocations {
        let to = w.v.resolve_id_address(&s.to).and_then(|a| a.id().ok()).unwrap_or(u64::MAX - 1);
        let mut arg = TokenAmount::zero();
        if s.to == STORAGE_POWER_ACTOR_ADDR && s.method == PowerMethod::UpdatePledgeTotal as u64 {
            if let Some(p) = &s.params {
                if let Ok(x) = p.deserialize::<UpdatePledgeTotalParams>() {
                    arg = x.pledge_delta;
                }
            }
        }
        replies.push(cf::z(s.exit_code.value()));
        enc.extend([cf::z(to), cf::z(s.method), zt(&s.value), zt(&arg), cf::z(s.exit_code.value())]);
    }
    (replies, enc)
}

fn value_to(t: &InvocationTrace, to: &Address) -> TokenAmount {
    t.subinvocations.iter().filter(|s| s.to == *to && s.method == METHOD_SEND && s.exit_code.is_success()).map(|s| s.value.clone()).sum()
}

struct MsgCtx {
    sys_origin: bool,
    injected: bool,
}

/// Builds the model operation and the implementation-side observation of one invocation on the miner.
/// `sim` is the clone of the pre-state that the bookkeeping simulation advances; `v` the vested amount
/// still in the vesting table.
#[allow(clippy::too_many_arguments)]
fn observe_inv(
    w: &W, t: &InvocationTrace, pre: &Snap, post: &Snap, sim: &mut MinerState, v: &mut TokenAmount, single: bool,
    ctx: &MsgCtx, stats: &mut Stats, fails: &mut Vec<(String, String)>, first_cron_had_early: &mut bool,
) -> Option<InvObs> {
    let ok = t.exit_code.is_success();
    let codev = t.exit_code.value();
    let (replies, mut sends_enc) = sends_of(w, t);
    if !ok {
        sends_enc = vec!["0".into()];
    }
    let rp = cf::list(replies.clone());
    let epoch = pre.epoch;
    let (rs, qs) = estimates_pre(w, t);
    let from_addr = Address::new_id(t.from);
    let burnt = if ok { value_to(t, &BURNT_FUNDS_ACTOR_ADDR) } else { TokenAmount::zero() };
    let nsends = t.subinvocations.len();
    let errmsg = || -> String { String::new() };
    let _ = errmsg;
    // the failure text is only available for top-level messages; for nested ones use the exit code
    let mut charged = TokenAmount::zero();
    let mut paid = TokenAmount::zero();
    let mut paid_out = TokenAmount::zero();
    let kind: &'static str;
    let op: String;
    let m = t.method;
    if m == MinerMethod::ApplyRewards as u64 {
        kind = "apply_rewards";
        let p: ApplyRewardParams = t.params.as_ref().unwrap().deserialize().unwrap();
        if ok { charged = p.penalty.clone(); }
        op = format!("ApplyRewards {} {} {} {} {} {}", t.from, zt(&t.value), zt(&p.reward), zt(&p.penalty), zt(v), rp);
        if ok { *v = TokenAmount::zero(); }
    } else if m == MinerMethod::ReportConsensusFault as u64 {
        kind = "report_consensus_fault";
        let e = TokenAmount::from_atto(rs.estimate());
        if ok {
            charged = consensus_fault_penalty(e.clone());
            paid = value_to(t, &from_addr);
            let cap = reward_for_consensus_slash_report(&e);
            if paid > cap { fails.push(("reporter-overpaid".into(), format!("consensus reporter paid {} > policy reward {}", paid.atto(), cap.atto()))); }
        }
        let fault = match &*w.v.consensus_fault.borrow() {
            None => "None".to_string(),
            Some(f) => format!("(Some ({}, {}))", cf::b(f.target == w.miner), cf::z(f.epoch)),
        };
        op = format!("ReportFault {} {} {} {} {} {}", t.from, cf::z(epoch), fault, zt(&e), zt(v), rp);
        if ok && !pre.fee_debt.is_zero() || ok && !charged.is_zero() { if !pre.locked.is_zero() { *v = TokenAmount::zero(); } }
    } else if m == MinerMethod::DisputeWindowedPoSt as u64 {
        kind = "dispute";
        let p: DisputeWindowedPoStParams = t.params.as_ref().unwrap().deserialize().unwrap();
        let qa = sim_dispute(w, sim, &p);
        let info = pre.st.get_info(w.v.store.as_ref()).unwrap();
        let invalid_period = CONTINUED_FAULT_PROJECTION_PERIOD + 2 * EPOCHS_IN_DAY;
        let (r_inv, ch) = match &qa {
            Ok(q) => (
                expected_reward_for_power(&rs, &qs, q, invalid_period),
                pledge_penalty_for_invalid_windowpost(&rs, &qs, q)
                    + reward_for_disputed_window_post(info.window_post_proof_type, fil_actor_miner::PowerPair { raw: BigInt::zero(), qa: q.clone() }),
            ),
            Err(_) => (TokenAmount::zero(), TokenAmount::zero()),
        };
        let (mut prec, mut chk) = (0u32, 0u32);
        if !ok {
            // validation failures: before the two queries (bad deadline index) or inside the transaction
            let failed_send = t.subinvocations.iter().any(|s| !s.exit_code.is_success());
            if nsends == 0 { prec = codev; } else if !failed_send && nsends == 2 { chk = codev; }
        } else {
            charged = ch.clone();
            paid = value_to(t, &from_addr);
            if paid > *BASE_REWARD_FOR_DISPUTED_WINDOW_POST { fails.push(("reporter-overpaid".into(), format!("dispute reporter paid {}", paid.atto()))); }
            if qa.is_err() { fails.push(("harness-sim-mismatch".into(), "dispute succeeded but the simulation could not load the disputed post".into())); }
        }
        let pwr = t.subinvocations.iter().any(|s| s.to == STORAGE_POWER_ACTOR_ADDR && s.method == PowerMethod::UpdateClaimedPower as u64);
        op = format!("Dispute {} {} {} {} {} {} {}", t.from, prec, chk, zt(&r_inv), zt(v), cf::b(pwr), rp);
        if ok && !pre.locked.is_zero() { *v = TokenAmount::zero(); }
    } else if m == MinerMethod::OnDeferredCronEvent as u64 {
        let p: DeferredCronEventParams = t.params.as_ref().unwrap().deserialize().unwrap();
        let payload: Result<CronEventPayload, _> = fvm_ipld_encoding::from_slice(&p.event_payload);
        let (rs, qs) = (p.reward_smoothed.clone(), p.quality_adj_power_smoothed.clone());
        let ev: String;
        match payload.map(|x| x.event_type) {
            Ok(CRON_EVENT_PROVING_DEADLINE) => {
                kind = "cron_deadline";
                let mut trial = sim.clone();
                match sim_deadline(w, &mut trial, epoch, &rs, &qs) {
                    Ok(d) => {
                        let chain_fee = d.chain.as_ref().map(|c| c.fee()).unwrap_or_default();
                        if ok {
                            charged = &d.dep + &d.ff + &d.payable + &chain_fee;
                            *sim = trial;
                            if !d.prev_faulty_qa.is_zero() {
                                *stats.extra.entry("deadline_ends_with_previously_faulty_power".into()).or_insert(serde_json::json!(0)) =
                                    serde_json::json!(stats.extra.get("deadline_ends_with_previously_faulty_power").and_then(|x| x.as_u64()).unwrap_or(0) + 1);
                            }
                            if let Some(c) = &d.chain { check_term_events(t, c, fails); check_fee_bounds(c, fails); }
                        }
                        let chain = match &d.chain { None => "None".to_string(), Some(c) => format!("(Some {})", c.coq(&TokenAmount::zero())) };
                        ev = format!("(CronDeadline {} {} {} {} {} {} {} {})", zt(&d.dep), zt(&d.ff), zt(&d.dfee), zt(&d.rday), zt(&d.ip_rel), zt(v), cf::b(d.pwr), chain);
                        if ok { *v = TokenAmount::zero(); }
                    }
                    Err(e) => {
                        if ok { fails.push(("harness-sim-mismatch".into(), format!("deadline cron succeeded but the simulation failed: {}", e))); }
                        ev = "CronUnknown".into();
                    }
                }
            }
            Ok(CRON_EVENT_PROCESS_EARLY_TERMINATIONS) => {
                kind = "cron_early_term";
                let mut trial = sim.clone();
                match sim_early(w, &mut trial, &rs, &qs) {
                    Ok(c) => {
                        if ok { charged = c.fee(); *sim = trial; check_term_events(t, &c, fails); check_fee_bounds(&c, fails); }
                        ev = format!("(CronEarlyTerm {})", c.coq(v));
                        if ok && !c.sectors.is_empty() && !pre.locked.is_zero() { *v = TokenAmount::zero(); }
                    }
                    Err(e) => {
                        if ok { fails.push(("harness-sim-mismatch".into(), format!("early-termination cron succeeded but the simulation failed: {}", e))); }
                        ev = "CronUnknown".into();
                    }
                }
            }
            _ => { kind = "cron_unknown"; ev = "CronUnknown".into(); }
        }
        let _ = first_cron_had_early;
        op = format!("Cron {} {} {} {}", t.from, ev, cf::b(ctx.sys_origin), rp);
    } else if m == MinerMethod::TerminateSectors as u64 {
        kind = "terminate";
        let p: TerminateSectorsParams = t.params.as_ref().unwrap().deserialize().unwrap();
        let had_early = !sim.early_terminations.is_empty();
        let mut chk = 0u32;
        let mut trial = sim.clone();
        let simres = if pre.controls.contains(&t.from) { sim_terminate(w, &mut trial, &p, epoch) } else { Err("caller".into()) };
        let (pwr, et) = match simres {
            Ok(pwr) => match sim_early(w, &mut trial, &rs, &qs) {
                Ok(c) => (pwr, c),
                Err(e) => { if ok { fails.push(("harness-sim-mismatch".into(), format!("terminate: {}", e))); } (pwr, EtSim::default()) }
            },
            Err(e) => {
                if ok { fails.push(("harness-sim-mismatch".into(), format!("terminate succeeded but the simulation rejected it: {}", e))); }
                (false, EtSim::default())
            }
        };
        if !ok && nsends == 0 { chk = codev; }
        if ok { charged = et.fee(); *sim = trial; check_term_events(t, &et, fails); check_fee_bounds(&et, fails); }
        op = format!("Terminate {} {} {} {} {}", chk, cf::b(pwr), cf::b(had_early), et.coq(v), rp);
        if ok && !et.sectors.is_empty() && !pre.locked.is_zero() { *v = TokenAmount::zero(); }
    } else if m == MinerMethod::RepayDebt as u64 {
        kind = "repay_debt";
        let chk = if pre.controls.contains(&t.from) { 0 } else { 18 };
        op = format!("RepayDebt {} {} {}", chk, zt(v), rp);
        if ok && !pre.fee_debt.is_zero() && !pre.locked.is_zero() { *v = TokenAmount::zero(); }
    } else if m == MinerMethod::WithdrawBalance as u64 {
        kind = "withdraw";
        let p: WithdrawBalanceParams = t.params.as_ref().unwrap().deserialize().unwrap();
        let cok = t.from == pre.owner || t.from == pre.benef;
        let quota = if pre.benef != pre.owner { format!("(Some {})", zt(&pre.quota_avail)) } else { "None".into() };
        if ok { paid_out = value_to(t, &Address::new_id(pre.benef)); }
        op = format!("Withdraw {} {} {} {} {} {} {}", cf::b(cok), cf::b(pre.early), zt(&p.amount_requested), quota, pre.benef, zt(v), rp);
        // the gate: rejected while in debt
        let gate_unlocked = pre.unlocked() + if pre.locked.is_zero() { TokenAmount::zero() } else { v.clone() };
        if ok && pre.fee_debt > gate_unlocked { fails.push(("debt-gate-open".into(), format!("WithdrawBalance accepted with fee debt {} > unlocked {}", pre.fee_debt.atto(), gate_unlocked.atto()))); }
        if ok { *v = TokenAmount::zero(); }
    } else if m == MinerMethod::PreCommitSectorBatch2 as u64 {
        kind = "pre_commit";
        let p: PreCommitSectorBatchParams2 = t.params.as_ref().unwrap().deserialize().unwrap();
        let info = pre.st.get_info(w.v.store.as_ref()).unwrap();
        let dep1 = fil_actor_miner::pre_commit_deposit_for_power(&rs, &qs, &fil_actor_miner::qa_power_max(info.sector_size));
        let dep = dep1 * p.sectors.len() as u64;
        let deals = p.sectors.iter().any(|s| !s.deal_ids.is_empty());
        let needs_cron = !pre.st.deadline_cron_active;
        let (mut prec, mut c1, mut c2) = (0u32, 0u32, 0u32);
        if !ok {
            let failed_send = t.subinvocations.iter().any(|s| !s.exit_code.is_success());
            if nsends == 0 { prec = codev; }
            else if !failed_send && !single_modelled_failure(ctx, t) {
                if !pre.controls.contains(&t.from) { c1 = codev; } else { c2 = codev; }
            }
        }
        op = format!("PreCommit {} {} {} {} {} {} {} {}", cf::z(epoch), prec, c1, c2, zt(&dep), cf::b(deals), cf::b(needs_cron), rp);
        if ok && pre.fee_debt > pre.unlocked() { fails.push(("debt-gate-open".into(), format!("PreCommitSectorBatch2 accepted with fee debt {} > unlocked {}", pre.fee_debt.atto(), pre.unlocked().atto()))); }
    } else if m == MinerMethod::DeclareFaultsRecovered as u64 {
        kind = "declare_recovered";
        let (mut prec, mut c1, mut c2) = (0u32, 0u32, 0u32);
        if !ok && !single_modelled_failure(ctx, t) {
            // parameter-shape checks precede the gate; caller and deadline checks follow it
            if codev == 16 && pre_gate_param_failure(&t) { prec = codev; }
            else if !pre.controls.contains(&t.from) { c1 = codev; } else { c2 = codev; }
        }
        op = format!("DeclareRecovered {} {} {} {} {}", cf::z(epoch), prec, c1, c2, rp);
        if ok && pre.fee_debt > pre.unlocked() { fails.push(("debt-gate-open".into(), format!("DeclareFaultsRecovered accepted with fee debt {} > unlocked {}", pre.fee_debt.atto(), pre.unlocked().atto()))); }
    } else {
        // un-modelled method (or a plain transfer): its effect on the ledger, when it succeeded alone
        kind = "other";
        if !ok { return None; }
        if !single {
            fails.push(("harness-unmodelled-in-multi-invocation-message".into(), format!("method {}", m)));
            return None;
        }
        op = format!("Other {} {} {}", zt(&(&post.bal - &pre.bal)), zt(&(&post.pcd - &pre.pcd)), zt(&(&post.ip - &pre.ip)));
        sends_enc = vec!["0".into()];
    }
    if !ok && codev == 19 && (kind == "withdraw" || kind == "pre_commit" || kind == "declare_recovered") && pre.fee_debt > pre.unlocked() {
        let key = format!("gate_rejections_in_debt_{}", kind);
        *stats.extra.entry(key.clone()).or_insert(serde_json::json!(0)) = serde_json::json!(stats.extra.get(&key).and_then(|x| x.as_u64()).unwrap_or(0) + 1);
    }
    // gated handlers that went through must have cleared the debt by burning it
    if ok && (kind == "withdraw" || kind == "pre_commit" || kind == "declare_recovered") && single {
        if !post.fee_debt.is_zero() || burnt != pre.fee_debt {
            fails.push(("gate-did-not-clear-debt".into(), format!("{}: fee debt {} -> {}, burnt {}", kind, pre.fee_debt.atto(), post.fee_debt.atto(), burnt.atto())));
        }
    }
    // value only ever flows to the burnt-funds actor, the reporter, or the withdrawal payee
    if ok {
        for s in &t.subinvocations {
            if s.value.is_positive() && s.exit_code.is_success() {
                let allowed = s.to == BURNT_FUNDS_ACTOR_ADDR
                    || ((kind == "report_consensus_fault" || kind == "dispute") && s.to == from_addr)
                    || (kind == "withdraw" && s.to == Address::new_id(pre.benef))
                    || kind == "other";
                if !allowed {
                    fails.push(("penalty-value-leak".into(), format!("{} sent {} to {}", kind, s.value.atto(), s.to)));
                }
            }
        }
    }
    // F1: the power actor rejected UpdatePledgeTotal with illegal_state (not injected)
    if !ok && !ctx.injected {
        let upt = t.subinvocations.iter().find(|s| s.to == STORAGE_POWER_ACTOR_ADDR && s.method == PowerMethod::UpdatePledgeTotal as u64 && !s.exit_code.is_success());
        let no_claim_send = t.subinvocations.iter().any(|s| s.to == STORAGE_POWER_ACTOR_ADDR && !s.exit_code.is_success()) && !pre.has_claim;
        if let Some(s) = upt.filter(|s| s.exit_code.value() == 20) {
            fails.push(("F1-pledge-total-negative".into(), format!("{}: power actor rejected UpdatePledgeTotal with {} -> handler failed with {} (padded network pledge: {})", kind, s.exit_code.value(), codev, w.padded)));
            CLAIM_LOSS_EXPLAINED.with(|c| *c.borrow_mut() = true);
        } else if no_claim_send {
            // the power actor deleted the miner's claim after a failed cron callback: every later call to it is forbidden
            *stats.extra.entry("handler_failures_after_claim_deleted".into()).or_insert(serde_json::json!(0)) =
                serde_json::json!(stats.extra.get("handler_failures_after_claim_deleted").and_then(|x| x.as_u64()).unwrap_or(0) + 1);
            if !CLAIM_LOSS_EXPLAINED.with(|c| *c.borrow()) {
                fails.push(("claim-deleted-unexplained".into(), format!("{}: the miner has no power claim although no cron callback failed under an injected failure or F1", kind)));
            }
        } else if kind == "cron_deadline" || kind == "cron_early_term" {
            fails.push(("deadline-cron-failed".into(), format!("{} failed with {} without an injected failure", kind, codev)));
        }
    }
    // a handler that aborts because the balance invariants broke has mis-accounted (e.g. paid out of collateral)
    if !ok && codev == ERR_BALANCE_INVARIANTS_BROKEN.value() {
        fails.push(("handler-aborted-balance-invariants".into(), format!("{} aborted with ERR_BALANCE_INVARIANTS_BROKEN", kind)));
    }
    if !ok && ctx.injected && (kind == "cron_deadline" || kind == "cron_early_term") {
        CLAIM_LOSS_EXPLAINED.with(|c| *c.borrow_mut() = true);
    }
    let mut obs = vec![cf::z(codev), zt(&charged), zt(&burnt), zt(&paid), "KEPT".to_string(), zt(&paid_out)];
    obs.extend(sends_enc);
    stats.op(kind, codev);
    Some(InvObs { op, obs, charged, burnt, paid, ok, kind })
}

fn single_modelled_failure(_ctx: &MsgCtx, _t: &InvocationTrace) -> bool {
    // set by the caller through a thread-local: the failure text of the top-level message
    LAST_MSG.with(|m| modelled_failure(&m.borrow()))
}
fn pre_gate_param_failure(_t: &InvocationTrace) -> bool {
    LAST_MSG.with(|m| {
        let s = m.borrow();
        s.contains("failed to process deadline") || s.contains("cannot process requested parameters")
    })
}
thread_local! {
    static BORING: std::cell::RefCell<u64> = std::cell::RefCell::new(0);
}
thread_local! {
    static CHARGED_SEEN: std::cell::RefCell<bool> = std::cell::RefCell::new(false);
}
thread_local! {
    static CLAIM_LOSS_EXPLAINED: std::cell::RefCell<bool> = std::cell::RefCell::new(false);
}
thread_local! {
    static LAST_MSG: std::cell::RefCell<String> = std::cell::RefCell::new(String::new());
}

fn estimates_pre(w: &W, _t: &InvocationTrace) -> (FilterEstimate, FilterEstimate) {
    PRE_EST.with(|e| e.borrow().clone()).unwrap_or_else(|| estimates(w))
}
thread_local! {
    static PRE_EST: std::cell::RefCell<Option<(FilterEstimate, FilterEstimate)>> = std::cell::RefCell::new(None);
}

fn check_term_events(t: &InvocationTrace, et: &EtSim, fails: &mut Vec<(String, String)>) {
    // the sector-terminated events of the invocation name exactly the sectors that were charged
    let mut evs: Vec<u64> = vec![];
    for e in &t.events {
        let mut is_term = false;
        let mut sector = None;
        for en in &e.event.entries {
            if en.key == "$type" {
                if let Ok(s) = fvm_ipld_encoding::from_slice::<String>(&en.value) { is_term = s == "sector-terminated"; }
            }
            if en.key == "sector" {
                if let Ok(n) = fvm_ipld_encoding::from_slice::<u64>(&en.value) { sector = Some(n); }
            }
        }
        if is_term { if let Some(n) = sector { evs.push(n); } }
    }
    let mut sims: Vec<u64> = et.sectors.iter().map(|s| s.4).collect();
    evs.sort();
    sims.sort();
    if evs != sims {
        fails.push(("terminated-sector-not-charged".into(), format!("sector-terminated events {:?} vs sectors charged {:?}", evs, sims)));
    }
}

fn check_fee_bounds(et: &EtSim, fails: &mut Vec<(String, String)>) {
    for (ip, age, ff, fee, sn) in &et.sectors {
        let lo = (ip * 2u32).div_floor(100u32);
        let lo2 = (ff * 105u32).div_floor(100u32);
        let hi = std::cmp::max((ip * 85u32).div_floor(1000u32), lo2.clone());
        if *fee < lo || *fee < lo2 || *fee > hi || fee.is_negative() {
            fails.push(("termination-fee-out-of-bounds".into(), format!("sector {} ip {} age {} ff {} fee {}", sn, ip.atto(), age, ff.atto(), fee.atto())));
        }
    }
}

/// One executed top-level message -> one correspondence step (a list of model operations) + monitors.
fn observe(w: &W, pre: &Snap, est: (FilterEstimate, FilterEstimate), d: &Done, injected: bool, inj_ord: Option<u64>, stats: &mut Stats)
    -> (Option<(String, Vec<String>)>, Vec<(String, String)>) {
    let post = snapshot(w);
    let mut fails: Vec<(String, String)> = vec![];
    let tr = match &d.trace { Some(t) => t, None => return (None, fails) };
    LAST_MSG.with(|m| *m.borrow_mut() = d.msg.clone());
    PRE_EST.with(|e| *e.borrow_mut() = Some(est));
    let mut invs = vec![];
    let mut ctr = 0u64;
    collect(tr, &w.miner, inj_ord, &mut ctr, true, true, &mut invs);
    let ctx = MsgCtx { sys_origin: tr.from == 0, injected };
    let mut sim = pre.st.clone();
    let mut v = pre.vested();
    let mut ops = vec![];
    let mut obs: Vec<String> = vec![];
    let single = invs.len() == 1;
    let (mut charged, mut burnt, mut paid) = (TokenAmount::zero(), TokenAmount::zero(), TokenAmount::zero());
    let mut kept_slot = None;
    let mut any_ok = false;
    let mut rf_failed_reporter: Option<TokenAmount> = None;
    let mut fhe = false;
    for t in &invs {
        if let Some(io) = observe_inv(w, t, pre, &post, &mut sim, &mut v, single, &ctx, stats, &mut fails, &mut fhe) {
            if io.ok {
                charged += &io.charged;
                burnt += &io.burnt;
                paid += &io.paid;
                any_ok = true;
                if io.kind == "report_consensus_fault" {
                    let from = Address::new_id(t.from);
                    if let Some(s) = t.subinvocations.iter().find(|s| s.to == from && s.method == METHOD_SEND && !s.exit_code.is_success()) {
                        rf_failed_reporter = Some(s.value.clone());
                    }
                }
            }
            ops.push(io.op);
            let base = obs.len();
            obs.extend(io.obs);
            kept_slot = Some(base + 4);
            for i in base..obs.len() { if obs[i] == "KEPT" && Some(i) != kept_slot { obs[i] = "0".into(); } }
        }
    }
    // ---- monitors on the real pre/post states and the trace ----
    let taken = &pre.fee_debt + &charged - &post.fee_debt; // what left the debt ledger
    let kept = &taken - &burnt - &paid;
    // earlier KEPT placeholders
    let n_kept = obs.iter().filter(|x| *x == "KEPT").count();
    let mut seen = 0;
    for x in obs.iter_mut() {
        if *x == "KEPT" {
            seen += 1;
            *x = if seen == n_kept { zt(&kept) } else { "0".into() };
        }
    }
    if charged.is_positive() { CHARGED_SEEN.with(|c| *c.borrow_mut() = true); }
    if !kept.is_zero() {
        match &rf_failed_reporter {
            Some(r) if *r == kept => fails.push(("F5-reporter-send-failure-keeps-reward".into(), format!(
                "report_consensus_fault: reporter transfer of {} failed; fee debt {} -> {}, charged {}, burnt {}, paid {}: {} is neither burnt nor owed",
                r.atto(), pre.fee_debt.atto(), post.fee_debt.atto(), charged.atto(), burnt.atto(), paid.atto(), kept.atto()))),
            _ => fails.push(("penalty-accounting".into(), format!(
                "fee debt {} -> {}, charged {}, burnt {}, reporter paid {}: discrepancy {}", pre.fee_debt.atto(), post.fee_debt.atto(), charged.atto(), burnt.atto(), paid.atto(), kept.atto()))),
        }
    }
    if paid > taken { fails.push(("reporter-overpaid".into(), format!("reporter paid {} > taken from the miner {}", paid.atto(), taken.atto()))); }
    if charged.is_negative() || burnt.is_negative() { fails.push(("negative-penalty".into(), format!("charged {} burnt {}", charged.atto(), burnt.atto()))); }
    if post.pcd.is_negative() || post.locked.is_negative() || post.ip.is_negative() || post.fee_debt.is_negative()
        || &post.pcd + &post.locked + &post.ip > post.bal {
        fails.push(("balance-invariants".into(), format!("bal {} locked {} pcd {} ip {} fee_debt {}", post.bal.atto(), post.locked.atto(), post.pcd.atto(), post.ip.atto(), post.fee_debt.atto())));
    }
    let tsum: BigInt = post.table.iter().map(|x| x.1.clone()).sum();
    if &tsum != post.locked.atto() { fails.push(("vesting-table-sum".into(), format!("table sum {} locked_funds {}", tsum, post.locked.atto()))); }
    let _ = any_ok;
    if ops.is_empty() {
        // no invocation on the miner: its funds must not have moved
        if pre.enc() != post.enc() {
            return (Some(("[]".to_string(), post.enc())), fails);
        }
        return (None, fails);
    }
    obs.extend(post.enc());
    // deadline ends that charge nothing and leave the funds untouched are the bulk of every history:
    // only every 8th of them is handed to the model (model and implementation states stay in step)
    if ops.len() == 1 && ops[0].starts_with("Cron ") && ops[0].contains("CronDeadline") && any_ok && charged.is_zero() && burnt.is_zero() && pre.enc() == post.enc() {
        let n = BORING.with(|c| { let mut c = c.borrow_mut(); *c += 1; *c });
        if n % 8 != 0 {
            *stats.extra.entry("idle_deadline_ends_not_emitted".into()).or_insert(serde_json::json!(0)) =
                serde_json::json!(stats.extra.get("idle_deadline_ends_not_emitted").and_then(|x| x.as_u64()).unwrap_or(0) + 1);
            return (None, fails);
        }
    }
    (Some((cf::list(ops), obs)), fails)
}

// ---------- the generator ----------
struct Hist {
    steps: Vec<(String, Vec<String>)>,
    script: Vec<String>,
    fails: Vec<serde_json::Value>,
    accepted_penalised: bool,
    rejected: bool,
}

struct Run<'a> {
    w: W,
    r: Prng,
    stats: &'a mut Stats,
    h: Hist,
    seed: u64,
    case: u64,
    agenda: Vec<Act>,
    want_sectors: usize,
    cron_faults: bool,
    len: usize,
}

impl<'a> Run<'a> {
    /// executes one top-level message (optionally under a fault plan) and records it
    fn go<P: Serialize>(&mut self, what: &str, from: Address, to: Address, value: TokenAmount, method: u64, params: Option<P>, plan: Option<(u64, ExitCode)>) -> Done {
        let pre = snapshot(&self.w);
        let est = estimates(&self.w);
        self.w.v.fail_plan.replace(plan);
        let d = msg(&self.w, &from, &to, &value, method, params);
        self.w.v.fail_plan.replace(None);
        let injected_hit = plan.is_some();
        let label = format!("{}{}@{} -> {}", what, plan.map(|p| format!("+fail[{}:{}]", p.0, p.1.value())).unwrap_or_default(), pre.epoch, d.code);
        if std::env::var("PENALTY_DEBUG").is_ok() { eprintln!("[{}] {} :: {}", self.case, label, d.msg.chars().take(160).collect::<String>()); }
        self.h.script.push(label);
        let (step, fails) = observe(&self.w, &pre, est, &d, injected_hit, plan.map(|p| p.0), self.stats);
        if let Some(s) = step { self.h.steps.push(s); }
        if d.code != 0 { self.h.rejected = true; }
        for (cls, whatf) in fails {
                self.h.fails.push(serde_json::json!({"class": cls, "what": [whatf], "step": self.h.script.len() - 1,
                    "case": {"seed": self.seed, "case": self.case, "len": self.len, "script": self.h.script.clone()}}));
        }
        for p in self.w.v.panics.borrow_mut().drain(..) { self.stats.panics.push(p); }
        d
    }

    fn state(&self) -> MinerState { get_state(&self.w.v, &self.w.miner).unwrap() }

    fn maybe_plan(&mut self, pct: u64, max_ord: u64) -> Option<(u64, ExitCode)> {
        if self.r.chance(pct) {
            let codes = [ExitCode::USR_ILLEGAL_ARGUMENT, ExitCode::USR_ILLEGAL_STATE, ExitCode::USR_ASSERTION_FAILED, ExitCode::USR_FORBIDDEN, ExitCode::USR_INSUFFICIENT_FUNDS];
            Some((self.r.below(max_ord), *self.r.pick(&codes)))
        } else { None }
    }

    fn tick(&mut self, plan: Option<(u64, ExitCode)>) {
        self.go::<()>("cron", SYSTEM_ACTOR_ADDR, CRON_ACTOR_ADDR, TokenAmount::zero(), fil_actor_cron::Method::EpochTick as u64, None, plan);
    }

    /// PoSt for the open deadline (if it has live sectors), then the cron at the deadline's last epoch
    fn advance_deadline(&mut self, prove: u8) {
        let st = self.state();
        let store = self.w.v.store.clone();
        let policy = self.w.v.policy.clone();
        let epoch = self.w.v.epoch();
        let dl = st.deadline_info(&policy, epoch);
        if prove > 0 && dl.period_started() && epoch >= dl.open {
            if let Ok(dls) = st.load_deadlines(store.as_ref()) {
                if let Ok(d) = dls.load_deadline(store.as_ref(), dl.index) {
                    if d.live_sectors > 0 {
                        let mut parts = vec![];
                        if let Ok(parr) = d.partitions_amt(store.as_ref()) {
                            let _ = parr.for_each(|i, p| {
                                let live = p.live_sectors();
                                if !live.is_empty() {
                                    parts.push((i, live, p.faults.clone(), p.recoveries.clone()));
                                }
                                Ok(())
                            });
                        }
                        if !parts.is_empty() {
                            let invalid = prove == 2;
                            let skip = prove == 3;
                            let partitions: Vec<PoStPartition> = parts.iter().map(|(i, live, faults, _)| {
                                let mut skipped = BitField::new();
                                if skip {
                                    let healthy = live - faults;
                                    if let Some(s) = healthy.first() { skipped.set(s); }
                                }
                                PoStPartition { index: *i, skipped }
                            }).collect();
                            let params = SubmitWindowedPoStParams {
                                deadline: dl.index,
                                partitions,
                                proofs: vec![PoStProof {
                                    post_proof: RegisteredPoStProof::StackedDRGWindow32GiBV1P1,
                                    proof_bytes: if invalid { TEST_VM_INVALID_POST.as_bytes().to_vec() } else { vec![] },
                                }],
                                chain_commit_epoch: dl.challenge,
                                chain_commit_rand: Randomness(TEST_VM_RAND_ARRAY.into()),
                            };
                            let (worker, miner) = (self.w.worker, self.w.miner);
                            let d = self.go(if invalid { "post[invalid]" } else if skip { "post[skip]" } else { "post" }, worker, miner, TokenAmount::zero(), MinerMethod::SubmitWindowedPoSt as u64, Some(params), None);
                            if d.code == 0 { self.w.posts.push((dl.index, epoch, invalid)); }
                        }
                    }
                }
            }
        }
        self.w.v.set_epoch(dl.last());
        let plan = if self.cron_faults { self.maybe_plan(3, 9) } else { None };
        self.tick(plan);
        self.w.v.set_epoch(dl.last() + 1);
    }

    fn pre_commit(&mut self, from: Address) {
        let n = 1 + self.r.below(2);
        let epoch = self.w.v.epoch();
        let proof = RegisteredSealProof::StackedDRG32GiBV1P1;
        let policy = self.w.v.policy.clone();
        let expiration = epoch + policy.min_sector_expiration + max_prove_commit_duration(&policy, proof).unwrap() + self.r.range(0, 40) * EPOCHS_IN_DAY;
        let base = self.w.next_sector;
        let bad = self.r.chance(6);
        let sectors: Vec<SectorPreCommitInfo> = (0..n).map(|i| SectorPreCommitInfo {
            seal_proof: proof,
            sector_number: base + i,
            sealed_cid: make_sealed_cid(format!("sn: {}", base + i).as_bytes()),
            seal_rand_epoch: if bad { epoch + 5 } else { epoch - 1 },
            deal_ids: vec![],
            expiration,
            unsealed_cid: CompactCommD::empty(),
        }).collect();
        self.w.next_sector += n;
        let miner = self.w.miner;
        let plan = self.maybe_plan(4, 4);
        let d = self.go("precommit", from, miner, TokenAmount::zero(), MinerMethod::PreCommitSectorBatch2 as u64, Some(PreCommitSectorBatchParams2 { sectors }), plan);
        if d.code == 0 { for i in 0..n { self.w.pending.push((base + i, epoch)); } }
    }

    fn prove_commit(&mut self) {
        let epoch = self.w.v.epoch();
        let delay = self.w.v.policy.pre_commit_challenge_delay;
        let ready: Vec<u64> = self.w.pending.iter().filter(|p| epoch > p.1 + delay).map(|p| p.0).collect();
        if ready.is_empty() { return; }
        self.w.pending.retain(|p| !ready.contains(&p.0));
        let acts: Vec<SectorActivationManifest> = ready.iter().map(|n| SectorActivationManifest { sector_number: *n, pieces: vec![] }).collect();
        let params = ProveCommitSectors3Params {
            sector_activations: acts.clone(),
            sector_proofs: acts.iter().map(|sa| RawBytes::new(vec![sa.sector_number as u8; 4])).collect(),
            aggregate_proof: vec![].into(),
            aggregate_proof_type: None,
            require_activation_success: false,
            require_notification_success: false,
        };
        let (worker, miner) = (self.w.worker, self.w.miner);
        let d = self.go("provecommit", worker, miner, TokenAmount::zero(), MinerMethod::ProveCommitSectors3 as u64, Some(params), None);
        if d.code == 0 {
            let st = self.state();
            for n in ready { if st.get_sector(self.w.v.store.as_ref(), n).ok().flatten().is_some() { self.w.live.push(n); } }
        }
    }

    fn locate(&self, n: u64) -> Option<(u64, u64)> {
        self.state().find_sector(self.w.v.store.as_ref(), n).ok()
    }

    fn pick_sectors(&mut self, k: usize) -> Vec<(u64, u64, u64)> {
        // (deadline, partition, sector)
        let mut out = vec![];
        if self.w.live.is_empty() { return out; }
        for _ in 0..k {
            let n = *self.r.pick(&self.w.live.clone());
            if let Some((d, p)) = self.locate(n) { if !out.iter().any(|x: &(u64, u64, u64)| x.2 == n) { out.push((d, p, n)); } }
        }
        out
    }

    fn declare(&mut self, recover: bool, from: Address) {
        let k0 = 1 + self.r.below(2) as usize;
        let secs = self.pick_sectors(k0);
        if secs.is_empty() { return; }
        let miner = self.w.miner;
        let mut by: BTreeMap<(u64, u64), Vec<u64>> = BTreeMap::new();
        for (d, p, n) in secs { by.entry((d, p)).or_default().push(n); }
        if recover {
            let recoveries = by.into_iter().map(|((d, p), ns)| RecoveryDeclaration { deadline: d, partition: p, sectors: BitField::try_from_bits(ns).unwrap() }).collect();
            self.go("declare_recovered", from, miner, TokenAmount::zero(), MinerMethod::DeclareFaultsRecovered as u64, Some(DeclareFaultsRecoveredParams { recoveries }), None);
        } else {
            let faults = by.into_iter().map(|((d, p), ns)| FaultDeclaration { deadline: d, partition: p, sectors: BitField::try_from_bits(ns).unwrap() }).collect();
            self.go("declare_faults", from, miner, TokenAmount::zero(), MinerMethod::DeclareFaults as u64, Some(DeclareFaultsParams { faults }), None);
        }
    }

    fn terminate(&mut self, from: Address) {
        let k = 1 + self.r.below(6) as usize;
        let secs = self.pick_sectors(k);
        if secs.is_empty() { return; }
        let miner = self.w.miner;
        let mut by: BTreeMap<(u64, u64), Vec<u64>> = BTreeMap::new();
        for (d, p, n) in secs { by.entry((d, p)).or_default().push(n); }
        let terminations = by.into_iter().map(|((d, p), ns)| TerminationDeclaration { deadline: d, partition: p, sectors: BitField::try_from_bits(ns).unwrap() }).collect();
        let plan = self.maybe_plan(12, 6);
        self.go("terminate", from, miner, TokenAmount::zero(), MinerMethod::TerminateSectors as u64, Some(TerminateSectorsParams { terminations }), plan);
    }

    fn dispute(&mut self, at: Option<u64>) {
        let miner = self.w.miner;
        let reporter = if self.r.chance(85) { self.w.reporter } else { self.w.owner };
        let (deadline, post_index) = if let Some(d) = at {
            (d, 0)
        } else if !self.w.posts.is_empty() && self.r.chance(85) {
            let p = *self.r.pick(&self.w.posts.clone());
            (p.0, if self.r.chance(90) { 0 } else { 1 })
        } else { (self.r.below(50), 0) };
        let plan = if self.r.chance(35) { Some((2 + self.r.below(2), ExitCode::USR_FORBIDDEN)) } else { self.maybe_plan(8, 6) };
        self.go("dispute", reporter, miner, TokenAmount::zero(), MinerMethod::DisputeWindowedPoSt as u64, Some(DisputeWindowedPoStParams { deadline, post_index }), plan);
    }

    fn report_fault(&mut self) {
        let miner = self.w.miner;
        let epoch = self.w.v.epoch();
        let reporter = match self.r.below(10) { 0 => self.w.owner, 1 => self.w.stranger, _ => self.w.reporter };
        let fault = match self.r.below(12) {
            0 => None,
            1 => Some(ConsensusFault { target: self.w.owner, epoch: epoch - 1, fault_type: ConsensusFaultType::DoubleForkMining }),
            2 => Some(ConsensusFault { target: miner, epoch: epoch + self.r.range(0, 3), fault_type: ConsensusFaultType::TimeOffsetMining }),
            _ => Some(ConsensusFault { target: miner, epoch: epoch - 1 - self.r.range(0, 30), fault_type: ConsensusFaultType::DoubleForkMining }),
        };
        self.w.v.consensus_fault.replace(fault);
        let plan = if self.r.chance(40) { Some((1, *self.r.pick(&[ExitCode::USR_FORBIDDEN, ExitCode::USR_ILLEGAL_STATE, ExitCode::SYS_INSUFFICIENT_FUNDS]))) } else { self.maybe_plan(10, 5) };
        let p = ReportConsensusFaultParams { header1: vec![1], header2: vec![2], header_extra: vec![] };
        self.go("report_fault", reporter, miner, TokenAmount::zero(), MinerMethod::ReportConsensusFault as u64, Some(p), plan);
        self.w.v.consensus_fault.replace(None);
    }

    /// scripted: a valid consensus-fault report, optionally with the reporter transfer failing
    fn report_fault_exact(&mut self, fail_reporter_send: bool) {
        let miner = self.w.miner;
        let epoch = self.w.v.epoch();
        let reporter = self.w.reporter;
        self.w.v.consensus_fault.replace(Some(ConsensusFault { target: miner, epoch: epoch - 1, fault_type: ConsensusFaultType::DoubleForkMining }));
        let plan = if fail_reporter_send { Some((1, ExitCode::USR_FORBIDDEN)) } else { None };
        let p = ReportConsensusFaultParams { header1: vec![1], header2: vec![2], header_extra: vec![] };
        self.go("report_fault", reporter, miner, TokenAmount::zero(), MinerMethod::ReportConsensusFault as u64, Some(p), plan);
        self.w.v.consensus_fault.replace(None);
    }

    fn award(&mut self) {
        let penalty = match self.r.below(4) { 0 => TokenAmount::zero(), 1 => ta(self.r.below(1 << 40) as i128), _ => ta(self.r.below(200) as i128 * FIL / 4) };
        let p = AwardBlockRewardParams { miner: self.w.miner, penalty, gas_reward: ta(self.r.below(1 << 50) as i128), win_count: self.r.range(1, 3) };
        let plan = self.maybe_plan(8, 5);
        self.go("award", SYSTEM_ACTOR_ADDR, REWARD_ACTOR_ADDR, TokenAmount::zero(), RewardMethod::AwardBlockReward as u64, Some(p), plan);
    }

    fn withdraw(&mut self, from: Address, all: bool) {
        let miner = self.w.miner;
        let amt = if all { TokenAmount::from_whole(10_000_000) } else { ta(self.r.below(50) as i128 * FIL) };
        let plan = self.maybe_plan(4, 4);
        self.go("withdraw", from, miner, TokenAmount::zero(), MinerMethod::WithdrawBalance as u64, Some(WithdrawBalanceParams { amount_requested: amt }), plan);
    }

    fn cur_dl(&self) -> u64 {
        self.state().deadline_info(&self.w.v.policy, self.w.v.epoch()).index
    }

    /// advance (proving every deadline on the way) to deadline `target`, then close it with `mode`
    fn travel(&mut self, target: u64, mode: u8) {
        let mut guard = 0;
        while self.cur_dl() != target && guard < 50 {
            self.advance_deadline(1);
            guard += 1;
        }
        self.advance_deadline(mode);
    }

    fn act(&mut self, a: Act) {
        let (owner, worker, stranger, funder, miner) = (self.w.owner, self.w.worker, self.w.stranger, self.w.funder, self.w.miner);
        match a {
            Act::Advance(mode) => self.advance_deadline(mode),
            Act::AdvanceMany(n, prove_pct) => {
                for _ in 0..n { let p = if self.r.chance(prove_pct) { 1 } else { 0 }; self.advance_deadline(p); }
            }
            Act::Travel(mode) => {
                if self.w.live.is_empty() { self.advance_deadline(1); return; }
                let n = *self.r.pick(&self.w.live.clone());
                match self.locate(n) {
                    Some((d, _)) => {
                        self.travel(d, mode);
                        if mode == 2 && self.r.chance(75) {
                            self.agenda.extend([Act::Advance(1), Act::Advance(1), Act::DisputeAt(d)]);
                        }
                        if (mode == 0 || mode == 3) && self.r.chance(45) {
                            self.agenda.push(Act::AdvanceMany(48 + self.r.below(50), 100));
                        }
                    }
                    None => self.advance_deadline(1),
                }
            }
            Act::PreCommit => {
                let f = if self.r.chance(93) { worker } else { stranger };
                let before = self.w.pending.len();
                self.pre_commit(f);
                if self.w.pending.len() > before {
                    self.agenda.extend([Act::Advance(1), Act::Advance(1), Act::Advance(1), Act::ProveCommit]);
                }
            }
            Act::ProveCommit => self.prove_commit(),
            Act::DeclareFaults => {
                let f = if self.r.chance(92) { worker } else { stranger };
                self.declare(false, f);
                if self.r.chance(40) { self.agenda.push(Act::AdvanceMany(48 + self.r.below(50), 100)); }
            }
            Act::DeclareRecovered => { let f = if self.r.chance(90) { worker } else { stranger }; self.declare(true, f) }
            Act::Terminate => { let f = if self.r.chance(92) { worker } else { stranger }; self.terminate(f) }
            Act::Dispute => self.dispute(None),
            Act::DisputeAt(d) => self.dispute(Some(d)),
            Act::ReportFault => self.report_fault(),
            Act::Award => self.award(),
            Act::Withdraw => { let f = if self.r.chance(90) { owner } else { stranger }; let all = self.r.chance(55); self.withdraw(f, all) }
            Act::RepayDebt => {
                let f = if self.r.chance(85) { worker } else { stranger };
                let plan = self.maybe_plan(8, 3);
                self.go::<()>("repay_debt", f, miner, TokenAmount::zero(), MinerMethod::RepayDebt as u64, None, plan);
            }
            Act::Fund => { let amt = ta(self.r.below(80) as i128 * FIL); self.go::<()>("fund", funder, miner, amt, METHOD_SEND, None, None); }
            Act::Ticks => {
                for _ in 0..(1 + self.r.below(3)) { let e = self.w.v.epoch(); self.tick(None); self.w.v.set_epoch(e + 1); }
            }
        }
    }

    fn step(&mut self, i: usize, len: usize) {
        if !self.agenda.is_empty() && self.r.chance(85) {
            let a = self.agenda.remove(0);
            self.act(a);
            return;
        }
        // onboarding bias in the first half
        if i < len / 2 && (self.w.live.len() + self.w.pending.len()) < self.want_sectors && self.r.chance(45) {
            self.act(Act::PreCommit);
            return;
        }
        let a = match self.r.below(100) {
            0..=15 => Act::Travel(match self.r.below(20) { 0..=6 => 1, 7..=11 => 2, 12..=14 => 3, _ => 0 }),
            16..=23 => Act::Advance(if self.r.chance(70) { 1 } else { 0 }),
            24..=25 => Act::AdvanceMany(48, 90),
            26..=27 => Act::Advance(1),
            28..=29 => Act::AdvanceMany(2 + self.r.below(5), 50),
            30..=37 => Act::PreCommit,
            38..=41 => Act::ProveCommit,
            42..=47 => Act::DeclareFaults,
            48..=55 => Act::DeclareRecovered,
            56..=62 => Act::Terminate,
            63..=66 => Act::Dispute,
            67..=72 => Act::ReportFault,
            73..=79 => Act::Award,
            80..=86 => Act::Withdraw,
            87..=89 => Act::RepayDebt,
            90..=94 => Act::Fund,
            _ => Act::Ticks,
        };
        self.act(a);
    }
}

#[derive(Clone, Copy, Debug)]
enum Act {
    Advance(u8),
    AdvanceMany(u64, u64),
    Travel(u8),
    PreCommit,
    ProveCommit,
    DeclareFaults,
    DeclareRecovered,
    Terminate,
    Dispute,
    DisputeAt(u64),
    ReportFault,
    Award,
    Withdraw,
    RepayDebt,
    Fund,
    Ticks,
}

/// corpus: the witness history of finding F5 (kept as a regression once the defect is repaired):
/// a consensus fault reported twice, 1000 epochs apart, the first time with the reporter transfer failing
fn run_scripted(stats: &mut Stats) -> (Case, Vec<serde_json::Value>) {
    let plan = Plan { extra_fil: 100, pad: true, small_batches: false, circ_fil: 1_000_000, workflow_onboard: 0, fault_age_periods: 0 };
    let w = setup(&plan);
    CLAIM_LOSS_EXPLAINED.with(|c| *c.borrow_mut() = false);
    CHARGED_SEEN.with(|c| *c.borrow_mut() = false);
    let init = snapshot(&w).coq();
    let mut run = Run { w, r: Prng::new(7), stats, h: Hist { steps: vec![], script: vec!["scripted F5 witness".into()], fails: vec![], accepted_penalised: false, rejected: false },
        seed: 0, case: u64::MAX, agenda: vec![], want_sectors: 0, cron_faults: false, len: 0 };
    run.report_fault_exact(true);
    let e = run.w.v.epoch();
    run.w.v.set_epoch(e + 1000);
    run.report_fault_exact(false);
    let owner = run.w.owner;
    run.withdraw(owner, true);
    (Case { init, steps: run.h.steps, nontrivial: true }, run.h.fails)
}

fn run_case(seed: u64, k: u64, len: usize, stats: &mut Stats) -> (Case, Vec<serde_json::Value>) {
    if k == u64::MAX {
        return run_scripted(stats);
    }
    let mut root = Prng::new(seed);
    for _ in 0..k { root.next_u64(); }
    let mut r = root.fork(k);
    let plan = Plan {
        extra_fil: if r.chance(15) { *r.pick(&[0i64, 1, 5]) } else { *r.pick(&[60i64, 150, 400, 5000]) },
        pad: !r.chance(8),
        small_batches: r.chance(12),
        circ_fil: *r.pick(&[0i64, 1_000_000, 500_000_000]),
        workflow_onboard: if r.chance(55) { 1 + r.below(5) } else { 0 },
        fault_age_periods: 0,
    };
    let mut plan = plan;
    if plan.small_batches || r.chance(35) { plan.fault_age_periods = 1 + r.below(2) as i64; }
    if plan.small_batches && plan.workflow_onboard < 3 { plan.workflow_onboard = 3 + r.below(3); plan.extra_fil = plan.extra_fil.max(400); }
    let key = if plan.pad { "histories_with_padded_network_pledge_total" } else { "histories_without_padding" };
    *stats.extra.entry(key.into()).or_insert(serde_json::json!(0)) = serde_json::json!(stats.extra.get(key).and_then(|x| x.as_u64()).unwrap_or(0) + 1);
    let w = setup(&plan);
    CLAIM_LOSS_EXPLAINED.with(|c| *c.borrow_mut() = false);
    CHARGED_SEEN.with(|c| *c.borrow_mut() = false);
    let init = snapshot(&w).coq();
    let want = 1 + r.below(7) as usize;
    let mut run = Run { w, r, stats, h: Hist { steps: vec![], script: vec![], fails: vec![], accepted_penalised: false, rejected: false }, seed, case: k, agenda: vec![], want_sectors: want, cron_faults: false, len };
    run.cron_faults = run.r.chance(15);
    run.h.script.push(format!("setup extra={}FIL pad={} small_batches={} circ={}FIL workflow_onboard={} fault_age_periods={}", plan.extra_fil, plan.pad, plan.small_batches, plan.circ_fil, plan.workflow_onboard, plan.fault_age_periods));
    if std::env::var("PENALTY_DEBUG").is_ok() { eprintln!("[{}] {}", k, run.h.script[0]); }
    for i in 0..len {
        run.step(i, len);
    }
    let nontrivial = run.h.rejected && CHARGED_SEEN.with(|c| *c.borrow());
    let _ = run.h.accepted_penalised;
    (Case { init, steps: run.h.steps, nontrivial }, run.h.fails)
}

fn main() {
    std::panic::set_hook(Box::new(|_| {}));
    let a = cf::parse_args();
    if a.rest.get("mode").map(|s| s.as_str()) == Some("formula") {
        run_formula(&a);
        return;
    }
    let mut stats = Stats::default();
    let header = "From VF Require Import Model.Penalty Base.Corr.\nFrom Coq Require Import ZArith List.\nImport ListNotations.\nOpen Scope Z_scope.\n";
    let mut cw = CaseWriter::new(&a.out, header, "check_case", a.shards);
    let mut all_fails: Vec<serde_json::Value> = vec![];
    if let Some(p) = &a.replay {
        let v: serde_json::Value = serde_json::from_str(&std::fs::read_to_string(p).unwrap()).unwrap();
        let c = if v["violation"]["detail"]["case"].is_object() { &v["violation"]["detail"]["case"] } else { &v["case"] };
        let len = c["len"].as_u64().map(|x| x as usize).unwrap_or(a.len);
        let (case, fails) = run_case(c["seed"].as_u64().unwrap(), c["case"].as_u64().unwrap(), len, &mut stats);
        cw.push(case);
        all_fails.extend(fails);
    } else {
        {
            let (case, fails) = run_case(a.seed, u64::MAX, a.len, &mut stats);
            cw.push(case);
            all_fails.extend(fails);
        }
        for k in 0..a.cases {
            let (case, fails) = run_case(a.seed, k as u64, a.len, &mut stats);
            cw.push(case);
            all_fails.extend(fails);
        }
    }
    // report at most 3 failures per class, unknown classes first (Stats keeps only the first 20)
    let mut per: BTreeMap<String, u64> = BTreeMap::new();
    let known = |c: &str| c.starts_with("F1-") || c.starts_with("F5-");
    let mut ordered: Vec<&serde_json::Value> = all_fails.iter().filter(|f| !known(f["class"].as_str().unwrap_or(""))).collect();
    ordered.extend(all_fails.iter().filter(|f| known(f["class"].as_str().unwrap_or(""))));
    let mut counts: BTreeMap<String, u64> = BTreeMap::new();
    for f in &all_fails { *counts.entry(f["class"].as_str().unwrap_or("?").to_string()).or_insert(0) += 1; }
    for f in ordered {
        let c = f["class"].as_str().unwrap_or("?").to_string();
        let n = per.entry(c).or_insert(0);
        if *n < 3 { stats.monitor_fail(f.clone()); }
        *n += 1;
    }
    stats.extra.insert("monitor_failures_by_class".into(), serde_json::json!(counts));
    stats.extra.insert("note".into(), serde_json::json!("most histories first raise the power actor's total_pledge_collateral by 1e9 FIL (UpdatePledgeTotal injected from the miner actor) so that finding F1 does not block the deadline cron / ApplyRewards / WithdrawBalance; the un-padded share reports F1 under class F1-pledge-total-negative"));
    cw.finish(&stats, "penalty");
}
