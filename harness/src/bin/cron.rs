//! C05 harness: the epoch cron on the harness VM, EpochTick executed at EVERY epoch, 1-3 real miners created
//! through the real Power::CreateMiner (deposit left in place), sectors pre-committed / proven / terminated
//! with direct messages, user messages placed around deadline boundaries, funds moved by WithdrawBalance and
//! block rewards, individual nested sends failed with the VM's fault plan.  After every message and every tick
//! the power actor's cron queue, first_cron_epoch, miner_count, the claim set and every miner's schedule state
//! are compared with coq/Model/Cron.v; monitors evaluate the property on the real states / traces.
use fil_actor_cron::Method as CronMethod;
use fil_actor_miner::{
    CompactCommD, CronEventPayload, DeferredCronEventParams, Method as MinerMethod, PoStPartition,
    PreCommitSectorBatchParams2, ProveCommitSectors3Params, SectorActivationManifest, SectorPreCommitInfo,
    State as MinerState, SubmitWindowedPoStParams, TerminateSectorsParams, TerminationDeclaration,
    WithdrawBalanceParams, max_prove_commit_duration,
};
use fil_actor_power::{
    CRON_QUEUE_AMT_BITWIDTH, CRON_QUEUE_HAMT_BITWIDTH, CreateMinerParams, CreateMinerReturn, CronEvent,
    EnrollCronEventParams, Method as PowerMethod, State as PowerState, UpdatePledgeTotalParams,
};
use fil_actor_reward::{AwardBlockRewardParams, Method as RewardMethod};
use fil_actors_integration_tests::util::*;
use fil_actors_runtime::runtime::Policy;
use fil_actors_runtime::test_utils::make_sealed_cid;
use fil_actors_runtime::{
    Array, BURNT_FUNDS_ACTOR_ADDR, CRON_ACTOR_ADDR, Multimap, REWARD_ACTOR_ADDR, STORAGE_MARKET_ACTOR_ADDR,
    STORAGE_POWER_ACTOR_ADDR, SYSTEM_ACTOR_ADDR,
};
use fvm_ipld_bitfield::BitField;
use fvm_ipld_encoding::{BytesDe, RawBytes};
use fvm_shared::address::Address;
use fvm_shared::econ::TokenAmount;
use fvm_shared::error::ExitCode;
use fvm_shared::randomness::Randomness;
use fvm_shared::sector::{PoStProof, RegisteredPoStProof, RegisteredSealProof};
use num_traits::Zero;
use serde::{Deserialize, Serialize};
use std::collections::{BTreeMap, BTreeSet, HashMap};
use vharness::coqfmt::{self as cf, Case, CaseWriter, Stats};
use vharness::prng::Prng;
use vharness::util::*;
use vharness::vvm::{TEST_VM_RAND_ARRAY, Vvm};
use vm_api::VM;
use vm_api::trace::InvocationTrace;
use vm_api::util::get_state;

const PERIOD: i64 = 2880;
const WINDOW: i64 = 60;
#[allow(dead_code)]
const NDL: i64 = 48;
const PD: i64 = 1;
const ET: i64 = 2;

#[derive(Clone, Serialize, Deserialize, Debug)]
struct Cfg {
    seed: u64,
    case: u64,
    len: usize,
    /// "random" | "f1" | "f2" | "f7" | "drain" | "idle"
    scenario: String,
}

struct M {
    id: Address,
    idn: u64,
    owner: Address,
    worker: Address,
    next_sector: u64,
    pending: Vec<(u64, i64)>,
    proven: Vec<u64>,
    sector_dl: HashMap<u64, (u64, u64)>,
    deals_of: HashMap<u64, Vec<u64>>,
    next_commd: Option<(CompactCommD, Vec<u64>)>,
    pre: bool,
    synced: bool,
    diligent: bool,
    reported: BTreeSet<String>,
}

struct W {
    v: Vvm,
    accts: Vec<Address>,
    miners: Vec<M>,
    padded: bool,
    cache: std::cell::RefCell<SnapCache>,
}

/// decoded parts of the last snapshot, keyed by the CIDs they were decoded from
#[derive(Default)]
struct SnapCache {
    claims: Option<(cid::Cid, BTreeSet<u64>)>,
    queue: Option<(cid::Cid, BTreeMap<i64, Vec<(u64, i64)>>)>,
    miners: HashMap<u64, (cid::Cid, MSnap)>,
}

#[derive(Clone, Debug, PartialEq)]
struct MSnap {
    pps: i64,
    dl: u64,
    active: bool,
    et: u64,
    pcd: TokenAmount,
    ip: TokenAmount,
    locked: TokenAmount,
}
#[derive(Clone, Debug)]
struct Snap {
    first_cron: i64,
    miner_count: i64,
    claims: BTreeSet<u64>,
    queue: BTreeMap<i64, Vec<(u64, i64)>>,
    miners: BTreeMap<u64, MSnap>,
}

fn et_count(v: &Vvm, st: &MinerState) -> u64 {
    if st.early_terminations.is_empty() {
        return 0;
    }
    let store = v.store.as_ref();
    let dls = st.load_deadlines(store).unwrap();
    let mut n = 0u64;
    for d in st.early_terminations.iter() {
        let dl = dls.load_deadline(store, d).unwrap();
        let parts = dl.partitions_amt(store).unwrap();
        for p in dl.early_terminations.iter() {
            let part = parts.get(p).unwrap().unwrap();
            let q: Array<BitField, _> = Array::load(&part.early_terminated, store).unwrap();
            q.for_each(|_, bf| {
                n += bf.len();
                Ok(())
            })
            .unwrap();
        }
    }
    n
}

fn msnap(v: &Vvm, id: &Address) -> MSnap {
    let st: MinerState = get_state(v, id).unwrap();
    MSnap {
        pps: st.proving_period_start,
        dl: st.current_deadline,
        active: st.deadline_cron_active,
        et: et_count(v, &st),
        pcd: st.pre_commit_deposits.clone(),
        ip: st.initial_pledge.clone(),
        locked: st.locked_funds.clone(),
    }
}

fn snapshot(w: &W) -> Snap {
    let v = &w.v;
    let pst: PowerState = get_state(v, &STORAGE_POWER_ACTOR_ADDR).unwrap();
    let store = v.store.as_ref();
    let mut cache = w.cache.borrow_mut();
    let claims = match &cache.claims {
        Some((c, cl)) if *c == pst.claims => cl.clone(),
        _ => {
            let mut claims = BTreeSet::new();
            let cm = pst.load_claims(store).unwrap();
            cm.for_each(|a, _| {
                claims.insert(a.id().unwrap());
                Ok(())
            })
            .unwrap();
            cache.claims = Some((pst.claims, claims.clone()));
            claims
        }
    };
    let queue = match &cache.queue {
        Some((c, q)) if *c == pst.cron_event_queue => q.clone(),
        _ => {
            let mut queue: BTreeMap<i64, Vec<(u64, i64)>> = BTreeMap::new();
            let mm = Multimap::from_root(store, &pst.cron_event_queue, CRON_QUEUE_HAMT_BITWIDTH, CRON_QUEUE_AMT_BITWIDTH).unwrap();
            mm.for_all::<_, CronEvent>(|key, events| {
                // epoch_key() is the zig-zag (signed) varint of the epoch
                let epoch = <i64 as integer_encoding::VarInt>::decode_var(key).unwrap().0;
                let mut l = vec![];
                events
                    .for_each(|_, ev| {
                        let p: CronEventPayload = fvm_ipld_encoding::from_slice(ev.callback_payload.bytes()).unwrap();
                        l.push((ev.miner_addr.id().unwrap(), p.event_type));
                        Ok(())
                    })
                    .unwrap();
                if !l.is_empty() {
                    queue.insert(epoch, l);
                }
                Ok(())
            })
            .unwrap();
            cache.queue = Some((pst.cron_event_queue, queue.clone()));
            queue
        }
    };
    let mut miners = BTreeMap::new();
    for m in &w.miners {
        let head = v.actor(&m.id).unwrap().state;
        let ms = match cache.miners.get(&m.idn) {
            Some((c, ms)) if *c == head => ms.clone(),
            _ => {
                let ms = msnap(v, &m.id);
                cache.miners.insert(m.idn, (head, ms.clone()));
                ms
            }
        };
        miners.insert(m.idn, ms);
    }
    Snap { first_cron: pst.first_cron_epoch, miner_count: pst.miner_count, claims, queue, miners }
}

fn obs(s: &Snap, code: u32, now: i64, log: &[(u64, i64, bool)]) -> Vec<String> {
    let mut o = vec![cf::z(if code == 0 { 0 } else { 1 }), cf::z(now), cf::z(s.first_cron), cf::z(s.miner_count)];
    o.push(cf::z(s.claims.len()));
    for c in &s.claims {
        o.push(cf::z(c));
    }
    o.push(cf::z(s.queue.len()));
    for (k, l) in &s.queue {
        o.push(cf::z(k));
        o.push(cf::z(l.len()));
        for (m, kd) in l {
            o.push(cf::z(m));
            o.push(cf::z(kd));
        }
    }
    for (id, m) in &s.miners {
        o.push(cf::z(id));
        o.push(cf::z(m.pps));
        o.push(cf::z(m.dl));
        o.push(cf::z(m.active as u8));
        o.push(cf::z(m.et));
    }
    o.push(cf::z(log.len()));
    for (m, k, f) in log {
        o.push(cf::z(m));
        o.push(cf::z(k));
        o.push(cf::z(*f as u8));
    }
    o
}

fn triple(m: &MSnap) -> String {
    format!("({}, {}, {})", cf::z(m.pcd.atto()), cf::z(m.ip.atto()), cf::z(m.locked.atto()))
}
fn triple_plus(m: &MSnap, x: &TokenAmount) -> String {
    // x is added to the initial-pledge component (see the module note on in-tick reconstruction)
    format!("({}, {}, {})", cf::z(m.pcd.atto()), cf::z((&m.ip + x).atto()), cf::z(m.locked.atto()))
}

/// independent computation of the deadline containing epoch e for period offset pps
fn dl_of(pps: i64, e: i64) -> (i64, i64, i64) {
    let ps = pps + PERIOD * (e - pps).div_euclid(PERIOD);
    let idx = (e - ps) / WINDOW;
    (ps, idx, ps + idx * WINDOW + WINDOW - 1)
}

fn create_miner_faithful(v: &Vvm, owner: &Address, worker: &Address, extra: &TokenAmount) -> Option<Address> {
    let deposit = create_miner_deposit_for_test(v);
    let params = CreateMinerParams {
        owner: *owner,
        worker: *worker,
        window_post_proof_type: RegisteredPoStProof::StackedDRGWindow32GiBV1P1,
        peer: b"miner".to_vec(),
        multiaddrs: vec![BytesDe(b"multiaddr".to_vec())],
    };
    let r = exec(v, owner, &STORAGE_POWER_ACTOR_ADDR, &(deposit + extra), PowerMethod::CreateMiner as u64, Some(params));
    if code(&r) != 0 {
        return None;
    }
    let ret: CreateMinerReturn = r.ret.unwrap().deserialize().unwrap();
    Some(ret.id_address)
}

// ---------- trace analysis ----------

#[derive(Clone, Debug)]
struct Cause {
    ordinal: i64,
    to: u64,
    method: u64,
    exit: u32,
    /// index of the enclosing miner callback (in dispatch order), if any
    cb: Option<usize>,
}

/// pre-order walk: every nested send gets its call ordinal; collects the root causes (failed nodes without a
/// failed child) and every node with exit code 1000
fn walk(t: &InvocationTrace, ord: &mut i64, cb: Option<usize>, cbs: &[i64], causes: &mut Vec<Cause>, inv1000: &mut bool) {
    for s in &t.subinvocations {
        let my = *ord;
        *ord += 1;
        let mycb = match cbs.iter().position(|o| *o == my) {
            Some(i) => Some(i),
            None => cb,
        };
        if s.exit_code.value() == 1000 {
            *inv1000 = true;
        }
        let failed_child = s.subinvocations.iter().any(|c| !c.exit_code.is_success());
        if !s.exit_code.is_success() && !failed_child {
            causes.push(Cause { ordinal: my, to: s.to.id().unwrap_or(0), method: s.method, exit: s.exit_code.value(), cb: mycb });
        }
        walk(s, ord, mycb, cbs, causes, inv1000);
    }
}

fn count_sends(t: &InvocationTrace) -> i64 {
    t.subinvocations.iter().map(|s| 1 + count_sends(s)).sum()
}

fn is_sector_terminated(ev: &vm_api::trace::EmittedEvent) -> bool {
    let want = fvm_ipld_encoding::to_vec(&"sector-terminated".to_string()).unwrap();
    ev.event.entries.iter().any(|e| e.key == "$type" && e.value == want)
}

struct CbInfo {
    miner: u64,
    kind: i64,
    failed: bool,
    f_tx: bool,
    f_power: bool,
    f_burn: bool,
    f_pledge: bool,
    f_enroll: bool,
    f_deals: bool,
    f_balance: bool,
    popped: u64,
    /// -(pledge delta) of the UpdatePledgeTotal of the early-termination phase (0 when none)
    x_et: TokenAmount,
}

fn analyse_cb(cb: &InvocationTrace) -> CbInfo {
    let p: DeferredCronEventParams = cb.params.as_ref().unwrap().deserialize().unwrap();
    let kind = fvm_ipld_encoding::from_slice::<CronEventPayload>(&p.event_payload).map(|x| x.event_type).unwrap_or(-1);
    let mut i = CbInfo {
        miner: cb.to.id().unwrap(),
        kind,
        failed: !cb.exit_code.is_success(),
        f_tx: false, f_power: false, f_burn: false, f_pledge: false, f_enroll: false, f_deals: false, f_balance: false,
        popped: cb.events.iter().filter(|e| is_sector_terminated(e)).count() as u64,
        x_et: TokenAmount::zero(),
    };
    let mut hard = false;
    let mut seen_pd_enroll = false;
    for s in &cb.subinvocations {
        let to = s.to.id().unwrap_or(0);
        let bad = !s.exit_code.is_success();
        let is_power = s.to == STORAGE_POWER_ACTOR_ADDR;
        if is_power && s.method == PowerMethod::UpdateClaimedPower as u64 {
            if bad { i.f_power = true; hard = true; }
        } else if s.to == BURNT_FUNDS_ACTOR_ADDR {
            if bad { i.f_burn = true; hard = true; }
        } else if is_power && s.method == PowerMethod::UpdatePledgeTotal as u64 {
            if bad { i.f_pledge = true; hard = true; }
            else if kind == ET || (kind == PD && seen_pd_enroll) {
                let q: UpdatePledgeTotalParams = s.params.as_ref().unwrap().deserialize().unwrap();
                i.x_et = -q.pledge_delta;
            }
        } else if is_power && s.method == PowerMethod::EnrollCronEvent as u64 {
            if bad { i.f_enroll = true; hard = true; }
            let q: EnrollCronEventParams = s.params.as_ref().unwrap().deserialize().unwrap();
            let k = fvm_ipld_encoding::from_slice::<CronEventPayload>(q.payload.bytes()).map(|x| x.event_type).unwrap_or(-1);
            if k == PD { seen_pd_enroll = true; }
        } else if s.to == STORAGE_MARKET_ACTOR_ADDR {
            if bad { i.f_deals = true; }
        } else if bad {
            let _ = to;
            i.f_tx = true; hard = true;
        }
    }
    if i.failed && !hard {
        if cb.exit_code.value() == 1000 { i.f_balance = true } else { i.f_tx = true }
    }
    i
}

fn ci_text(obl: &str, new_et: i64, obl_et: &str, c: &CbInfo) -> String {
    format!(
        "{{| ci_obl := {}; ci_new_et := {}; ci_obl_et := {}; f_tx := {}; f_power := {}; f_burn := {}; f_pledge := {}; f_enroll := {}; f_deals := {}; f_balance := {} |}}",
        obl, cf::z(new_et), obl_et, cf::b(c.f_tx), cf::b(c.f_power), cf::b(c.f_burn), cf::b(c.f_pledge), cf::b(c.f_enroll), cf::b(c.f_deals), cf::b(c.f_balance)
    )
}

// ---------- one case ----------

struct Ctx<'a> {
    w: W,
    r: Prng,
    cfg: Cfg,
    stats: &'a mut Stats,
    steps: Vec<(String, Vec<String>)>,
    fails: Vec<serde_json::Value>,
    script: Vec<String>,
    accepted_msg: bool,
    pd_ok: bool,
    extra: BTreeMap<String, u64>,
    /// the real state after the last recorded step
    snap: Snap,
    kills: u64,
    e0: i64,
    len: usize,
    idle_run: Option<(usize, u64, Vec<String>)>,
    real_steps: u64,
    /// overdue events may exist (after a rolled-back tick or a skip): the schedule clause is not evaluated
    sched_suspended: bool,
    in_tick_monitor: bool,
}

impl<'a> Ctx<'a> {
    fn bump(&mut self, k: &str, n: u64) {
        *self.extra.entry(k.to_string()).or_insert(0) += n;
    }
    fn fail(&mut self, class: &str, what: String) {
        let step = self.steps.len();
        let tail: Vec<String> = self.script.iter().rev().take(12).rev().cloned().collect();
        self.fails.push(serde_json::json!({"class": class, "what": [what], "case": self.cfg, "step": step, "epoch": self.w.v.epoch(), "script_tail": tail}));
    }
    fn fail_once(&mut self, mi: usize, class: &str, what: String) {
        if self.w.miners[mi].reported.insert(class.to_string()) {
            self.fail(class, what);
        }
    }
    fn epoch(&self) -> i64 {
        self.w.v.epoch()
    }
    fn push_step(&mut self, op: String, code: u32, log: &[(u64, i64, bool)]) -> Snap {
        let s = snapshot(&self.w);
        let o = obs(&s, code, self.epoch(), log);
        self.steps.push((format!("X ({})", op), o));
        self.idle_run = None;
        self.real_steps += 1;
        for p in self.w.v.panics.borrow_mut().drain(..) {
            self.stats.panics.push(p);
        }
        self.snap = s.clone();
        s
    }
    fn last_trace(&self) -> Option<InvocationTrace> {
        self.w.v.take_invocations().pop()
    }

    /// state monitors that make sense after any operation
    fn state_monitors(&mut self, s: &Snap) {
        if s.miner_count != s.claims.len() as i64 {
            // power.miner_count is decremented once per failed callback (not per deleted claim): an observation
            // outside C05's statement (miner_count is named by no listed property); the model reproduces it
            // exactly, so it is only counted here.  Replay: corpus/C05/witness_miner_count_drift.json.disabled
            self.bump("observed_miner_count_differs_from_claims", 1);
        }
        for mi in 0..self.w.miners.len() {
            let m = &self.w.miners[mi];
            let ms = &s.miners[&m.idn];
            // sectors waiting for early termination always have a ProcessEarlyTerminations event pending
            // (mirror of C05_early_terminations_never_stranded), as long as the miner holds its claim
            if ms.et > 0 && s.claims.contains(&m.idn) && !s.queue.values().any(|l| l.contains(&(m.idn, ET))) {
                let what = format!("miner {} has {} sectors waiting for early termination but no ProcessEarlyTerminations event is pending", m.idn, ms.et);
                self.fail_once(mi, "early-terminations-stranded", what);
                continue;
            }
            let nz = !ms.pcd.is_zero() || !ms.ip.is_zero() || !ms.locked.is_zero();
            if nz && !ms.active {
                if !m.pre {
                    let what = format!("miner {} never pre-committed: locked_funds {} > 0, deadline_cron_active = false, no cron event enrolled", m.idn, ms.locked.atto());
                    self.fail_once(mi, "F2-fresh-miner-no-cron", what);
                } else {
                    let what = format!("miner {} has obligations {} but deadline_cron_active = false", m.idn, triple(ms));
                    self.fail_once(mi, "obligations-without-cron", what);
                }
            }
        }
        self.schedule_monitor_after_message(s);
    }

    /// the schedule clause also holds between two messages of one epoch (an active claim holder's event sits at
    /// the last epoch of the deadline containing the CURRENT epoch), e.g. right after the pre-commit that starts
    /// the cron
    fn schedule_monitor_after_message(&mut self, s: &Snap) {
        if !self.sched_suspended && !self.in_tick_monitor {
            self.schedule_monitor(s);
        }
    }

    /// the schedule clause, evaluated at the state between two epochs (`now` = next epoch to be ticked)
    fn schedule_monitor(&mut self, s: &Snap) {
        let now = self.epoch();
        for mi in 0..self.w.miners.len() {
            let idn = self.w.miners[mi].idn;
            let ms = s.miners[&idn].clone();
            let mut pds: Vec<i64> = vec![];
            for (k, l) in &s.queue {
                for (m, kd) in l {
                    if *m == idn && *kd == PD { pds.push(*k); }
                }
            }
            if !s.claims.contains(&idn) {
                continue;
            }
            let (ps, idx, last) = dl_of(ms.pps, now);
            if ms.active {
                if pds.len() != 1 || pds[0] != last {
                    self.fail_once(mi, "schedule-wrong", format!("miner {} active at epoch {}: pending proving-deadline events {:?}, expected exactly one at {}", idn, now, pds, last));
                }
                if self.w.miners[mi].synced {
                    if ms.dl as i64 != idx {
                        self.fail_once(mi, "schedule-wrong", format!("miner {} at epoch {}: recorded current_deadline {} but the deadline containing the epoch is {}", idn, now, ms.dl, idx));
                    } else if ms.pps != ps {
                        // the recorded proving_period_start is an OFFSET (used mod 2880 everywhere): after a
                        // (re)start of the cron it is rewritten only when current_deadline wraps to 0, so it may
                        // lag by whole periods; it must stay congruent to the true period start
                        if (ms.pps - ps).rem_euclid(PERIOD) == 0 {
                            self.bump("ticks_with_recorded_period_start_lagging_by_whole_periods", 1);
                        } else {
                            self.fail_once(mi, "schedule-wrong", format!("miner {} at epoch {}: recorded proving_period_start {} not congruent to {}", idn, now, ms.pps, ps));
                        }
                    }
                }
            } else if !pds.is_empty() {
                self.fail_once(mi, "schedule-wrong", format!("miner {} inactive but has proving-deadline events at {:?}", idn, pds));
            }
        }
    }

    fn check_1000(&mut self, t: &InvocationTrace, what: &str) {
        fn any1000(t: &InvocationTrace) -> bool {
            t.exit_code.value() == 1000 || t.subinvocations.iter().any(any1000)
        }
        if any1000(t) {
            self.fail("balance-invariants-broken", format!("{}: exit code 1000 (ERR_BALANCE_INVARIANTS_BROKEN) in the trace", what));
        }
    }

    // ----- operations -----

    fn create_miner(&mut self) {
        let k = self.w.miners.len();
        if k >= 3 {
            return;
        }
        let (o, wk) = (self.w.accts[2 * k], self.w.accts[2 * k + 1]);
        let extra = TokenAmount::from_whole(self.r.range(500, 20_000));
        let res = create_miner_faithful(&self.w.v, &o, &wk, &extra);
        self.w.v.take_invocations();
        match res {
            None => {
                self.stats.op("create_miner", 1);
                self.script.push("create_miner:failed".into());
                let s = self.push_step("Nop".into(), 0, &[]);
                self.state_monitors(&s);
            }
            Some(id) => {
                self.stats.op("create_miner", 0);
                let idn = id.id().unwrap();
                let diligent = self.r.chance(60);
                self.w.miners.push(M { id, idn, owner: o, worker: wk, next_sector: 100, pending: vec![], proven: vec![], sector_dl: HashMap::new(), deals_of: HashMap::new(), next_commd: None, pre: false, synced: false, diligent, reported: BTreeSet::new() });
                let ms = msnap(&self.w.v, &id);
                let offset = ms.pps.rem_euclid(PERIOD);
                self.script.push(format!("create_miner {} at {}", idn, self.epoch()));
                let s = self.push_step(format!("CreateMiner {} {} {}", idn, offset, cf::z(ms.locked.atto())), 0, &[]);
                self.state_monitors(&s);
                if self.w.padded && k == 0 {
                    // keep F1 from killing the history: pad the network pledge total
                    let big = TokenAmount::from_whole(1_000_000_000i64);
                    let r = exec(&self.w.v, &id, &STORAGE_POWER_ACTOR_ADDR, &TokenAmount::zero(), PowerMethod::UpdatePledgeTotal as u64, Some(UpdatePledgeTotalParams { pledge_delta: big }));
                    assert_eq!(code(&r), 0, "padding failed");
                    self.w.v.take_invocations();
                }
            }
        }
    }

    /// a message to miner `mi` that (when it succeeds) only changes the obligations
    fn plain_result(&mut self, mi: usize, name: &str, c: u32) {
        self.stats.op(name, c);
        if c == 0 { self.accepted_msg = true; }
        let idn = self.w.miners[mi].idn;
        let t = self.last_trace();
        if let Some(t) = &t { self.check_1000(t, name); }
        let op = if c == 0 {
            let ms = msnap(&self.w.v, &self.w.miners[mi].id);
            format!("SetObl {} {}", idn, triple(&ms))
        } else {
            "Nop".to_string()
        };
        self.script.push(format!("{}({})={} @{}", name, idn, c, self.epoch()));
        let s = self.push_step(op, 0, &[]);
        self.state_monitors(&s);
    }

    fn precommit(&mut self, mi: usize, count: usize) {
        let e = self.epoch();
        let (mid, worker, base) = (self.w.miners[mi].id, self.w.miners[mi].worker, self.w.miners[mi].next_sector);
        let seal = RegisteredSealProof::StackedDRG32GiBV1P1;
        let expiration = e + Policy::default().min_sector_expiration + max_prove_commit_duration(&Policy::default(), seal).unwrap() + self.r.range(0, 3) * PERIOD;
        let commd = self.w.miners[mi].next_commd.take();
        let sectors: Vec<SectorPreCommitInfo> = (0..count as u64)
            .map(|i| SectorPreCommitInfo {
                seal_proof: seal,
                sector_number: base + i,
                sealed_cid: make_sealed_cid(format!("sn: {}", base + i).as_bytes()),
                seal_rand_epoch: e - 1,
                deal_ids: vec![],
                expiration,
                unsealed_cid: if i == 0 { commd.as_ref().map(|c| c.0.clone()).unwrap_or_default() } else { CompactCommD::default() },
            })
            .collect();
        let was_active = msnap(&self.w.v, &mid).active;
        let idn0 = self.w.miners[mi].idn;
        self.w.v.take_invocations();
        let res = exec(&self.w.v, &worker, &mid, &TokenAmount::zero(), MinerMethod::PreCommitSectorBatch2 as u64, Some(PreCommitSectorBatchParams2 { sectors }));
        let c = code(&res);
        if c != 0 && std::env::var("C05_DEBUG").is_ok() { eprintln!("precommit {} -> {} {}", idn0, c, res.message); }
        self.stats.op("precommit", c);
        let t = self.last_trace().unwrap();
        self.check_1000(&t, "precommit");
        let idn = self.w.miners[mi].idn;
        let enroll_failed = t.subinvocations.iter().any(|s| s.to == STORAGE_POWER_ACTOR_ADDR && s.method == PowerMethod::EnrollCronEvent as u64 && !s.exit_code.is_success());
        let op = if c == 0 {
            self.accepted_msg = true;
            self.w.miners[mi].next_sector += count as u64;
            for i in 0..count as u64 { self.w.miners[mi].pending.push((base + i, e)); }
            if let Some((_, deals)) = &commd { self.w.miners[mi].deals_of.insert(base, deals.clone()); }
            self.w.miners[mi].pre = true;
            if !was_active {
                self.w.miners[mi].synced = false;
                self.bump("cron_starts", 1);
            }
            let ms = msnap(&self.w.v, &mid);
            format!("PreCommit {} {} false", idn, triple(&ms))
        } else if enroll_failed {
            self.bump("precommit_enroll_failed", 1);
            format!("PreCommit {} (1, 0, 0) true", idn)
        } else {
            "Nop".to_string()
        };
        self.script.push(format!("precommit({} x{})={} @{}", idn, count, c, e));
        let s = self.push_step(op, if c != 0 && enroll_failed { 1 } else { 0 }, &[]);
        self.state_monitors(&s);
    }

    fn provecommit(&mut self, mi: usize) {
        let e = self.epoch();
        let delay = Policy::default().pre_commit_challenge_delay;
        let ready: Vec<u64> = self.w.miners[mi].pending.iter().filter(|(_, pe)| e > pe + delay).map(|(s, _)| *s).collect();
        if ready.is_empty() {
            return;
        }
        let (mid, worker) = (self.w.miners[mi].id, self.w.miners[mi].worker);
        let acts: Vec<SectorActivationManifest> = ready.iter().map(|s| SectorActivationManifest { sector_number: *s, pieces: match self.w.miners[mi].deals_of.get(s) { Some(d) => make_piece_manifests_from_deal_ids(&self.w.v, d.clone()), None => vec![] } }).collect();
        let params = ProveCommitSectors3Params {
            sector_proofs: acts.iter().map(|sa| RawBytes::new(vec![sa.sector_number as u8; 4])).collect(),
            sector_activations: acts,
            aggregate_proof: vec![].into(),
            aggregate_proof_type: None,
            require_activation_success: true,
            require_notification_success: false,
        };
        self.w.v.take_invocations();
        let res = exec(&self.w.v, &worker, &mid, &TokenAmount::zero(), MinerMethod::ProveCommitSectors3 as u64, Some(params));
        let c = code(&res);
        if c != 0 && std::env::var("C05_DEBUG").is_ok() { eprintln!("provecommit {} -> {} {}", mid, c, res.message); }
        if c == 0 {
            self.w.miners[mi].pending.retain(|(s, _)| !ready.contains(s));
            let st: MinerState = get_state(&self.w.v, &mid).unwrap();
            for s in &ready {
                if let Ok(dp) = st.find_sector(self.w.v.store.as_ref(), *s) {
                    self.w.miners[mi].sector_dl.insert(*s, dp);
                    self.w.miners[mi].proven.push(*s);
                }
            }
            self.bump("sectors_proven", ready.len() as u64);
        }
        self.plain_result(mi, "provecommit", c);
    }

    fn withdraw(&mut self, mi: usize) {
        let (mid, owner) = (self.w.miners[mi].id, self.w.miners[mi].owner);
        let amt = if self.r.chance(96) { TokenAmount::from_whole(self.r.range(0, 20)) } else { TokenAmount::from_whole(1_000_000) };
        self.w.v.take_invocations();
        let res = exec(&self.w.v, &owner, &mid, &TokenAmount::zero(), MinerMethod::WithdrawBalance as u64, Some(WithdrawBalanceParams { amount_requested: amt }));
        let c = code(&res);
        if c != 0 {
            if let Some(t) = self.w.v.take_invocations().pop() {
                let f1 = t.subinvocations.iter().any(|s| s.to == STORAGE_POWER_ACTOR_ADDR && s.method == PowerMethod::UpdatePledgeTotal as u64 && s.exit_code.value() == 20);
                if f1 { self.bump("f1_withdraw_rejected", 1); }
            }
        }
        self.plain_result(mi, "withdraw", c);
    }

    fn report_fault(&mut self, mi: usize) {
        let mid = self.w.miners[mi].id;
        let reporter = self.w.accts[5];
        let e = self.epoch();
        self.w.v.consensus_fault.replace(Some(fvm_shared::consensus::ConsensusFault {
            target: mid, epoch: e - 1, fault_type: fvm_shared::consensus::ConsensusFaultType::DoubleForkMining,
        }));
        let p = fil_actor_miner::ReportConsensusFaultParams { header1: vec![1], header2: vec![2], header_extra: vec![] };
        self.w.v.take_invocations();
        let res = exec(&self.w.v, &reporter, &mid, &TokenAmount::zero(), MinerMethod::ReportConsensusFault as u64, Some(p));
        self.w.v.consensus_fault.replace(None);
        self.plain_result(mi, "report_consensus_fault", code(&res));
    }

    fn publish_deal(&mut self, mi: usize) {
        let (mid, worker) = (self.w.miners[mi].id, self.w.miners[mi].worker);
        let client = self.w.accts[4];
        let e = self.epoch();
        let v = &self.w.v;
        let label = format!("deal{}-{}", self.w.miners[mi].idn, e);
        let r = std::panic::catch_unwind(std::panic::AssertUnwindSafe(|| {
            market_add_balance(v, &client, &client, &TokenAmount::from_whole(5));
            market_add_balance(v, &worker, &mid, &TokenAmount::from_whole(5));
            let ret = market_publish_deal(v, &worker, &client, &mid, label, fvm_shared::piece::PaddedPieceSize(1 << 30), false, e + 400, 181 * PERIOD);
            let ids = ret.ids.clone();
            let meta = precommit_meta_data_from_deals(v, &ids, RegisteredSealProof::StackedDRG32GiBV1P1, false);
            (meta.commd, ids)
        }));
        self.w.v.take_invocations();
        self.w.v.panics.borrow_mut().clear();
        let ok = r.is_ok();
        if let Ok(x) = r { self.w.miners[mi].next_commd = Some(x); self.bump("deals_published", 1); }
        self.stats.op("publish_deal", if ok { 0 } else { 1 });
        self.script.push(format!("publish_deal({})={} @{}", self.w.miners[mi].idn, ok, e));
        let s = self.push_step("Nop".into(), 0, &[]);
        self.state_monitors(&s);
    }

    /// dry run of the tick: the call ordinal of the first OnMinerSectorsTerminate sent from inside a miner callback
    fn deals_injection(&mut self) -> Option<(u64, ExitCode)> {
        let root = self.w.v.checkpoint();
        self.w.v.take_invocations();
        let _ = exec::<()>(&self.w.v, &SYSTEM_ACTOR_ADDR, &CRON_ACTOR_ADDR, &TokenAmount::zero(), CronMethod::EpochTick as u64, None);
        let t = self.w.v.take_invocations().pop().unwrap();
        self.w.v.rollback(root);
        self.w.v.panics.borrow_mut().clear();
        fn find(t: &InvocationTrace, ord: &mut u64, depth: u32, in_cb: bool) -> Option<u64> {
            for s in &t.subinvocations {
                let my = *ord;
                *ord += 1;
                let is_cb = s.method == MinerMethod::OnDeferredCronEvent as u64 && depth == 1 && s.to != REWARD_ACTOR_ADDR;
                if in_cb && s.to == STORAGE_MARKET_ACTOR_ADDR { return Some(my); }
                if let Some(x) = find(s, ord, depth + 1, in_cb || is_cb) { return Some(x); }
            }
            None
        }
        let mut ord = 0u64;
        find(&t, &mut ord, 0, false).map(|k| (k, ExitCode::USR_ILLEGAL_STATE))
    }

    fn fund(&mut self, mi: usize) {
        let (mid, owner) = (self.w.miners[mi].id, self.w.miners[mi].owner);
        let amt = TokenAmount::from_whole(self.r.range(50, 3000));
        self.w.v.take_invocations();
        let res = exec::<()>(&self.w.v, &owner, &mid, &amt, fvm_shared::METHOD_SEND, None);
        self.plain_result(mi, "fund", code(&res));
    }

    fn award(&mut self, mi: usize) {
        let mid = self.w.miners[mi].id;
        let p = AwardBlockRewardParams {
            miner: mid,
            penalty: if self.r.chance(75) { TokenAmount::zero() } else { TokenAmount::from_atto(self.r.below(1 << 60)) },
            gas_reward: TokenAmount::from_atto(self.r.below(1 << 50)),
            win_count: self.r.range(1, 3),
        };
        self.w.v.take_invocations();
        let res = exec(&self.w.v, &SYSTEM_ACTOR_ADDR, &REWARD_ACTOR_ADDR, &TokenAmount::zero(), RewardMethod::AwardBlockReward as u64, Some(p));
        // the reward actor tolerates a failing ApplyRewards (burns the reward): look at the nested call
        let c = code(&res);
        self.plain_result(mi, "award", c);
    }

    fn terminate(&mut self, mi: usize) {
        if self.w.miners[mi].proven.is_empty() {
            return;
        }
        let mid = self.w.miners[mi].id;
        let worker = self.w.miners[mi].worker;
        let idn = self.w.miners[mi].idn;
        let budget = self.w.v.policy.addressed_sectors_max as usize;
        let first = *self.r.pick(&self.w.miners[mi].proven);
        let (d, p) = self.w.miners[mi].sector_dl[&first];
        let mut secs: Vec<u64> = self.w.miners[mi].proven.iter().filter(|s| self.w.miners[mi].sector_dl[s] == (d, p)).cloned().collect();
        let want = 1 + self.r.below(3) as usize;
        secs.truncate(want.min(budget.max(1)));
        let term_count = |v: &Vvm| -> u64 {
            let st: MinerState = get_state(v, &mid).unwrap();
            let dls = st.load_deadlines(v.store.as_ref()).unwrap();
            let dl = dls.load_deadline(v.store.as_ref(), d).unwrap();
            let parts = dl.partitions_amt(v.store.as_ref()).unwrap();
            parts.get(p).unwrap().map(|x| x.terminated.len()).unwrap_or(0)
        };
        let before = term_count(&self.w.v);
        let mut bf = BitField::new();
        for s in &secs { bf.set(*s); }
        self.w.v.take_invocations();
        let res = exec(&self.w.v, &worker, &mid, &TokenAmount::zero(), MinerMethod::TerminateSectors as u64,
            Some(TerminateSectorsParams { terminations: vec![TerminationDeclaration { deadline: d, partition: p, sectors: bf }] }));
        let c = code(&res);
        self.stats.op("terminate", c);
        let t = self.last_trace().unwrap();
        self.check_1000(&t, "terminate");
        let enroll_failed = t.subinvocations.iter().any(|s| s.to == STORAGE_POWER_ACTOR_ADDR && s.method == PowerMethod::EnrollCronEvent as u64 && !s.exit_code.is_success());
        let op = if c == 0 {
            self.accepted_msg = true;
            let n = term_count(&self.w.v) - before;
            self.w.miners[mi].proven.retain(|s| !secs.contains(s));
            self.bump("sectors_terminated_by_user", n);
            let ms = msnap(&self.w.v, &mid);
            format!("Terminate {} {} {} false", idn, n, triple(&ms))
        } else if enroll_failed {
            format!("Terminate {} {} (0, 0, 0) true", idn, secs.len())
        } else {
            "Nop".to_string()
        };
        self.script.push(format!("terminate({} dl{} {:?})={} @{}", idn, d, secs, c, self.epoch()));
        let s = self.push_step(op, if c != 0 && enroll_failed { 1 } else { 0 }, &[]);
        self.state_monitors(&s);
    }

    fn enrol_et(&mut self, mi: usize) {
        let e = self.epoch();
        let mid = self.w.miners[mi].id;
        let idn = self.w.miners[mi].idn;
        let (_, _, last) = dl_of(msnap(&self.w.v, &mid).pps, e);
        let ep = match self.r.below(100) {
            0..=39 => e + 1,
            40..=54 => e,
            55..=69 => last + self.r.range(-1, 1),
            70..=84 => e + self.r.range(2, 90),
            85..=94 => (e - self.r.range(1, 30)).max(0),
            _ => -self.r.range(1, 5),
        };
        let payload = RawBytes::serialize(CronEventPayload { event_type: ET }).unwrap();
        self.w.v.take_invocations();
        let res = exec(&self.w.v, &mid, &STORAGE_POWER_ACTOR_ADDR, &TokenAmount::zero(), PowerMethod::EnrollCronEvent as u64, Some(EnrollCronEventParams { event_epoch: ep, payload }));
        self.w.v.take_invocations();
        let c = code(&res);
        self.stats.op("enrol_et", c);
        self.script.push(format!("enrol_et({} at {})={} @{}", idn, ep, c, e));
        let s = self.push_step(format!("EnrolET {} {}", idn, cf::z(ep)), c, &[]);
        self.state_monitors(&s);
    }

    fn post(&mut self, mi: usize) {
        // window PoSt for the deadline that opens now, for every partition holding one of our sectors
        let e = self.epoch();
        let mid = self.w.miners[mi].id;
        let worker = self.w.miners[mi].worker;
        let st: MinerState = get_state(&self.w.v, &mid).unwrap();
        let di = st.deadline_info(&self.w.v.policy, e);
        if di.open != e {
            return;
        }
        let parts: BTreeSet<u64> = self.w.miners[mi].proven.iter().filter_map(|s| self.w.miners[mi].sector_dl.get(s)).filter(|(d, _)| *d == di.index).map(|(_, p)| *p).collect();
        if parts.is_empty() {
            return;
        }
        let params = SubmitWindowedPoStParams {
            deadline: di.index,
            partitions: parts.iter().map(|p| PoStPartition { index: *p, skipped: BitField::new() }).collect(),
            proofs: vec![PoStProof { post_proof: RegisteredPoStProof::StackedDRGWindow32GiBV1P1, proof_bytes: vec![] }],
            chain_commit_epoch: di.challenge,
            chain_commit_rand: Randomness(TEST_VM_RAND_ARRAY.into()),
        };
        self.w.v.take_invocations();
        let res = exec(&self.w.v, &worker, &mid, &TokenAmount::zero(), MinerMethod::SubmitWindowedPoSt as u64, Some(params));
        self.plain_result(mi, "post", code(&res));
    }

    /// k epochs pass WITHOUT a tick (excluded by the theorems; exercises the power actor's multi-epoch loop)
    fn skip(&mut self, k: i64) {
        let e = self.epoch();
        self.w.v.set_epoch(e + k);
        self.stats.op("skip", 0);
        self.script.push(format!("skip {} @{}", k, e));
        for m in self.w.miners.iter_mut() { m.synced = false; }
        self.sched_suspended = true;
        let s = self.push_step(format!("Skip {}", k), 0, &[]);
        self.state_monitors(&s);
    }

    fn user_message(&mut self) {
        if self.w.miners.is_empty() {
            self.create_miner();
            return;
        }
        let mi = self.r.below(self.w.miners.len() as u64) as usize;
        let faulty = self.r.chance(8);
        if faulty {
            let codes = [ExitCode::USR_ILLEGAL_ARGUMENT, ExitCode::USR_ILLEGAL_STATE, ExitCode::USR_ASSERTION_FAILED, ExitCode::SYS_OUT_OF_GAS];
            self.w.v.fail_plan.replace(Some((self.r.below(6), *self.r.pick(&codes))));
        }
        let active = msnap(&self.w.v, &self.w.miners[mi].id).active;
        match self.r.below(100) {
            0..=21 => { let n = if self.r.chance(80) { 1 } else { 2 + self.r.below(3) as usize }; self.precommit(mi, n) }
            22..=41 => {
                let any = (0..self.w.miners.len()).find(|i| !self.w.miners[*i].pending.is_empty());
                match any { Some(i) => self.provecommit(i), None => self.withdraw(mi) }
            }
            42..=51 => self.withdraw(mi),
            52..=59 => self.fund(mi),
            60..=69 => if active { self.award(mi) } else { self.withdraw(mi) },
            70..=79 => self.terminate(mi),
            80..=93 => self.enrol_et(mi),
            _ => self.create_miner(),
        }
        self.w.v.fail_plan.replace(None);
    }

    /// run the tick on a checkpoint, look at its trace, restore the state, and choose one nested send to fail
    fn choose_injection(&mut self, allow_kill: bool) -> Option<(u64, ExitCode)> {
        let root = self.w.v.checkpoint();
        self.w.v.take_invocations();
        let _ = exec::<()>(&self.w.v, &SYSTEM_ACTOR_ADDR, &CRON_ACTOR_ADDR, &TokenAmount::zero(), CronMethod::EpochTick as u64, None);
        let t = self.w.v.take_invocations().pop().unwrap();
        self.w.v.rollback(root);
        self.w.v.panics.borrow_mut().clear();
        // classify every nested send by its call ordinal; the sends that abort a callback are grouped by kind
        // so that the rare ones (UpdateClaimedPower, burn) are chosen as often as the frequent ones
        let (mut tolerated, mut power_level) = (vec![], vec![]);
        let mut killers_by_kind: BTreeMap<u8, Vec<u64>> = BTreeMap::new();
        fn visit(t: &InvocationTrace, ord: &mut u64, depth: u32, in_cb: bool, tol: &mut Vec<u64>, pl: &mut Vec<u64>, kill: &mut BTreeMap<u8, Vec<u64>>) {
            for s in &t.subinvocations {
                let my = *ord;
                *ord += 1;
                let is_cb = s.method == MinerMethod::OnDeferredCronEvent as u64 && depth == 1 && s.to != REWARD_ACTOR_ADDR;
                if depth == 0 {
                    if s.to == STORAGE_MARKET_ACTOR_ADDR { tol.push(my) } else { pl.push(my) }
                } else if in_cb {
                    if s.to == STORAGE_MARKET_ACTOR_ADDR { tol.push(my) } else {
                        let kind = if s.to == BURNT_FUNDS_ACTOR_ADDR { 1 }
                            else if s.to == STORAGE_POWER_ACTOR_ADDR && s.method == PowerMethod::UpdateClaimedPower as u64 { 2 }
                            else if s.to == STORAGE_POWER_ACTOR_ADDR && s.method == PowerMethod::UpdatePledgeTotal as u64 { 3 }
                            else if s.to == STORAGE_POWER_ACTOR_ADDR && s.method == PowerMethod::EnrollCronEvent as u64 { 4 }
                            else { 5 };
                        kill.entry(kind).or_default().push(my)
                    }
                } else if is_cb {
                    kill.entry(0).or_default().push(my)
                } else if depth == 1 && t.to == STORAGE_POWER_ACTOR_ADDR {
                    pl.push(my)
                }
                visit(s, ord, depth + 1, in_cb || is_cb, tol, pl, kill);
            }
        }
        let mut ord = 0u64;
        visit(&t, &mut ord, 0, false, &mut tolerated, &mut power_level, &mut killers_by_kind);
        let rare = killers_by_kind.contains_key(&1) || killers_by_kind.contains_key(&2);
        let allow_kill = allow_kill || (rare && self.kills < 3);
        let killers: Vec<u64> = if killers_by_kind.is_empty() { vec![] } else {
            let kinds: Vec<u8> = if rare { killers_by_kind.keys().cloned().filter(|k| *k == 1 || *k == 2).collect() } else { killers_by_kind.keys().cloned().collect() };
            killers_by_kind[self.r.pick(&kinds)].clone()
        };
        let codes = [ExitCode::USR_ILLEGAL_ARGUMENT, ExitCode::USR_ILLEGAL_STATE, ExitCode::USR_ASSERTION_FAILED, ExitCode::SYS_OUT_OF_GAS, ExitCode::USR_INSUFFICIENT_FUNDS];
        let code = *self.r.pick(&codes);
        let pick_from = match self.r.below(100) {
            0..=44 if allow_kill && !killers.is_empty() => { self.kills += 1; &killers }
            0..=69 if !tolerated.is_empty() => &tolerated,
            _ => &power_level,
        };
        if pick_from.is_empty() { return None; }
        Some((*self.r.pick(pick_from), code))
    }

    /// directed scenario: when a dry run shows the miner's proving-deadline callback failing on F1, enrol a
    /// ProcessEarlyTerminations event for the same epoch and fail that second callback too
    fn double_failure(&mut self) -> Option<(u64, ExitCode)> {
        let dry = |cx: &Ctx| -> InvocationTrace {
            let root = cx.w.v.checkpoint();
            cx.w.v.take_invocations();
            let _ = exec::<()>(&cx.w.v, &SYSTEM_ACTOR_ADDR, &CRON_ACTOR_ADDR, &TokenAmount::zero(), CronMethod::EpochTick as u64, None);
            let t = cx.w.v.take_invocations().pop().unwrap();
            cx.w.v.rollback(root);
            cx.w.v.panics.borrow_mut().clear();
            t
        };
        let t = dry(self);
        let p = t.subinvocations.iter().find(|s| s.to == STORAGE_POWER_ACTOR_ADDR)?;
        let failing = p.subinvocations.iter().any(|s| s.method == MinerMethod::OnDeferredCronEvent as u64 && s.to == self.w.miners[0].id && !s.exit_code.is_success());
        if !failing { return None; }
        // second event for the same miner at the current epoch
        let e = self.epoch();
        let mid = self.w.miners[0].id;
        let payload = RawBytes::serialize(CronEventPayload { event_type: ET }).unwrap();
        let res = exec(&self.w.v, &mid, &STORAGE_POWER_ACTOR_ADDR, &TokenAmount::zero(), PowerMethod::EnrollCronEvent as u64, Some(EnrollCronEventParams { event_epoch: e, payload }));
        self.w.v.take_invocations();
        let c = code(&res);
        self.script.push(format!("double: enrol_et({} at {})={}", self.w.miners[0].idn, e, c));
        let idn = self.w.miners[0].idn;
        let s = self.push_step(format!("EnrolET {} {}", idn, cf::z(e)), c, &[]);
        self.state_monitors(&s);
        // ordinal of the second callback of this miner
        let t = dry(self);
        let p = t.subinvocations.iter().find(|s| s.to == STORAGE_POWER_ACTOR_ADDR)?;
        let mut ord = 1u64; // the power node itself is send #0
        let mut seen = 0;
        for s in &p.subinvocations {
            if s.method == MinerMethod::OnDeferredCronEvent as u64 && s.to == mid {
                seen += 1;
                if seen == 2 { return Some((ord, ExitCode::USR_ILLEGAL_STATE)); }
            }
            ord += 1 + count_sends(s) as u64;
        }
        None
    }

    fn tick(&mut self, inject: Option<(u64, ExitCode)>) {
        let e = self.epoch();
        let pre = self.snap.clone();
        self.w.v.take_invocations();
        self.w.v.fail_plan.replace(inject);
        let res = exec::<()>(&self.w.v, &SYSTEM_ACTOR_ADDR, &CRON_ACTOR_ADDR, &TokenAmount::zero(), CronMethod::EpochTick as u64, None);
        self.w.v.fail_plan.replace(None);
        let t = self.w.v.take_invocations().pop().unwrap();
        let c = code(&res);
        self.stats.op("tick", c);
        if c != 0 {
            self.fail("cron-tick-failed", format!("EpochTick at {} returned exit code {}", e, c));
        }
        self.w.v.set_epoch(e + 1);
        let post = snapshot(&self.w);

        // ---- trace -> model inputs ----
        let pnode = t.subinvocations.iter().find(|s| s.to == STORAGE_POWER_ACTOR_ADDR);
        let mnode = t.subinvocations.iter().find(|s| s.to == STORAGE_MARKET_ACTOR_ADDR);
        let market_fail = mnode.map(|n| !n.exit_code.is_success()).unwrap_or(true);
        let (mut entry_fail, mut reward_fail, mut kpi_fail) = (false, false, false);
        let mut cbs: Vec<&InvocationTrace> = vec![];
        match pnode {
            None => entry_fail = true,
            Some(p) => {
                let bad = !p.exit_code.is_success();
                if bad && p.subinvocations.is_empty() {
                    entry_fail = true;
                } else if bad && p.subinvocations.first().map(|s| s.to == REWARD_ACTOR_ADDR && !s.exit_code.is_success()).unwrap_or(false) {
                    reward_fail = true;
                } else if bad {
                    kpi_fail = true;
                }
                cbs = p.subinvocations.iter().filter(|s| s.method == MinerMethod::OnDeferredCronEvent as u64 && s.to != REWARD_ACTOR_ADDR && s.to != STORAGE_POWER_ACTOR_ADDR).collect();
            }
        }
        let power_failed = entry_fail || reward_fail || kpi_fail;
        let infos: Vec<CbInfo> = cbs.iter().map(|c| analyse_cb(c)).collect();
        let idle = infos.is_empty() && !power_failed && !market_fail;

        // obligations after each callback's transaction, reconstructed backwards (see analyse_cb.x_et)
        let mut acc: HashMap<u64, TokenAmount> = HashMap::new();
        let mut popped_by: HashMap<u64, u64> = HashMap::new();
        for i in &infos {
            if !i.failed { *popped_by.entry(i.miner).or_insert(0) += i.popped; }
        }
        let mut texts: Vec<String> = vec![String::new(); infos.len()];
        for (k, i) in infos.iter().enumerate().rev() {
            let ms = match post.miners.get(&i.miner) { Some(m) => m.clone(), None => continue };
            let a = acc.get(&i.miner).cloned().unwrap_or_default();
            let zero_t = TokenAmount::zero();
            if i.failed {
                texts[k] = ci_text(&triple(&ms), 0, &triple(&ms), i);
                continue;
            }
            if i.kind == PD {
                let new_et = post.miners[&i.miner].et as i64 - pre.miners.get(&i.miner).map(|m| m.et as i64).unwrap_or(0) + *popped_by.get(&i.miner).unwrap_or(&0) as i64;
                let obl_et = triple_plus(&ms, &a);
                let obl1 = triple_plus(&ms, &(&a + &i.x_et));
                texts[k] = ci_text(&obl1, new_et, &obl_et, i);
                *acc.entry(i.miner).or_insert(zero_t) += &i.x_et;
            } else {
                let obl1 = triple_plus(&ms, &a);
                texts[k] = ci_text(&obl1, 0, &obl1, i);
                *acc.entry(i.miner).or_insert(zero_t) += &i.x_et;
            }
        }
        let log: Vec<(u64, i64, bool)> = infos.iter().map(|i| (i.miner, i.kind, i.failed)).collect();
        let op = if idle {
            "T0".to_string()
        } else {
            format!("Tick {{| t_entry_fail := {}; t_reward_fail := {}; t_kpi_fail := {}; t_market_fail := {}; t_cbs := {} |}}",
                cf::b(entry_fail), cf::b(reward_fail), cf::b(kpi_fail), cf::b(market_fail), cf::list(texts))
        };
        if !idle {
            self.script.push(format!("tick@{} cbs={:?}{}", e, log, if inject.is_some() { format!(" inject={:?}", inject.map(|(k, c)| (k, c.value()))) } else { String::new() }));
        }
        let o = obs(&post, c, e + 1, &log);
        self.real_steps += 1;
        // run-length encoding of idle stretches: `(IdleRun n, obs after the first idle tick)` expands (in the
        // case file's header) to n steps `(T0, obs with now and first_cron_epoch advanced by i)`; a tick joins
        // the run only if its REAL observation is exactly that
        let mut joined = false;
        if idle {
            if let Some((idx, n, first)) = &mut self.idle_run {
                let bump = |x: &String, d: u64| (x.trim_matches(|c| c == '(' || c == ')').parse::<i64>().unwrap() + d as i64).to_string();
                let mut expect = first.clone();
                expect[1] = cf::z(bump(&first[1], *n).parse::<i64>().unwrap());
                expect[2] = cf::z(bump(&first[2], *n).parse::<i64>().unwrap());
                if expect == o {
                    *n += 1;
                    self.steps[*idx].0 = format!("IdleRun {}", n);
                    joined = true;
                }
            }
            if !joined {
                self.steps.push(("IdleRun 1".to_string(), o.clone()));
                self.idle_run = Some((self.steps.len() - 1, 1, o.clone()));
            }
        } else {
            self.steps.push((format!("X ({})", op), o));
            self.idle_run = None;
        }
        for p in self.w.v.panics.borrow_mut().drain(..) { self.stats.panics.push(p); }
        self.snap = post.clone();

        // ---- coverage ----
        if entry_fail { self.bump("inj_entry_fail", 1); }
        if reward_fail { self.bump("inj_reward_fail", 1); }
        if kpi_fail { self.bump("inj_kpi_fail", 1); }
        if market_fail { self.bump("inj_market_fail", 1); }
        for i in &infos {
            self.bump(if i.kind == PD { "cb_pd" } else { "cb_et" }, 1);
            if i.failed { self.bump("cb_failed", 1); }
            if i.f_power { self.bump("flag_f_power", 1); }
            if i.f_burn { self.bump("flag_f_burn", 1); }
            if i.f_pledge { self.bump("flag_f_pledge", 1); }
            if i.f_enroll { self.bump("flag_f_enroll", 1); }
            if i.f_deals { self.bump("flag_f_deals", 1); }
            if i.f_tx { self.bump("flag_f_tx", 1); }
            if i.popped > 0 { self.bump("et_rounds", 1); self.bump("et_sectors_popped", i.popped); }
            if i.kind == PD && !i.failed && !power_failed {
                self.pd_ok = true;
                if let Some(mi) = self.w.miners.iter().position(|m| m.idn == i.miner) {
                    // a callback dispatched late (its epoch was skipped by a rolled-back tick) advances from
                    // the wrong deadline: the recorded-deadline clause is about callbacks that ran on time
                    let due_at = pre.queue.iter().find(|(_, l)| l.contains(&(i.miner, PD))).map(|(k, _)| *k);
                    self.w.miners[mi].synced = due_at == Some(e);
                    if due_at != Some(e) { self.bump("pd_callbacks_dispatched_late", 1); }
                    let (was, is) = (pre.miners[&i.miner].active, post.miners[&i.miner].active);
                    if was && !is { self.bump("cron_stops", 1); }
                }
            }
        }
        let mut same_tick: HashMap<u64, u64> = HashMap::new();
        for i in &infos { *same_tick.entry(i.miner).or_insert(0) += 1; }
        if same_tick.values().any(|n| *n > 1) { self.bump("ticks_with_two_callbacks_for_one_miner", 1); }
        if pre.first_cron < e { self.bump("ticks_processing_several_epochs", 1); }

        // ---- monitors on the trace ----
        let mut ord = 0i64;
        // call ordinals of the callbacks
        let mut cb_ords: Vec<i64> = vec![];
        if let Some(p) = pnode {
            // ordinal of the power node = number of sends before it in pre-order
            let mut o = 0i64;
            for s in &t.subinvocations {
                if std::ptr::eq(s, p) { break; }
                o += 1 + count_sends(s);
            }
            let mut inner = o + 1;
            for s in &p.subinvocations {
                if cbs.iter().any(|c| std::ptr::eq(*c, s)) { cb_ords.push(inner); }
                inner += 1 + count_sends(s);
            }
        }
        let mut causes = vec![];
        let mut inv1000 = false;
        walk(&t, &mut ord, None, &cb_ords, &mut causes, &mut inv1000);
        if inv1000 {
            self.fail("balance-invariants-broken", format!("tick at {}: exit code 1000 (ERR_BALANCE_INVARIANTS_BROKEN) in the trace", e));
        }
        let injected_ord = inject.map(|(k, _)| k as i64).unwrap_or(-1);
        let mut cb_cause: HashMap<usize, &'static str> = HashMap::new();
        for cz in &causes {
            let cls = if cz.ordinal == injected_ord {
                "injected"
            } else if cz.to == STORAGE_POWER_ACTOR_ADDR.id().unwrap() && cz.method == PowerMethod::UpdatePledgeTotal as u64 && cz.exit == 20 {
                "F1-pledge-total-negative"
            } else {
                "cron-subcall-failed"
            };
            if let Some(k) = cz.cb { cb_cause.insert(k, cls); }
            match cls {
                "injected" => {
                    // the failure of OnMinerSectorsTerminate is TOLERATED in cron context: the enclosing callback
                    // must still succeed
                    if cz.to == STORAGE_MARKET_ACTOR_ADDR.id().unwrap() {
                        if let Some(k) = cz.cb {
                            self.bump("tolerated_deal_termination_failures_in_callbacks", 1);
                            if infos[k].failed {
                                cb_cause.insert(k, "cron-subcall-failed");
                                self.fail("cron-subcall-failed", format!("tick at {}: the (injected) failure of the tolerated OnMinerSectorsTerminate send aborted the callback of miner {} (kind {})", e, infos[k].miner, infos[k].kind));
                            }
                        }
                    }
                }
                "F1-pledge-total-negative" => {
                    self.bump("f1_in_tick", 1);
                    let mi = cz.cb.and_then(|k| self.w.miners.iter().position(|m| m.idn == infos[k].miner)).unwrap_or(0);
                    let what = format!("tick at {}: UpdatePledgeTotal rejected with exit 20 (negative total pledge collateral) inside the callback of miner {:?} (padded={})", e, cz.cb.map(|k| infos[k].miner), self.w.padded);
                    self.fail_once(mi, "F1-pledge-total-negative", what);
                }
                _ => self.fail("cron-subcall-failed", format!("tick at {}: nested send #{} to {} method {} failed with exit {} (not injected)", e, cz.ordinal, cz.to, cz.method, cz.exit)),
            }
        }
        // claims
        for idn in pre.claims.difference(&post.claims) {
            self.bump("claims_lost", 1);
            let ks: Vec<usize> = infos.iter().enumerate().filter(|(_, i)| i.miner == *idn && i.failed).map(|(k, _)| k).collect();
            let explained: Vec<&str> = ks.iter().filter_map(|k| cb_cause.get(k).cloned()).collect();
            if ks.is_empty() {
                self.fail("claim-lost", format!("tick at {}: claim of miner {} deleted although none of its callbacks failed", e, idn));
            } else if explained.iter().all(|c| *c == "injected") && !explained.is_empty() {
                self.bump("claims_lost_by_injected_failure", 1);
            } else if explained.iter().any(|c| *c == "F1-pledge-total-negative") {
                self.bump("claims_lost_by_f1", 1);
                let mi = self.w.miners.iter().position(|m| m.idn == *idn).unwrap_or(0);
                self.fail_once(mi, "F1-pledge-total-negative", format!("tick at {}: claim of miner {} deleted because its cron callback failed on UpdatePledgeTotal", e, idn));
            } else {
                self.fail("claim-lost", format!("tick at {}: claim of miner {} deleted after a callback failure that was not injected ({:?})", e, idn, explained));
            }
        }
        for idn in post.claims.difference(&pre.claims) {
            self.fail("claim-lost", format!("tick at {}: claim of miner {} appeared during a tick", e, idn));
        }
        self.in_tick_monitor = true;
        self.state_monitors(&post);
        self.in_tick_monitor = false;
        self.sched_suspended = power_failed;
        if power_failed {
            // the tick as a whole was rolled back (only reachable with an injected failure of the power
            // entry): its events are processed one epoch late; the schedule clause is about ticks that ran
            for m in self.w.miners.iter_mut() { m.synced = false; }
            self.bump("ticks_rolled_back", 1);
        } else {
            self.schedule_monitor(&post);
        }
    }
}

fn run_case(cfg: &Cfg, stats: &mut Stats, stop_at: Option<usize>) -> (Case, Vec<serde_json::Value>, BTreeMap<String, u64>) {
    let mut root = Prng::new(cfg.seed);
    for _ in 0..cfg.case { root.next_u64(); }
    let mut r = root.fork(cfg.case);
    let scen = cfg.scenario.as_str();
    let mut v = new_world();
    let tweak = match scen { "drain" | "deals" => true, "random" => r.chance(35), _ => false };
    if tweak {
        v.policy.addressed_sectors_max = 1 + r.below(3);
        v.policy.fault_max_age = PERIOD * (1 + r.below(2) as i64);
    }
    let budget = v.policy.addressed_sectors_max;
    let padded = match scen { "f1" | "double" => false, "random" => r.chance(80), _ => true };
    let mut stop_phase = 0u32; // scenario "stop": 0 precommitted, 1 proven, 2 terminated, 3 funds burnt, 4 cron stopped, 5 restarted
    let mut stopped_epoch = 0i64;
    let mut faults_reported = 0;
    let accts = create_accounts(&v, 6, &TokenAmount::from_whole(200_000));
    let e0 = match scen { "f7" | "f1" | "f2" | "double" => r.range(1, 3000), _ => if r.chance(30) { r.range(1, 20) } else { r.range(1, 9000) } };
    v.set_epoch(e0);
    v.take_invocations();
    let pst: PowerState = get_state(&v, &STORAGE_POWER_ACTOR_ADDR).unwrap();
    let init = format!("init {} {} {}", cf::z(e0), cf::z(pst.first_cron_epoch), cf::z(budget));
    let w = W { v, accts, miners: vec![], padded, cache: Default::default() };
    let mut cx = Ctx { w, r, cfg: cfg.clone(), stats, steps: vec![], fails: vec![], script: vec![], accepted_msg: false, pd_ok: false, extra: BTreeMap::new(), snap: Snap { first_cron: 0, miner_count: 0, claims: BTreeSet::new(), queue: BTreeMap::new(), miners: BTreeMap::new() }, kills: 0, e0, len: cfg.len, idle_run: None, real_steps: 0, sched_suspended: false, in_tick_monitor: false };
    cx.bump(if padded { "cases_padded" } else { "cases_unpadded" }, 1);
    if tweak { cx.bump("cases_policy_tweaked", 1); }
    cx.create_miner();
    let len = match scen { "f1" | "drain" | "double" | "deals" => cfg.len.max(3 * PERIOD as usize + 600), "f7" => cfg.len.max(PERIOD as usize + 400), "stop" => cfg.len.max(3000), "f2" => cfg.len.min(200), _ => cfg.len };
    // scripted openings of the directed scenarios
    let mut script_at: BTreeMap<i64, &str> = BTreeMap::new();
    match scen {
        "f1" | "double" => { script_at.insert(e0 + 2, "precommit"); }
        "f7" => { script_at.insert(e0 + PERIOD + 70 + cx.r.range(0, 200), "precommit"); }
        "stop" => { script_at.insert(e0 + 2, "precommit"); }
        "deals" => {
            script_at.insert(e0 + 2, "deal_precommit");
            script_at.insert(e0 + 160, "provecommit");
        }
        "drain" => {
            script_at.insert(e0 + 2, "precommit5");
            script_at.insert(e0 + 160, "provecommit");
        }
        _ => {}
    }
    for _ in 0..len {
        if let Some(n) = stop_at { if cx.steps.len() > n { break; } }
        let e = cx.epoch();
        if let Some(what) = script_at.get(&e).cloned() {
            match what {
                "precommit" => cx.precommit(0, 1),
                "precommit5" => { cx.w.miners[0].diligent = false; cx.precommit(0, 5) }
                "deal_precommit" => { cx.w.miners[0].diligent = false; cx.publish_deal(0); cx.precommit(0, 3) }
                "provecommit" => cx.provecommit(0),
                _ => {}
            }
        }
        if scen == "stop" && !cx.w.miners.is_empty() {
            // drive all obligations of miner 0 to zero so that its cron stops, then restart it
            let ms = cx.snap.miners[&cx.w.miners[0].idn].clone();
            match stop_phase {
                0 => { if !cx.w.miners[0].pending.is_empty() { cx.provecommit(0); } if !cx.w.miners[0].proven.is_empty() { stop_phase = 1; } }
                1 => { if e % 7 == 0 { cx.terminate(0); } if cx.w.miners[0].proven.is_empty() && ms.et == 0 { stop_phase = 2; } }
                2 => {
                    if ms.locked.is_zero() { stop_phase = 3; }
                    else if faults_reported < 4 && e % 11 == 0 { cx.report_fault(0); faults_reported += 1; }
                }
                3 => { if !ms.active { stop_phase = 4; stopped_epoch = e; cx.bump("scenario_stop_cron_stopped", 1); } }
                4 => { if e > stopped_epoch + 1000 && e % 13 == 0 { cx.precommit(0, 1); if cx.snap.miners[&cx.w.miners[0].idn].active { stop_phase = 5; cx.bump("scenario_stop_cron_restarted", 1); } } }
                _ => {}
            }
        }
        // window PoSts of diligent miners
        for mi in 0..cx.w.miners.len() {
            if cx.w.miners[mi].diligent && !cx.w.miners[mi].proven.is_empty() { cx.post(mi); }
        }
        if scen == "random" || scen == "drain" {
            // user messages, concentrated around deadline boundaries
            let near = cx.snap.miners.values().any(|m| {
                let (_, _, last) = dl_of(m.pps, e);
                e == last || e + 1 == last || dl_of(m.pps, e - 1).2 == e - 1
            });
            let p = if near { 30 } else { 1 };
            let mut n = 0;
            while cx.r.chance(p) && n < 3 {
                if near { cx.bump("messages_at_boundary", 1); } else { cx.bump("messages_elsewhere", 1); }
                cx.user_message();
                n += 1;
            }
        }
        if scen == "random" && cx.r.chance(1) && cx.r.chance(6) {
            let k = *cx.r.pick(&[1i64, 2, 5, 59, 60, 61, 200]);
            cx.skip(k);
        }
        let e = cx.epoch();
        // the tick, sometimes with one nested send failing (chosen from a dry run of the same tick)
        let has_due = cx.snap.queue.range(..=e).next().is_some();
        let late = (e - cx.e0) as usize * 10 > cx.len * 6;
        let inject = if scen == "random" && ((has_due && cx.r.chance(7)) || (cx.r.chance(1) && cx.r.chance(25))) {
            let allow_kill = has_due && late && cx.kills < 2;
            cx.choose_injection(allow_kill)
        } else { None };
        let inject = if scen == "deals" && has_due { cx.deals_injection() } else { inject };
        let inject = if scen == "double" && has_due && cx.snap.claims.len() == 1 { cx.double_failure() } else { inject };
        if inject.is_some() { cx.bump("ticks_with_fault_plan", 1); }
        cx.tick(inject);
    }
    // second oracle: the repository's own cross-actor state invariants (state/src/check.rs).  Only its
    // quirk-free cron message is a failure here (the per-event loop of check_miner_against_power reports a
    // miner whose ProcessEarlyTerminations event is listed before its ProvingDeadline event as having "no
    // proving period cron"; frozen miners that lost their claim are reported by design); the rest is counted.
    if let Ok(Ok(acc)) = std::panic::catch_unwind(std::panic::AssertUnwindSafe(|| check_invariants(&cx.w.v, &cx.w.v.policy, None))) {
        for m in acc.messages() {
            if m.contains("duplicate proving period crons") {
                cx.fail("schedule-wrong", format!("state/src/check.rs: {}", m));
            } else if m.contains("cron") {
                cx.bump("check_rs_cron_messages", 1);
            } else if m.contains("no power claim") {
                cx.bump("check_rs_no_claim_messages", 1);
            } else {
                cx.bump("check_rs_other_messages", 1);
                if std::env::var("C05_DEBUG").is_ok() { eprintln!("check.rs: {}", m); }
            }
        }
        cx.bump("check_rs_runs", 1);
    }
    let nontrivial = cx.accepted_msg && cx.pd_ok;
    let rs = cx.real_steps;
    cx.bump("model_steps_compared", rs);
    let extra = cx.extra.clone();
    (Case { init, steps: cx.steps, nontrivial }, cx.fails, extra)
}

fn main() {
    std::panic::set_hook(Box::new(|_| {}));
    let a = cf::parse_args();
    let mut stats = Stats::default();
    let header = "From VF Require Import Model.Cron Base.Corr.\nFrom Coq Require Import ZArith List.\nImport ListNotations.\nOpen Scope Z_scope.\nDefinition T0 := Tick {| t_entry_fail := false; t_reward_fail := false; t_kpi_fail := false; t_market_fail := false; t_cbs := [] |}.\n(* run-length encoding of idle stretches: n idle ticks whose observations differ only in the epoch *)\nInductive xop := X (o : op) | IdleRun (n : nat).\nDefinition bump (i : Z) (ob : list Z) : list Z := match ob with c :: n :: f :: r => c :: n + i :: f + i :: r | _ => ob end.\nDefinition expand (x : xop * list Z) : list (op * list Z) := match x with (X o, ob) => [(o, ob)] | (IdleRun n, ob) => map (fun i => (T0, bump (Z.of_nat i) ob)) (seq 0 n) end.\nDefinition check_case_rle (s : state) (l : list (xop * list Z)) := check_case s (flat_map expand l).\n";
    let mut cw = CaseWriter::new(&a.out, header, "check_case_rle", a.shards);
    let mut all_fails: Vec<serde_json::Value> = vec![];
    let mut extra_total: BTreeMap<String, u64> = BTreeMap::new();
    let mut run = |cfg: &Cfg, stop: Option<usize>, cw: &mut CaseWriter, stats: &mut Stats| {
        let (case, fails, extra) = run_case(cfg, stats, stop);
        cw.push(case);
        all_fails.extend(fails);
        for (k, n) in extra { *extra_total.entry(k).or_insert(0) += n; }
    };
    if let Some(p) = &a.replay {
        let v: serde_json::Value = serde_json::from_str(&std::fs::read_to_string(p).unwrap()).unwrap();
        let d = if v.get("violation").is_some() { &v["violation"]["detail"] } else { &v };
        let cfg: Cfg = serde_json::from_value(d["case"].clone()).unwrap();
        let stop = d.get("step").and_then(|x| x.as_u64()).map(|x| x as usize + 2);
        run(&cfg, stop, &mut cw, &mut stats);
    } else {
        // corpus first
        let corpus = std::path::Path::new(env!("CARGO_MANIFEST_DIR")).join("../corpus/C05");
        if let Ok(rd) = std::fs::read_dir(&corpus) {
            let mut files: Vec<_> = rd.filter_map(|e| e.ok()).map(|e| e.path()).collect();
            files.sort();
            for f in files {
                if f.extension().map(|x| x == "json").unwrap_or(false) {
                    let v: serde_json::Value = serde_json::from_str(&std::fs::read_to_string(&f).unwrap()).unwrap();
                    let cfg: Cfg = serde_json::from_value(v["case"].clone()).unwrap();
                    run(&cfg, None, &mut cw, &mut stats);
                }
            }
        }
        for k in 0..a.cases {
            let scenario = match k { 0 => "f2", 1 => "f1", 2 => "f7", 3 => "drain", 4 => "idle", 5 => "stop", 6 => "deals", _ => "random" };
            let cfg = Cfg { seed: a.seed, case: k as u64, len: a.len, scenario: scenario.to_string() };
            run(&cfg, None, &mut cw, &mut stats);
        }
    }
    // unknown classes first, known-finding classes (F*) de-duplicated to a few samples, so that the cap of
    // the stats writer never hides a violation
    let mut seen: BTreeMap<String, u64> = BTreeMap::new();
    all_fails.sort_by_key(|f| f["class"].as_str().map(|c| c.starts_with('F')).unwrap_or(false));
    for f in all_fails {
        let c = f["class"].as_str().unwrap_or("?").to_string();
        let n = seen.entry(c.clone()).or_insert(0);
        *n += 1;
        if c.starts_with('F') && *n > 2 { continue; }
        stats.monitor_fail(f);
    }
    for (k, n) in &seen { stats.extra.insert(format!("monitor_class_{}", k), serde_json::json!(n)); }
    for (k, n) in extra_total { stats.extra.insert(k, serde_json::json!(n)); }
    cw.finish(&stats, "cron");
}
